"""Generated real Bob projects with edit histories and a runner for real `bob dev` / `bob build`
invocations with a recorded micro-operation log (shared by C01, C05; see buildsim_child.py).

* `gen_project(rng)` / `edit(rng, proj, history)`: symbolic project (packages with import-SCM sources,
  checkout/build/package scripts, variables, provided variables, tools, classes, -D defines) and
  the edit kinds of the C01 quantifier.  `render(proj, dir)` writes the recipes.
* Every step script is real bash and writes a canonical manifest of (kind, package, script id,
  declared variables, manifests of all inputs) - so workspace contents are comparable between
  workspaces and are an injective function of (digested data, input contents).
* `Sim(dir, repo)`: runs invocations through the fork server, reads back the micro-op log, the step
  graph as the builder sees it, the persisted state and workspace snapshots.
"""
import copy
import hashlib
import json
import os
import pickle
import shutil
import subprocess
import sys

HERE = os.path.dirname(os.path.abspath(__file__))
CHILD = os.path.join(HERE, "buildsim_child.py")
VARS = ["V0", "V1", "V2", "V3"]
VALUES = ["a", "b", "c c", ""]

# ----------------------------------------------------------------------------------- generator


def gen_project(r, npkgs=None, features=None):
    """features: set of optional feature names to allow (tools, classes, provide, coscript, defines)"""
    f = features if features is not None else {"tools", "classes", "provide", "coscript", "defines", "nocheckout",
                                               "multivariant"}
    n = npkgs or r.choice([2, 2, 3, 3, 4])
    names = ["p%d" % i for i in range(n)]
    proj = {"pkgs": {}, "classes": {}, "env": {}, "defines": {}, "serial": 1}
    if "classes" in f and r.random() < 0.5:
        proj["classes"]["c0"] = {"id": 1, "vars": r.sample(VARS, r.randrange(0, 2))}
    if r.random() < 0.6:
        proj["env"][r.choice(VARS)] = r.choice(VALUES)
    for i, name in enumerate(names):
        later = names[i + 1:]
        deps = [d for d in later if r.random() < (0.7 if i == 0 else 0.4)]
        if i == 0 and later and not deps:
            deps = [later[0]]
        co = None
        k = r.random()
        if k < 0.55 or i == n - 1:
            co = {"import": True, "dir": r.choice([".", ".", "imp"]), "url": "src/" + name,
                  "files": {name + ".id": name, "a.txt": "a1"}, "script": None}
            if "coscript" in f and r.random() < 0.4:
                co["script"] = {"id": 1, "det": r.random() < 0.5, "vars": []}
        elif k < 0.85 and "coscript" in f:
            co = {"import": False, "files": {}, "script": {"id": 1, "det": r.random() < 0.7, "vars": r.sample(VARS, r.randrange(0, 2))}}
        elif "nocheckout" not in f:
            co = {"import": False, "files": {}, "script": {"id": 1, "det": True, "vars": []}}
        pkg = {"deps": deps, "co": co, "bid": 1, "pid": 1,
               "bvars": r.sample(VARS, r.randrange(0, 3)), "pvars": r.sample(VARS, r.randrange(0, 2)),
               "penv": {}, "xenv": {}, "provideVars": {}, "tool": None, "useTools": [], "inherit": []}
        if r.random() < 0.4:
            pkg["penv"][r.choice(VARS)] = r.choice(VALUES)
        if proj["classes"] and r.random() < 0.5:
            pkg["inherit"] = ["c0"]
        proj["pkgs"][name] = pkg
    for i, name in enumerate(names):
        pkg = proj["pkgs"][name]
        for d in pkg["deps"]:
            dp = proj["pkgs"][d]
            if "provide" in f and r.random() < 0.3:
                dp["provideVars"][r.choice(VARS)] = r.choice(VALUES) + d
            if "tools" in f and r.random() < 0.3:
                if dp["tool"] is None:
                    dp["tool"] = {"path": "b1"}
                if d not in pkg["useTools"]:
                    pkg["useTools"].append(d)
                # a tool may also be used by the checkout script (the checkout step then has a dependency)
                if pkg["co"] and pkg["co"]["script"] and r.random() < 0.5:
                    pkg["co"]["script"].setdefault("tools", [])
                    if d not in pkg["co"]["script"]["tools"]:
                        pkg["co"]["script"]["tools"].append(d)
    if "defines" in f and r.random() < 0.3:
        proj["defines"][r.choice(VARS)] = r.choice(VALUES)
    if "multivariant" in f and n >= 3 and r.random() < 0.45:
        # one recipe built in two variants: two consumers hand different values of a consumed variable down
        a, b, d = names[0], names[1], names[-1]
        v = r.choice(VARS)
        pa, pb, pd = proj["pkgs"][a], proj["pkgs"][b], proj["pkgs"][d]
        for x, y in ((a, b), (a, d), (b, d)):
            if y not in proj["pkgs"][x]["deps"]:
                proj["pkgs"][x]["deps"].insert(r.randrange(len(proj["pkgs"][x]["deps"]) + 1), y)
        pa["xenv"][v] = "x" + a
        pb["xenv"][v] = "x" + b
        if v not in pd["bvars"]:
            pd["bvars"].append(v)
        pd["penv"].pop(v, None)
        proj["multivariant"] = [d, v]
    if "tools" in f and "coscript" in f and n >= 2 and r.random() < 0.3:
        # a deterministic script-only checkout that uses a tool built from import sources: the only thing that
        # re-runs it after a source edit of the tool is the "dependency changed" rule
        root, dep = proj["pkgs"][names[0]], proj["pkgs"][names[1]]
        if names[1] not in root["deps"]:
            root["deps"].insert(0, names[1])
        dep["tool"] = dep["tool"] or {"path": "b1"}
        if not (dep["co"] and dep["co"]["import"]):
            dep["co"] = {"import": True, "dir": ".", "url": "src/" + names[1],
                         "files": {names[1] + ".id": names[1], "a.txt": "a1"}, "script": None}
        if names[1] not in root["useTools"]:
            root["useTools"].append(names[1])
        root["co"] = {"import": False, "files": {}, "script": {"id": 1, "det": True, "vars": [], "tools": [names[1]]}}
        proj["cotool"] = names[1]
    return proj


CLAMP_EPOCH = 1000000000


def add_clamps(proj):
    """reproducible-build style scripts: some build / package scripts set the time stamp of their manifest to a fixed
    date (`touch -d @<epoch>`) after writing it.  Decided by a hash of the generated project, not by the rng: the
    random streams of all existing histories stay what they were.  proj["clamp"] tells whether a clamp sits where an
    in-place rewrite of equal size can happen below an otherwise unchanged consumer (build step of a package with
    dependencies, package step of a dependency)."""
    h = hashlib.sha1(json.dumps(proj, sort_keys=True).encode()).digest()
    names = list(proj["pkgs"])
    useful = False
    for i, name in enumerate(names):
        pkg = proj["pkgs"][name]
        pkg["bclamp"] = h[i % 8] % 5 < 2
        pkg["pclamp"] = h[8 + i % 8] % 4 == 0
        if (pkg["bclamp"] and pkg["deps"]) or (pkg["pclamp"] and i > 0):
            useful = True
    proj["clamp"] = useful
    return proj


EDIT_KINDS = ["xenv", "cotool", "bscript", "pscript", "coscript", "var-value", "var-list", "dep-add", "dep-remove", "provide", "tool-use",
              "tool-path", "src-modify", "src-add", "src-delete", "define", "class", "env", "revert", "codet",
              "import-url", "noop"]


def edit(r, proj, history, kinds=None):
    """returns (new project, edit description); `history` = earlier project states (for reverts)"""
    p = copy.deepcopy(proj)
    p["serial"] = max(h["serial"] for h in history + [proj]) + 1
    names = list(p["pkgs"])
    for _ in range(30):
        kind = r.choice(kinds or EDIT_KINDS)
        name = r.choice(names)
        if p.get("cotool") in names and kinds is None and r.random() < 0.25:
            kind, name = r.choice(["src-modify", "src-add"]), p["cotool"]
        elif p.get("multivariant") and kinds is None and r.random() < 0.3:
            kind = "xenv"
        pkg = p["pkgs"][name]
        idx = names.index(name)
        ser = p["serial"]
        if kind == "bscript":
            pkg["bid"] = ser
            return p, [kind, name]
        if kind == "pscript":
            pkg["pid"] = ser
            return p, [kind, name]
        if kind == "coscript" and pkg["co"] and pkg["co"]["script"]:
            pkg["co"]["script"]["id"] = ser
            return p, [kind, name]
        if kind == "codet" and pkg["co"] and pkg["co"]["script"]:
            pkg["co"]["script"]["det"] = not pkg["co"]["script"]["det"]
            return p, [kind, name]
        if kind == "var-value":
            tgt = r.choice(["penv", "env"])
            v = r.choice(VARS)
            val = r.choice(VALUES) + r.choice(["", str(ser)])
            if tgt == "penv":
                pkg["penv"][v] = val
            else:
                p["env"][v] = val
            return p, [kind, name if tgt == "penv" else "*", v, val]
        if kind == "env" and p["env"]:
            v = r.choice(sorted(p["env"]))
            del p["env"][v]
            return p, [kind, v]
        if kind == "var-list":
            which = r.choice(["bvars", "pvars"])
            v = r.choice(VARS)
            if v in pkg[which]:
                pkg[which].remove(v)
            else:
                pkg[which].append(v)
            return p, [kind, name, which, v]
        if kind == "dep-add":
            cands = [d for d in names[idx + 1:] if d not in pkg["deps"]]
            if cands:
                d = r.choice(cands)
                pkg["deps"].insert(r.randrange(len(pkg["deps"]) + 1), d)
                return p, [kind, name, d]
        if kind == "dep-remove" and pkg["deps"]:
            d = r.choice(pkg["deps"])
            pkg["deps"].remove(d)
            if d in pkg["useTools"]:
                pkg["useTools"].remove(d)
            return p, [kind, name, d]
        if kind == "provide":
            v = r.choice(VARS)
            if v in pkg["provideVars"] and r.random() < 0.4:
                del pkg["provideVars"][v]
            else:
                pkg["provideVars"][v] = r.choice(VALUES) + str(ser)
            return p, [kind, name, v]
        if kind == "tool-use" and pkg["deps"]:
            d = r.choice(pkg["deps"])
            if d in pkg["useTools"]:
                pkg["useTools"].remove(d)
            else:
                if p["pkgs"][d]["tool"] is None:
                    p["pkgs"][d]["tool"] = {"path": "b1"}
                pkg["useTools"].append(d)
            return p, [kind, name, d]
        if kind == "xenv":
            cands = [n_ for n_ in names if p["pkgs"][n_].get("xenv")]
            if cands:
                n_ = r.choice(cands)
                v = r.choice(sorted(p["pkgs"][n_]["xenv"]))
                p["pkgs"][n_]["xenv"][v] = "x%d" % ser
                return p, [kind, n_, v]
            continue
        if kind == "cotool" and pkg["co"] and pkg["co"]["script"] and pkg["useTools"]:
            d = r.choice(pkg["useTools"])
            tl = pkg["co"]["script"].setdefault("tools", [])
            if d in tl:
                tl.remove(d)
            else:
                tl.append(d)
            return p, [kind, name, d]
        if kind == "tool-path" and pkg["tool"]:
            pkg["tool"]["path"] = "b%d" % ser
            return p, [kind, name]
        if kind in ("src-modify", "src-add", "src-delete") and pkg["co"] and pkg["co"]["import"]:
            files = pkg["co"]["files"]
            if kind == "src-modify":
                fn = r.choice(sorted(files))
                if fn.endswith(".id"):
                    continue
                files[fn] = "m%d" % ser
            elif kind == "src-add":
                files[r.choice(["n%d.txt" % ser, "sub/n%d.txt" % ser])] = "n%d" % ser
            else:
                cands = [fn for fn in sorted(files) if not fn.endswith(".id")]
                if not cands:
                    continue
                del files[r.choice(cands)]
            return p, [kind, name]
        if kind == "src-samesize":
            # (only on request, not in EDIT_KINDS) a source file of a *dependency* gets another content of the same size:
            # it reaches the consumers through the dependency's result only, their own checkouts and variant ids stay
            cands = [n_ for n_ in names[1:] if p["pkgs"][n_]["co"] and p["pkgs"][n_]["co"]["import"]] or \
                    [n_ for n_ in names if p["pkgs"][n_]["co"] and p["pkgs"][n_]["co"]["import"]]
            if not cands:
                continue
            n_ = r.choice(cands)
            files = p["pkgs"][n_]["co"]["files"]
            fns = [fn for fn in sorted(files) if not fn.endswith(".id") and files[fn]]
            if not fns:
                continue
            fn = r.choice(fns)
            t = files[fn]
            files[fn] = t[:-1] + (str((int(t[-1]) + r.randrange(1, 10)) % 10) if t[-1].isdigit() else ("y" if t[-1] == "x" else "x"))
            return p, [kind, n_, fn, files[fn]]
        if kind == "import-url" and pkg["co"] and pkg["co"]["import"]:
            pkg["co"]["url"] = "src/" + name + ("" if pkg["co"]["url"].endswith("_alt") else "_alt")
            return p, [kind, name]
        if kind == "define":
            v = r.choice(VARS)
            if v in p["defines"] and r.random() < 0.4:
                del p["defines"][v]
            else:
                p["defines"][v] = r.choice(VALUES) + str(ser)
            return p, [kind, v]
        if kind == "class" and p["classes"]:
            c = p["classes"]["c0"]
            if r.random() < 0.6:
                c["id"] = ser
            else:
                v = r.choice(VARS)
                if v in c["vars"]:
                    c["vars"].remove(v)
                else:
                    c["vars"].append(v)
            return p, [kind, "c0"]
        if kind == "revert" and history:
            i = r.randrange(len(history))
            q = copy.deepcopy(history[i])
            q["serial"] = p["serial"]
            return q, [kind, i]
        if kind == "noop":
            return p, [kind]
    return p, ["noop"]


# ----------------------------------------------------------------------------------- rendering

DUMP_FN = r'''shopt -s globstar nullglob dotglob
dump() { local f l; if [ -d "$1" ]; then for f in "$1"/**; do if [ -f "$f" ]; then echo "f ${f#"$1"/}"; while IFS= read -r l || [ -n "$l" ]; do echo " |$l"; done < "$f"; fi; done; else echo "nodir"; fi; }
'''
CTL = '"$PWD/../../../../../ctl"'


def _hook(kind, name):
    """fault hook of the oracles: the control file is outside of everything Bob tracks.  Modes: the script exits 1,
    its shell dies from SIGKILL / SIGTERM (Bob survives), or it kills Bob - always after half of its output."""
    f = "%s/%s-%s" % (CTL, kind, name)
    fired = "%s/fired-%s-%s" % (CTL, kind, name)
    return ('if [ -e %s ]; then echo partial >> $OUT; echo 1 > %s; case "$(< %s)" in exit) exit 1;; kill) kill -9 $$;; '
            'term) kill -TERM $$;; killbob) kill -9 $PPID; sleep 10;; esac; fi\n') % (f, fired, f)


def _vars(vs):
    return "".join('echo "%s=${%s-<unset>}"\n' % (v, v) for v in sorted(vs))


def _yaml(obj):
    return json.dumps(obj)   # JSON is YAML


def render_recipe(name, pkg, proj, is_root):
    cls_vars = []
    for c in pkg["inherit"]:
        cls_vars += proj["classes"][c]["vars"]
    rec = {}
    if is_root:
        rec["root"] = True
    if pkg["inherit"]:
        rec["inherit"] = list(pkg["inherit"])
    deps = []
    for d in pkg["deps"]:
        use = ["result", "environment"]
        if d in pkg["useTools"]:
            use.append("tools")
        deps.append({"name": d, "use": use})
    if deps:
        rec["depends"] = deps
    if pkg.get("xenv"):
        rec["environment"] = dict(pkg["xenv"])
    if pkg["penv"]:
        rec["privateEnvironment"] = dict(pkg["penv"])
    if pkg["provideVars"]:
        rec["provideVars"] = dict(pkg["provideVars"])
    if pkg["tool"]:
        rec["provideTools"] = {"t_" + name: pkg["tool"]["path"]}
    co = pkg["co"]
    if co:
        if co["import"]:
            rec["checkoutSCM"] = {"scm": "import", "url": co["url"], "dir": co["dir"], "prune": True}
        if co["script"]:
            sc = co["script"]
            rec["checkoutDeterministic"] = bool(sc["det"])
            if sc["vars"]:
                rec["checkoutVars"] = sorted(sc["vars"])
            ctools = ["t_" + d for d in sc.get("tools", []) if d in pkg["useTools"]]
            if ctools:
                rec["checkoutTools"] = ctools
            ctool_lines = "".join('tp="${BOB_TOOL_PATHS[%s]}"; echo "T %s ${tp##*/}"; dump "${tp%%/*}"\n' % (t, t) for t in ctools)
            rec["checkoutScript"] = (DUMP_FN + "OUT=gen.txt\necho \"C %s %d\" > $OUT\n" % (name, sc["id"]) + _hook("checkout", name)
                                     + "{\n:\n" + _vars(sc["vars"]) + ctool_lines + "} >> $OUT\n")
    tools = ["t_" + d for d in pkg["useTools"]]
    bvars = sorted(set(pkg["bvars"]))
    if bvars:
        rec["buildVars"] = bvars
    if tools:
        rec["buildTools"] = tools
    tool_lines = "".join('tp="${BOB_TOOL_PATHS[%s]}"; echo "T %s ${tp##*/}"; dump "${tp%%/*}"\n' % (t, t) for t in tools)
    # the build workspace is reused between runs (develop mode): a marker file per script variant makes left-overs of
    # an *other* variant visible (Bob must prune on a changed variant), re-runs of the same variant are idempotent
    rec["buildScript"] = (DUMP_FN + "OUT=m\n: > \"id-%s-%d\"\necho \"B %s %d ids:$(echo id-*)\" > $OUT\n" % (name, pkg["bid"], name, pkg["bid"])
                          + _hook("build", name)
                          + "{\n" + _vars(set(bvars) | set(cls_vars)) + tool_lines
                          + 'for a in "$@"; do echo "A"; dump "$a"; done\n} >> $OUT\n'
                          + ("touch -d @%d \"$OUT\"\n" % CLAMP_EPOCH if pkg.get("bclamp") else ""))
    pvars = sorted(set(pkg["pvars"]))
    if pvars:
        rec["packageVars"] = pvars
    rec["packageScript"] = (DUMP_FN + "PRE=\"$(echo *)\"\nOUT=m\necho \"P %s %d pre:$PRE\" > $OUT\n" % (name, pkg["pid"]) + _hook("package", name)
                            + "{\n" + _vars(pvars) + 'dump "$1"\n} >> $OUT\n'
                            + ("touch -d @%d \"$OUT\"\n" % CLAMP_EPOCH if pkg.get("pclamp") else ""))
    return _yaml(rec)


def render_class(cname, c):
    rec = {"buildVars": sorted(c["vars"]), "buildScript": "echo \"CLS %s %d\" > cls.txt\n" % (cname, c["id"])}
    if not c["vars"]:
        del rec["buildVars"]
    return _yaml(rec)


def render(proj, root):
    """(re)write config, recipes, classes and import sources of the project state"""
    os.makedirs(root, exist_ok=True)
    os.makedirs(os.path.join(root, "ctl"), exist_ok=True)
    with open(os.path.join(root, "config.yaml"), "w") as f:
        f.write(_yaml({"bobMinimumVersion": "0.24"}))
    dflt = {}
    if proj["env"]:
        dflt["environment"] = dict(proj["env"])
    with open(os.path.join(root, "default.yaml"), "w") as f:
        f.write(_yaml(dflt))
    for sub in ("recipes", "classes", "src"):
        shutil.rmtree(os.path.join(root, sub), ignore_errors=True)
        os.makedirs(os.path.join(root, sub))
    names = list(proj["pkgs"])
    for name, pkg in proj["pkgs"].items():
        with open(os.path.join(root, "recipes", name + ".yaml"), "w") as f:
            f.write(render_recipe(name, pkg, proj, name == names[0]))
        co = pkg["co"]
        if co and co["import"]:
            d = os.path.join(root, co["url"])
            os.makedirs(d, exist_ok=True)
            for fn, text in co["files"].items():
                fp = os.path.join(d, fn)
                os.makedirs(os.path.dirname(fp), exist_ok=True)
                with open(fp, "w") as f:
                    f.write(text + ("\nalt" if co["url"].endswith("_alt") else "") + "\n")
    for cname, c in proj["classes"].items():
        with open(os.path.join(root, "classes", cname + ".yaml"), "w") as f:
            f.write(render_class(cname, c))


def defines_argv(proj):
    return ["-D%s=%s" % (k, v) for k, v in sorted(proj["defines"].items())]


# ----------------------------------------------------------------------------------- snapshots

def snapshot(path):
    """canonical content of a directory tree: sorted (relpath, kind, data); None if missing"""
    if not os.path.isdir(path) or os.path.islink(path):
        if os.path.lexists(path):
            return "not-a-dir"
        return None
    items = []
    for dp, dns, fns in os.walk(path):
        dns.sort()
        rel = os.path.relpath(dp, path)
        for dn in list(dns):
            full = os.path.join(dp, dn)
            if os.path.islink(full):
                items.append((os.path.normpath(os.path.join(rel, dn)), "l", os.readlink(full)))
                dns.remove(dn)
            else:
                items.append((os.path.normpath(os.path.join(rel, dn)), "d", ""))
        for fn in sorted(fns):
            full = os.path.join(dp, fn)
            if os.path.islink(full):
                items.append((os.path.normpath(os.path.join(rel, fn)), "l", os.readlink(full)))
            else:
                try:
                    with open(full, "rb") as f:
                        data = f.read()
                except OSError:
                    data = b"<unreadable>"
                x = "x" if os.stat(full).st_mode & 0o100 else "f"
                items.append((os.path.normpath(os.path.join(rel, fn)), x, data.decode("utf8", "replace")))
    items.sort()
    return items


def snap_id(snap):
    if snap is None:
        return None
    return hashlib.sha1(json.dumps(snap).encode()).hexdigest()[:16]


def load_state(root):
    """the persisted workspace state as the next invocation will see it (uncommitted file wins)"""
    p = os.path.join(root, ".bob-state.pickle")
    n = p + ".new"
    try:
        if os.path.exists(n):
            data = open(n, "rb").read()
            import struct
            import zlib
            if len(data) >= 4 and struct.pack("=L", zlib.adler32(data[:-4])) == data[-4:]:
                return pickle.loads(data[:-4])
        if os.path.exists(p):
            with open(p, "rb") as f:
                return pickle.load(f)
    except Exception:  # noqa
        return None
    return None


# ----------------------------------------------------------------------------------- runner

_SERVERS = {}


def _server(repo):
    key = (os.getpid(), repo)
    s = _SERVERS.get(key)
    if s is not None and s.poll() is None:
        return s
    env = dict(os.environ)
    env["PYTHONPATH"] = os.path.join(repo, "pym")
    env["PYTHONDONTWRITEBYTECODE"] = "1"
    env.pop("MAKEFLAGS", None)
    s = subprocess.Popen([sys.executable, CHILD, "--server"], stdin=subprocess.PIPE, stdout=subprocess.PIPE,
                         stderr=subprocess.DEVNULL, env=env, text=True, start_new_session=True)
    line = s.stdout.readline()
    if line.strip() != "ready":
        raise RuntimeError("buildsim server did not start: %r" % line)
    _SERVERS[key] = s
    return s


def shutdown_servers():
    for k, s in list(_SERVERS.items()):
        if k[0] == os.getpid():
            try:
                s.stdin.close()
                s.wait(timeout=5)
            except Exception:  # noqa
                s.kill()
            del _SERVERS[k]


class OutOfTime(Exception):
    """the worker's deadline passed: the current history / scenario is abandoned (no verdict)"""


class Sim:
    """one project directory with real Bob invocations"""

    def __init__(self, root, repo, deadline=None):
        self.root = root
        self.repo = repo
        self.deadline = deadline
        self.n = 0
        os.makedirs(root, exist_ok=True)
        self.scratch = root + ".run"
        os.makedirs(self.scratch, exist_ok=True)

    def set_fault(self, kind, name, mode):
        os.makedirs(os.path.join(self.root, "ctl"), exist_ok=True)
        with open(os.path.join(self.root, "ctl", "%s-%s" % (kind, name)), "w") as f:
            f.write(mode)

    def fired(self):
        """(kind, name) of the fault hooks that were reached since the last clear_faults()"""
        d = os.path.join(self.root, "ctl")
        out = []
        if os.path.isdir(d):
            for fn in sorted(os.listdir(d)):
                if fn.startswith("fired-"):
                    out.append(fn[6:].split("-", 1))
        return out

    def clear_faults(self):
        d = os.path.join(self.root, "ctl")
        if os.path.isdir(d):
            for fn in os.listdir(d):
                os.unlink(os.path.join(d, fn))

    def remove_lock(self):
        try:
            os.unlink(os.path.join(self.root, ".bob-state.lock"))
        except FileNotFoundError:
            pass

    def invoke(self, develop, argv, abort_at=None, real_pool=False, timeout=120):
        import time
        if self.deadline is not None:
            if time.time() > self.deadline:
                raise OutOfTime()
            # an invocation still running when the worker's deadline has passed is given up (no verdict)
            timeout = min(timeout, max(8.0, self.deadline - time.time() + 8.0))
        self.n += 1
        base = os.path.join(self.scratch, "inv%d" % self.n)
        job = {"cwd": self.root, "develop": develop, "argv": list(argv), "abort_at": abort_at, "out": base + ".out",
               "res": base + ".json", "real_pool": real_pool, "timeout": timeout,
               "bobroot": os.path.join(self.repo, "bob")}
        s = _server(self.repo)
        s.stdin.write(json.dumps(job) + "\n")
        s.stdin.flush()
        line = s.stdout.readline()
        if not line:
            raise RuntimeError("buildsim server died")
        st = json.loads(line)
        out = {"wait": st["wait"], "rc": None, "error": None, "log": [], "dump": None}
        # a child that is killed (fault injection, time-out) may leave any of its files half written
        if os.path.exists(job["res"]):
            try:
                with open(job["res"]) as f:
                    out.update(json.load(f))
            except ValueError:
                pass
        if os.path.exists(job["res"] + ".log"):
            with open(job["res"] + ".log") as f:
                for l in f:
                    if l.strip():
                        try:
                            out["log"].append(json.loads(l))
                        except ValueError:
                            break
        if os.path.exists(job["res"] + ".dump"):
            try:
                with open(job["res"] + ".dump") as f:
                    out["dump"] = json.load(f)
            except ValueError:
                out["dump"] = None
        try:
            with open(job["out"], errors="replace") as f:
                out["stdout"] = f.read()
        except OSError:
            out["stdout"] = ""
        if out["rc"] is None:
            out["rc"] = "killed" if st["wait"].startswith("signal") else st["wait"]
        return out

    def snapshots(self, paths):
        return {p: snapshot(os.path.join(self.root, p)) for p in paths}

    def state(self):
        return load_state(self.root)

    def destroy(self):
        shutil.rmtree(self.root, ignore_errors=True)
        shutil.rmtree(self.scratch, ignore_errors=True)


STEP_LINE = None


def executed_steps(stdout):
    """(kind, path) of steps Bob reports as executed / skipped"""
    import re
    ex, sk = [], []
    for line in stdout.splitlines():
        m = re.match(r"\s+(CHECKOUT|BUILD|PACKAGE)\s+(.*)$", line)
        if not m:
            continue
        rest = m.group(2)
        if rest.startswith("skipped"):
            m2 = re.search(r"\(.*?((?:dev|work)/\S+?)\)", rest)
            sk.append((m.group(1), m2.group(1) if m2 else rest))
        elif rest.startswith("WARNING"):
            continue
        else:
            ex.append((m.group(1), rest.split()[0]))
    return ex, sk


# ----------------------------------------------------------------------------------- model side

EMPTY_SNAP = snap_id([])


def model_steps(dump, root):
    """the step table of the Lean driver request, from the graph the builder reported"""
    steps = {}
    for path, d in dump["steps"].items():
        world = ""
        tag = d["tag"]
        if d["kind"] == "checkout":
            ws = []
            for scm in d.get("scmList", []):
                pr = scm["props"]
                if pr.get("scm") == "import":
                    ws.append(str(snap_id(snapshot(os.path.join(root, pr["url"])))))
                else:
                    ws.append("?")
            world = ",".join(ws)
            tag += "".join("<%s>" % s[0] for s in d["scms"])
        steps[path] = {"kind": d["kind"], "tag": tag, "path": path, "execPath": d["execPath"], "pkg": d["pkg"],
                       "det": d["det"], "hasScript": d["hasScript"], "scms": d["scms"], "boLoc": d["boLoc"],
                       "boUpd": d["boUpd"], "world": world, "fp": d["fp"], "pre": d["pre"], "deps": d["deps"]}
    return steps


def unsupported(dump):
    """features of a generated project the builder model does not cover"""
    out = list(dump.get("problems", []))
    for p, d in dump["steps"].items():
        if d["sandbox"]:
            out.append("sandbox")
        if d["fingerprinted"]:
            out.append("fingerprint-script")
    return out


def model_fuel(prefix, aborted_before):
    """micro-operations of the model that correspond to an implementation log prefix"""
    n = len(prefix)
    n += sum(1 for e in prefix if e[0] == "run")          # scriptBegin + scriptEnd
    n += sum(1 for e in prefix if e[0] == "setAttic")     # atticMove + setAttic
    if aborted_before is not None and aborted_before[0] == "setAttic":
        n += 1
    return n


def model_params(inv):
    """fuel / failing script / junk of the model run that corresponds to a recorded (possibly aborted) invocation"""
    ab = inv.get("abort")
    if not ab:
        return {}
    obs = inv["obs"]

    def term(path):
        sn = obs["snaps"].get(path)
        return "" if sn in (None, EMPTY_SNAP) else "SNAP:" + sn
    if ab[0] == "cut":
        if inv["rc"] != "abort":
            return {}
        return {"fuel": model_fuel(inv["log"], inv.get("aborted_before"))}
    runs = [e for e in inv["log"] if e[0] == "run"]
    if inv["rc"] == 0 or not runs or not inv.get("fired"):
        return {}
    path = runs[-1][1]
    tag = (obs["steps"] or {}).get(path, {}).get("tag")
    if ab[3] == "killbob":
        return {"fuel": model_fuel(inv["log"], None) - 1, "junk": term(path)}
    return {"fail": {tag: term(path)}}


class Matcher:
    """consistent one-to-one renaming between implementation values (digests, datetimes, workspace
    snapshots) and model values (terms, counters): equal on one side iff equal on the other"""

    def __init__(self, root):
        self.root = root
        self.maps = {}
        self.err = None

    def fail(self, what):
        if self.err is None:
            self.err = what
        return False

    def bind(self, ns, real, model, where):
        r2m, m2r = self.maps.setdefault(ns, ({}, {}))
        model = json.dumps(model, sort_keys=True) if not isinstance(model, str) else model
        if real in r2m:
            if r2m[real] != model:
                return self.fail("%s: %s value %s is %s in the model, was %s before" % (where, ns, real, model[:200], r2m[real][:200]))
            return True
        if model in m2r:
            return self.fail("%s: %s value %s of the model is %s in the implementation, was %s before" % (where, ns, model[:200], real, m2r[model]))
        r2m[real] = model
        m2r[model] = real
        return True

    def rh(self, impl, model, where):
        if impl is None or model is None:
            if impl is None and model is None:
                return True
            return self.fail("%s: result %r vs model %r" % (where, impl, model))
        if isinstance(impl, dict):
            if "forged" in impl and "forged" in model:
                return self.bind("forged", impl["forged"], str(model["forged"]), where)
            return self.fail("%s: result %r vs model %r" % (where, impl, model))
        if "fp" in model:
            want = hashlib.sha1(os.path.abspath(os.path.join(self.root, model["fp"])).encode()).hexdigest()
            return impl == want or self.fail("%s: fingerprint %s vs %s" % (where, impl, want))
        if "h" in model:
            return self.bind("hash", impl, model["h"], where)
        return self.fail("%s: result %r vs model %r" % (where, impl, model))

    def inputs(self, impl, model, where, is_pkg):
        if impl is None or model is None:
            return (impl is None and model is None) or self.fail("%s: inputs %r vs model %r" % (where, impl, model))
        if not isinstance(impl, list):
            return self.fail("%s: inputs %r not modelled" % (where, impl))
        if is_pkg:
            impl = impl[1:]   # the build-id (see Model/Builder.lean `Inputs`)
        if len(impl) != len(model):
            return self.fail("%s: inputs %r vs model %r" % (where, impl, model))
        return all(self.rh(a, b, where) for a, b in zip(impl, model))

    def vid(self, impl, model, where):
        if impl is None or model is None:
            return (impl is None and model is None) or self.fail("%s: variant-id %r vs model %r" % (where, impl, model))
        return self.bind("vid", impl, model, where)

    def dir(self, impl, model, where):
        if impl is None or model is None:
            return (impl is None and model is None) or self.fail("%s: dir state %r vs model %r" % (where, impl, model))
        if "co" in impl and "co" in model:
            if impl["co"] != model["co"]:
                return self.fail("%s: SCM dirs %r vs model %r" % (where, impl["co"], model["co"]))
            if not self.vid(impl["vid"], model["vid"], where):
                return False
            if impl["bo"] is None or model["bo"] is None:
                return (impl["bo"] is None and model["bo"] is None) or self.fail("%s: build-only state %r vs %r" % (where, impl["bo"], model["bo"]))
            if not isinstance(impl["bo"], list):
                return self.fail("%s: build-only state %r" % (where, impl["bo"]))
            return (impl["bo"][0] == model["bo"][0] and impl["bo"][1] == model["bo"][1]) and \
                self.inputs(impl["bo"][2], model["bo"][2], where, False) or self.fail("%s: build-only state %r vs %r" % (where, impl["bo"], model["bo"]))
        if "build" in impl and "build" in model:
            return (impl["paths"] == model["paths"] or self.fail("%s: digest paths %r vs %r" % (where, impl["paths"], model["paths"]))) \
                and self.vid(impl["build"], model["build"], where)
        if "pkg" in impl and "pkg" in model:
            return self.vid(impl["pkg"], model["pkg"], where)
        return self.fail("%s: dir state %r vs model %r" % (where, impl, model))

    def snap(self, impl_snap_id, model, where):
        if impl_snap_id is None or model is None:
            return (impl_snap_id is None and model is None) or self.fail("%s: workspace %r vs model %r" % (where, impl_snap_id, model))
        return self.bind("snap", impl_snap_id, model, where)


def compare_logs(M, ilog, mlog, tag):
    """implementation micro-op log vs model micro-op list (same order); returns True if they agree"""
    vis = [o for o in mlog if o["op"] not in ("scriptEnd", "atticMove")]
    for k, (a, b) in enumerate(zip(ilog, vis)):
        where = "%s op %d %s %s" % (tag, k + 1, a[0], a[1])
        op = {"run": "scriptBegin"}.get(a[0], a[0])
        if op != b["op"] or (a[0] != "setAttic" and a[1] != b["p"]):
            return M.fail("%s: implementation %r, model %r" % (where, a[:2], [b["op"], b["p"]]))
        ok = True
        if a[0] in ("reset", "setDir"):
            ok = M.dir(a[2], b["v"], where)
        elif a[0] == "setResult":
            ok = M.rh(a[2], b["v"], where)
        elif a[0] == "setInputs":
            ok = M.inputs(a[2], b["v"], where, "/dist/" in a[1])
        elif a[0] == "setVid":
            ok = M.vid(a[2], b["v"], where)
        if not ok:
            return False
    if len(ilog) != len(vis):
        extra = ilog[len(vis):][:3] if len(ilog) > len(vis) else [[o["op"], o["p"]] for o in vis[len(ilog):][:3]]
        return M.fail("%s: implementation has %d micro-ops, model %d; first extra: %r" % (tag, len(ilog), len(vis), extra))
    return True


def observe(sim, res, known_paths=()):
    """everything the correspondence needs from one finished (or killed) invocation, JSON-able"""
    from gen import buildsim_child as ch
    state = sim.state() or {}
    res_, inp, dirs, vids = (state.get(k, {}) for k in ("results", "inputs", "dirStates", "variantIds"))
    paths = set(known_paths)
    if res.get("dump"):
        paths |= set(res["dump"]["steps"])
    for d in (res_, inp, dirs, vids):
        paths |= {p for p in d if isinstance(p, str)}
    obs = {"state": {}, "snaps": {}, "steps": None, "roots": None, "unsupported": []}
    for p in sorted(paths):
        obs["state"][p] = {"result": ch.canon_rh(res_.get(p)), "inputs": ch.canon_inputs(inp.get(p)),
                           "dir": ch.canon_dir(dirs.get(p)), "vid": ch.canon_rh(vids.get(p))}
        obs["snaps"][p] = snap_id(snapshot(os.path.join(sim.root, p)))
    if res.get("dump"):
        obs["steps"] = model_steps(res["dump"], sim.root)
        obs["roots"] = res["dump"]["roots"]
        obs["unsupported"] = unsupported(res["dump"])
    return obs


def compare_state(M, obs, mstate, tag):
    """persisted state + workspace contents vs the model state, path by path"""
    for p, ms in sorted(mstate.items()):
        where = "%s state of %s" % (tag, p)
        st = obs["state"].get(p, {"result": None, "inputs": None, "dir": None, "vid": None})
        if not M.rh(st["result"], ms["result"], where + " result"):
            return False
        if not M.inputs(st["inputs"], ms["inputs"], where + " inputs", "/dist/" in p):
            return False
        if not M.dir(st["dir"], ms["dir"], where + " dirState"):
            return False
        if not M.vid(st["vid"], ms["vid"], where + " variantId"):
            return False
        if not M.snap(obs["snaps"].get(p), ms["disk"], where + " workspace"):
            return False
    return True
