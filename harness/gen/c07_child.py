"""Child side of the C07 checks: runs real `bob dev` / `bob build` invocations in-process
(`bob.cmds.build.build.doDevelop/doBuild`) with a real LocalArchive and records, from the outside,

  * every update of the persistent workspace state (`_BobState` mutators),
  * every executed script (`LocalBuilder._runShell`),
  * every Build-Id the builder computes (`__getBuildIdSingle`, `__getCheckoutStepBuildId` incl. the
    "predicted" flag), fingerprints, wrong predictions (`__handleChangedBuildId`),
  * every call of `_downloadPackage` with the state it sees on entry and its outcome,
  * every transport call of the archive (`downloadPackage`, `uploadPackage`, live-build-id files),
  * the verification steps of a download (`hashWorkspace`, `Audit.fromFile`).

Usage:  python c07_child.py --server      (jobs as JSON lines on stdin, one JSON reply line each)
        python c07_child.py --unit        (unit jobs for `_downloadPackage` alone, see run_unit)

The server imports Bob once; every job runs in a forked child (own session).  This must be a real file with
a __main__ guard.  Bob's process pool is replaced by a synchronous executor (no forkserver needed, signal
handlers of the archive code keep working because everything runs in the main thread).

job = {"cwd": dir, "develop": bool, "argv": [...], "env": {k: v}, "out": file, "res": file, "timeout": s}
files:  <res> = {"rc": int|"harness-error", "error": str|None}
        <res>.log  = one JSON event per line
        <res>.dump = the package steps reachable from the targets
"""
import json
import os
import signal
import sys
import time


def hx(b):
    return None if b is None else (b.hex() if isinstance(b, (bytes, bytearray)) else {"other": repr(b)})


def canon_rh(x):
    import datetime
    if x is None:
        return None
    if isinstance(x, bytes):
        return x.hex()
    if isinstance(x, datetime.datetime):
        return {"forged": x.isoformat()}
    return {"other": repr(x)}


def canon_inputs(v):
    if v is None:
        return None
    if isinstance(v, list):
        return {"built": [canon_rh(x) for x in v]}
    if isinstance(v, bytes):
        return {"downloaded": v.hex()}
    if isinstance(v, tuple):
        return {"shared": [canon_rh(v[0]), str(v[1])]}
    return {"other": repr(v)}


def canon_dir(d):
    if d is None:
        return None
    if isinstance(d, bytes):
        return {"pkg": d.hex()}
    if isinstance(d, dict):
        return {"co": len(d)}
    if isinstance(d, list):
        return {"build": canon_rh(d[0]) if d else None}
    return {"other": repr(d)}


class SyncExecutor:
    """concurrent.futures.Executor that runs the work item at once in the calling thread"""

    def submit(self, fn, *a, **k):
        import concurrent.futures
        f = concurrent.futures.Future()
        try:
            f.set_result(fn(*a, **k))
        except BaseException as e:  # noqa
            f.set_exception(e)
        return f

    def shutdown(self, wait=True, **k):
        pass


def dump_steps(roots):
    out = {}

    def visit(s, depth):
        key = s.getWorkspacePath()
        kind = "checkout" if s.isCheckoutStep() else "build" if s.isBuildStep() else "package"
        if key in out:
            out[key]["depth"] = min(out[key]["depth"], depth)
            return key
        d = out[key] = {"kind": kind, "vid": s.getVariantId().hex(), "path": key, "depth": depth,
                        "name": s.getPackage().getName(), "stack": "/".join(s.getPackage().getStack())}
        deps = [x for x in s.getAllDepSteps() if x.isValid()]
        d["fingerprinted"] = bool(s._isFingerprinted())
        d["relocatable"] = bool(s.isRelocatable()) if kind == "package" else True
        d["det"] = bool(s.isDeterministic())
        data = s._StepIR__data
        tools = sorted(s.getTools().items())
        d["tools"] = [{"name": n, "step": t.getStep().getWorkspacePath(), "path": t.getPath(), "libs": list(t.getLibs()),
                       "weak": n in set(data.get("toolKeysWeak", []))} for n, t in tools]
        d["script"] = s.getDigestScript()
        d["env"] = sorted(data["digestEnv"].items())
        d["args"] = [a.getWorkspacePath() for a in s.getArguments() if a.isValid()]
        if kind == "checkout":
            d["hasLive"] = bool(s.hasLiveBuildId())
        d["pre"] = []
        if kind == "package":
            c = s.getPackage().getCheckoutStep()
            if c.isValid():
                d["pre"] = [visit(c, depth)]
        # _cookStep passes depth+1 to the dependencies of every step
        d["deps"] = [visit(x, depth + 1) for x in deps]
        return key

    rootKeys = [visit(s, 0) for s in roots if s.isValid()]
    from bob.utils import getPlatformTag
    return {"steps": out, "roots": rootKeys, "platform": getPlatformTag().hex()}


def install_hooks(tick, job, res):
    import bob.state as S
    import bob.builder as B
    import bob.utils as U
    import bob.archive as A
    cls = S._BobState

    def wrap(name, conv):
        orig = getattr(cls, name)

        def f(self, *a, **k):
            tick(conv(*a, **k))
            return orig(self, *a, **k)
        setattr(cls, name, f)

    wrap("resetWorkspaceState", lambda p, d: ["reset", p, canon_dir(d)])
    wrap("delInputHashes", lambda p: ["delInputs", p])
    wrap("setResultHash", lambda p, h: ["setResult", p, canon_rh(h)])
    wrap("setInputHashes", lambda p, h: ["setInputs", p, canon_inputs(h)])
    wrap("setVariantId", lambda p, v: ["setVid", p, canon_rh(v)])

    LB = B.LocalBuilder
    orig_run = LB._runShell

    async def runShell(self, step, scriptName, *a, **k):
        tick(["run", step.getWorkspacePath(), scriptName])
        return await orig_run(self, step, scriptName, *a, **k)
    LB._runShell = runShell

    orig_empty = B.emptyDirectory

    def emptyDirectory(p):
        tick(["emptyDir", p])
        return orig_empty(p)
    B.emptyDirectory = emptyDirectory

    orig_rm = B.removePath

    def removePath(p):
        if p.endswith("audit.json.gz"):
            tick(["rmAudit", os.path.normpath(os.path.join(os.path.dirname(p), "workspace"))])
        return orig_rm(p)
    B.removePath = removePath

    orig_hash = B.hashWorkspace

    def hashWorkspace(step):
        r = orig_hash(step)
        tick(["hash", step.getWorkspacePath(), hx(r)])
        return r
    B.hashWorkspace = hashWorkspace

    class AuditProxy:
        """`Audit` as seen by bob.builder: logs `fromFile` (the verification of a download)"""

        def __getattr__(self, n):
            return getattr(B_Audit, n)

        @staticmethod
        def fromFile(f):
            a = B_Audit.fromFile(f)
            try:
                rh = a.getArtifact().getResultHash()
                bid = a.getArtifact().getBuildId()
            except Exception:  # noqa
                rh = bid = None
            tick(["auditRead", os.path.normpath(os.path.join(os.path.dirname(f), "workspace")), hx(rh), hx(bid)])
            return a
    B_Audit = B.Audit
    B.Audit = AuditProxy()

    # ---- build-ids
    name = "_LocalBuilder__getBuildIdSingle"
    orig_single = getattr(LB, name)

    async def getBuildIdSingle(self, step, depth):
        r = await orig_single(self, step, depth)
        kind = "checkout" if step.isCheckoutStep() else "build" if step.isBuildStep() else "package"
        tick(["bid", step.getWorkspacePath(), kind, hx(r)])
        return r
    setattr(LB, name, getBuildIdSingle)

    name2 = "_LocalBuilder__getCheckoutStepBuildId"
    orig_co = getattr(LB, name2)

    async def getCheckoutStepBuildId(self, step, depth):
        r = await orig_co(self, step, depth)
        tick(["srcbid", step.getWorkspacePath(), hx(r[0]), bool(r[1])])
        return r
    setattr(LB, name2, getCheckoutStepBuildId)

    name3 = "_LocalBuilder__handleChangedBuildId"
    orig_chg = getattr(LB, name3)

    def handleChangedBuildId(self, step, checkoutHash):
        tick(["mispredict", step.getWorkspacePath(), hx(checkoutHash)])
        return orig_chg(self, step, checkoutHash)
    setattr(LB, name3, handleChangedBuildId)

    orig_fp = LB._getFingerprint

    async def getFingerprint(self, step, depth):
        r = await orig_fp(self, step, depth)
        if r:
            tick(["fp", step.getWorkspacePath(), hx(r)])
        return r
    LB._getFingerprint = getFingerprint

    # ---- download decision
    orig_dl = LB._downloadPackage

    async def downloadPackage(self, step, depth, bid):
        p = step.getWorkspacePath()
        st = S.BobState()
        layer = "/".join(step.getPackage().getRecipe().getLayer())
        pat = getattr(self, "_LocalBuilder__downloadPackages")
        tick(["dlEnter", p, {"depth": depth, "bid": hx(bid), "name": step.getPackage().getName(), "layer": layer,
                             "vid": step.getVariantId().hex(),
                             "inputs": canon_inputs(st.getInputHashes(p)), "result": canon_rh(st.getResultHash(p)),
                             "exists": os.path.isdir(p),
                             "cfg": {"depth": getattr(self, "_LocalBuilder__downloadDepth"),
                                     "depthForce": getattr(self, "_LocalBuilder__downloadDepthForce"),
                                     "pkgMatch": bool(pat and pat.search(step.getPackage().getName())),
                                     "force": bool(getattr(self, "_LocalBuilder__force")),
                                     "layerModes": len(getattr(self, "_LocalBuilder__downloadLayerModes"))}}])
        try:
            r = await orig_dl(self, step, depth, bid)
        except B.BuildError as e:
            tick(["dlExit", p, {"error": str(getattr(e, "slogan", e))}])
            raise
        tick(["dlExit", p, {"downloaded": bool(r[0])}])
        return r
    LB._downloadPackage = downloadPackage

    orig_restart = LB.cook
    state = {"dumped": False}

    def cook(self, steps, checkoutOnly, loop, depth=0):
        if not state["dumped"]:
            state["dumped"] = True
            try:
                with open(job["res"] + ".dump", "w") as f:
                    json.dump(dump_steps(steps), f)
            except Exception:  # noqa
                import traceback
                res["dump_error"] = traceback.format_exc()
        try:
            return orig_restart(self, steps, checkoutOnly, loop, depth)
        finally:
            st = self.getStatistic()
            res["stat"] = {"built": st.packagesBuilt, "downloaded": st.packagesDownloaded, "checkouts": st.checkouts}
    LB.cook = cook

    # ---- archive transport
    BA = A.BaseArchive
    o_dl = BA.downloadPackage

    async def a_download(self, step, buildId, audit, content, caches=[], executor=None):
        try:
            r = await o_dl(self, step, buildId, audit, content, caches, executor)
        except B.BuildError as e:
            tick(["download", step.getWorkspacePath(), hx(buildId), {"error": str(getattr(e, "slogan", e))}])
            raise
        tick(["download", step.getWorkspacePath(), hx(buildId), bool(r)])
        return r
    BA.downloadPackage = a_download

    o_ul = BA.uploadPackage

    async def a_upload(self, step, buildId, audit, content, executor=None):
        tick(["upload", step.getWorkspacePath(), hx(buildId), bool(audit), bool(self.canUpload())])
        return await o_ul(self, step, buildId, audit, content, executor)
    BA.uploadPackage = a_upload

    o_ull = BA.uploadLocalLiveBuildId

    async def a_uplive(self, step, liveBuildId, buildId, executor=None):
        if self.canUpload():
            tick(["upLive", step.getWorkspacePath(), hx(liveBuildId), hx(buildId)])
        return await o_ull(self, step, liveBuildId, buildId, executor)
    BA.uploadLocalLiveBuildId = a_uplive

    o_dll = BA.downloadLocalLiveBuildId

    async def a_dllive(self, step, liveBuildId, executor=None):
        r = await o_dll(self, step, liveBuildId, executor)
        tick(["dlLive", step.getWorkspacePath(), hx(liveBuildId), hx(r)])
        return r
    BA.downloadLocalLiveBuildId = a_dllive

    U.getProcessPoolExecutor = lambda: SyncExecutor()


def run_job(job):
    """runs in the forked child; never returns"""
    os.setsid()
    outf = os.open(job["out"], os.O_WRONLY | os.O_CREAT | os.O_TRUNC, 0o644)
    os.dup2(outf, 1)
    os.dup2(outf, 2)
    devnull = os.open(os.devnull, os.O_RDONLY)
    os.dup2(devnull, 0)
    sys.stdout = os.fdopen(1, "w", buffering=1, closefd=False)
    sys.stderr = os.fdopen(2, "w", buffering=1, closefd=False)
    res = {"rc": None, "error": None}
    logfd = os.open(job["res"] + ".log", os.O_WRONLY | os.O_CREAT | os.O_TRUNC | os.O_APPEND, 0o644)

    def save():
        tmp = job["res"] + ".tmp"
        with open(tmp, "w") as f:
            json.dump(res, f)
        os.replace(tmp, job["res"])

    def tick(entry):
        os.write(logfd, (json.dumps(entry) + "\n").encode())

    try:
        for k, v in (job.get("env") or {}).items():
            if v is None:
                os.environ.pop(k, None)
            else:
                os.environ[k] = v
        import bob.state as S
        from bob.cmds.build.build import doDevelop, doBuild
        install_hooks(tick, job, res)
        os.chdir(job["cwd"])
        rc = 0
        try:
            try:
                (doDevelop if job["develop"] else doBuild)(list(job["argv"]), job.get("bobroot", "/nonexistent/bob"))
            finally:
                S.finalize()
        except SystemExit as e:
            rc = e.code if isinstance(e.code, int) else 2
            res["error"] = "SystemExit"
        except Exception as e:  # BobError and everything else: what the `bob` front end turns into exit 1
            from bob.errors import BobError
            rc = 1 if isinstance(e, BobError) else 3
            res["error"] = "%s: %s" % (type(e).__name__, getattr(e, "slogan", e))
            if rc == 3:
                import traceback
                traceback.print_exc()
        res["rc"] = rc
        save()
    except BaseException:  # noqa
        import traceback
        res["rc"] = "harness-error"
        res["error"] = traceback.format_exc()
        save()
    sys.stdout.flush()
    os._exit(0)


# --------------------------------------------------------------------------- unit jobs: `_downloadPackage` alone

def run_unit(job):
    """Runs the real `LocalBuilder._downloadPackage` (and the public download mode setters) against a scripted
    archive and a real `BobState` in a scratch directory.  Returns the list of results, one per case.

    case = {"mode": str, "layerModes": [str], "layer": [str], "name": str, "canDownload": bool, "force": bool,
            "depth": int, "bid": hex, "vid": hex,
            "old": {"inputs": None|{"built":[..]}|{"downloaded":hex}|{"shared":[hex,path]}|{"legacy":..},
                    "result": None|hex|"forged", "exists": bool},
            "archive": "missing" | {"audit": bool, "content": str, "claim": "right"|"wrong"} | "error"}
    result = {"ops": [...], "ret": {"downloaded": b} | {"error": kind}, "state": {...}}
    """
    import asyncio
    import datetime
    import hashlib
    import shutil
    import bob.state as S
    import bob.builder as B
    from bob.errors import BuildError
    out = []
    root = job["root"]
    for idx, c in enumerate(job["cases"]):
        d = os.path.join(root, "u%d" % idx)
        os.makedirs(d)
        os.chdir(d)
        ops = []
        ws = "dev/dist/pkg/1/workspace"
        audit_file = os.path.normpath(os.path.join(ws, "..", "audit.json.gz"))

        def content_hash(text):
            return hashlib.sha1(("content:" + text).encode()).digest()

        def disk_text():
            try:
                with open(os.path.join(ws, "data")) as f:
                    return f.read()
            except OSError:
                return ""

        class FakeArchive(B.DummyArchive):
            def __init__(self):
                self.want = False

            def wantDownloadLocal(self, enable):
                self.want = enable

            def canDownload(self):
                return bool(c["canDownload"] and self.want)

            async def downloadPackage(self, step, buildId, audit, content, caches=[], executor=None):
                ops.append(["download", buildId.hex()])
                a = c["archive"]
                if a == "missing" or not self.canDownload():
                    return False
                shutil.rmtree(content, ignore_errors=True)
                if os.path.lexists(audit):
                    os.unlink(audit)
                os.makedirs(content)
                if a == "error":
                    # extraction fails half way: partial content stays
                    with open(os.path.join(content, "data"), "w") as f:
                        f.write("junk")
                    raise BuildError("Cannot download artifact: injected")
                with open(os.path.join(content, "data"), "w") as f:
                    f.write(a["content"])
                if a["audit"]:
                    claim = a["content"] if a["claim"] == "right" else a["content"] + "-other"
                    with open(audit, "w") as f:
                        f.write(content_hash(claim).hex())
                return True

        class FakeArtifact:
            def __init__(self, h):
                self.h = h

            def getResultHash(self):
                return self.h

        class FakeAudit:
            @staticmethod
            def fromFile(f):
                ops.append(["auditRead"])
                with open(f) as fd:
                    h = bytes.fromhex(fd.read())

                class A:
                    def getArtifact(self):
                        return FakeArtifact(h)
                return A()

        class FakeRecipe:
            def getLayer(self):
                return list(c["layer"])

        class FakePackage:
            def getRecipe(self):
                return FakeRecipe()

            def getName(self):
                return c["name"]

            def getStack(self):
                return [c["name"]]

        class FakeStep:
            JENKINS = False

            def getPackage(self):
                return FakePackage()

            def getWorkspacePath(self):
                return ws

            def getVariantId(self):
                return bytes.fromhex(c["vid"])

            def isPackageStep(self):
                return True

        saved = (B.hashWorkspace, B.Audit, B.emptyDirectory, B.removePath, B.stepMessage)
        B.hashWorkspace = lambda step: (ops.append(["hash"]), content_hash(disk_text()))[1]
        B.Audit = FakeAudit
        o_empty, o_rm = B.emptyDirectory, B.removePath
        B.emptyDirectory = lambda p: (ops.append(["emptyDir"]), o_empty(p))[1]
        B.removePath = lambda p: (ops.append(["rmAudit"]) if p.endswith("audit.json.gz") else None, o_rm(p))[1]
        B.stepMessage = lambda *a, **k: None
        cls = S._BobState
        names = {"resetWorkspaceState": lambda p, x: ["reset", canon_dir(x)], "setResultHash": lambda p, h: ["setResult", canon_rh(h)],
                 "setInputHashes": lambda p, h: ["setInputs", canon_inputs(h)], "setVariantId": lambda p, v: ["setVid", canon_rh(v)],
                 "delInputHashes": lambda p: ["delInputs"]}
        origs = {}
        try:
            st = S.BobState()
            old = c["old"]
            if old["exists"]:
                os.makedirs(ws)
                with open(os.path.join(ws, "data"), "w") as f:
                    f.write("old")
            i = old["inputs"]
            if i is not None:
                if "built" in i:
                    v = [bytes.fromhex(x) for x in i["built"]]
                elif "downloaded" in i:
                    v = bytes.fromhex(i["downloaded"])
                elif "shared" in i:
                    v = (bytes.fromhex(i["shared"][0]), i["shared"][1])
                else:
                    v = []
                st.setInputHashes(ws, v)
            if old["result"] == "forged":
                st.setResultHash(ws, datetime.datetime(2020, 1, 1))
            elif old["result"] is not None:
                st.setResultHash(ws, bytes.fromhex(old["result"]))
            for n, conv in names.items():
                origs[n] = getattr(cls, n)

                def mk(n, conv):
                    def f(self, *a, **k):
                        ops.append(conv(*a, **k))
                        return origs[n](self, *a, **k)
                    return f
                setattr(cls, n, mk(n, conv))
            lb = B.LocalBuilder(0, bool(c["force"]), False, False, False, set(), "/nonexistent", False, True)
            lb.setArchiveHandler(FakeArchive())
            try:
                lb.setLocalDownloadMode(c["mode"])
                lb.setLocalDownloadLayerMode(list(c["layerModes"]))
                loop = asyncio.new_event_loop()
                try:
                    r = loop.run_until_complete(lb._downloadPackage(FakeStep(), c["depth"], bytes.fromhex(c["bid"])))
                finally:
                    loop.close()
                ret = {"downloaded": bool(r[0])}
            except BuildError as e:
                s = str(getattr(e, "slogan", e))
                kind = ("no-audit" if "misses its audit" in s else "corrupt" if "Corrupt downloaded" in s
                        else "layer-forced" if "of layer" in s else "forced" if "Downloading artifact failed" in s
                        else "transport" if "injected" in s else "other:" + s)
                ret = {"error": kind}
            except (OSError, ValueError, KeyError, AttributeError) as e:
                # the implementation stumbled over the artifact in another way: still a rejection
                ret = {"error": "exception:" + type(e).__name__}
            for n in origs:
                setattr(cls, n, origs[n])
            origs = {}
            final = {"inputs": canon_inputs(st.getInputHashes(ws)), "result": canon_rh(st.getResultHash(ws)),
                     "vid": canon_rh(st.getVariantId(ws)), "dir": canon_dir(st.getDirectoryState(ws, False)),
                     "disk": disk_text() if os.path.isdir(ws) else None, "audit": os.path.exists(audit_file)}
            out.append({"ops": ops, "ret": ret, "state": final})
        except Exception:  # noqa
            import traceback
            out.append({"harness_error": traceback.format_exc()})
        finally:
            for n in origs:
                setattr(cls, n, origs[n])
            B.hashWorkspace, B.Audit, B.emptyDirectory, B.removePath, B.stepMessage = saved
            try:
                S.finalize()
            except Exception:  # noqa
                pass
            os.chdir(root)
            shutil.rmtree(d, ignore_errors=True)
    return out


def do_job(job):
    """fork, wait (with timeout), reap the whole session; returns the status dict"""
    for f in (job["res"], job["res"] + ".tmp", job["res"] + ".log", job["res"] + ".dump"):
        try:
            os.unlink(f)
        except FileNotFoundError:
            pass
    pid = os.fork()
    if pid == 0:
        try:
            run_job(job)
        finally:
            os._exit(70)
    deadline = time.time() + job.get("timeout", 120)
    status = None
    while True:
        p, st = os.waitpid(pid, os.WNOHANG)
        if p == pid:
            status = st
            break
        if time.time() > deadline:
            break
        time.sleep(0.005)
    try:
        os.killpg(pid, signal.SIGKILL)
    except (ProcessLookupError, PermissionError):
        pass
    if status is None:
        try:
            os.waitpid(pid, 0)
        except ChildProcessError:
            pass
        return {"wait": "timeout"}
    if os.WIFSIGNALED(status):
        return {"wait": "signal:%d" % os.WTERMSIG(status)}
    return {"wait": "exit:%d" % os.WEXITSTATUS(status)}


def main():
    if len(sys.argv) > 1 and sys.argv[1] == "--server":
        import bob.state  # noqa
        import bob.builder  # noqa
        import bob.cmds.build.build  # noqa
        import bob.input  # noqa
        import bob.scm  # noqa
        import bob.audit  # noqa
        import bob.invoker  # noqa
        import bob.archive  # noqa
        sys.stdout.write("ready\n")
        sys.stdout.flush()
        for line in sys.stdin:
            line = line.strip()
            if not line:
                continue
            job = json.loads(line)
            st = do_job(job)
            sys.stdout.write(json.dumps(st) + "\n")
            sys.stdout.flush()
    elif len(sys.argv) > 1 and sys.argv[1] == "--unit":
        job = json.load(sys.stdin)
        sys.stdout.write(json.dumps(run_unit(job)))
        sys.stdout.flush()
    else:
        job = json.load(open(sys.argv[1]))
        print(json.dumps(do_job(job)))


if __name__ == "__main__":
    main()
