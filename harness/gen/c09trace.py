"""C09 infrastructure: run the real archive code of Bob in forked child processes under strace.

* `Child`   one forked process that executes one real entry point (BaseArchive._uploadPackage,
            _uploadLocalFile, _downloadPackage with/without a cache archive).  strace is attached to the
            stopped child, so the injection counters (`when=k`) start at the entry point, not at the
            interpreter start-up.
* faults    `-e inject=SYSCALL:error=EIO:when=k`, `:signal=SIGKILL:when=k`
* stepping  `-e inject=SET:signal=SIGSTOP:when=1+` stops the child after EVERY system call of SET; the
            harness continues one child at a time: real processes under a schedule chosen by the harness.
* `parse_log` / `normalise`  reduce the system call log to the protocol alphabet of Model/ArchiveFS.lean
            (names below the archive directory, op kind, result); interpreter noise is dropped.
Nothing here knows the Lean model; the oracle uses it as well.
"""
import gzip
import hashlib
import io
import json
import os
import re
import signal
import subprocess
import sys
import tarfile
import time

TRACE_SET = "trace=%file,%desc"
# every system call that can be a protocol operation (stop points for schedule control)
STOP_SET = ["newfstatat", "mkdir", "openat", "write", "close", "chmod", "link", "unlink", "rename", "read",
            "fchmodat", "linkat", "unlinkat", "renameat", "renameat2", "stat", "lstat", "open", "mkdirat", "fchmod"]
BEGIN, END, EXIT_MARK = "/c09-begin", "/c09-end", "/c09-exit-enter"


class TraceUnavailable(Exception):
    pass


_PROBE = None


def available_syscalls():
    """the subset of STOP_SET this strace/architecture knows (probed once)"""
    global _PROBE
    if _PROBE is None:
        ok = []
        for s in STOP_SET:
            p = subprocess.run(["strace", "-e", "trace=" + s, "-o", "/dev/null", "true"], stdout=subprocess.DEVNULL,
                               stderr=subprocess.PIPE)
            if p.returncode == 0 and b"invalid" not in p.stderr:
                ok.append(s)
        _PROBE = ok
    return _PROBE


def strace_works():
    try:
        p = subprocess.run(["strace", "-o", "/dev/null", "-e", "trace=write", "-e", "inject=write:error=EIO:when=99",
                            "true"], stdout=subprocess.DEVNULL, stderr=subprocess.DEVNULL, timeout=20)
        return p.returncode == 0
    except Exception:
        return False


# ------------------------------------------------------------------------------------------- actions

def bid_of(tag):
    return hashlib.sha1(("bid-" + tag).encode()).digest()


def make_content(path, data, extra=()):
    os.makedirs(path, exist_ok=True)
    with open(os.path.join(path, "data"), "wb") as f:
        f.write(data)
    for name, d in extra:
        with open(os.path.join(path, name), "wb") as f:
            f.write(d)


def make_audit(path):
    with gzip.GzipFile(path, "wb", mtime=0) as f:
        f.write(b'{"artifact": {}}')


def _mk_archive(spec):
    from bob.archive import LocalArchive
    a = LocalArchive(spec)
    a.wantDownloadLocal(True)
    a.wantUploadLocal(True)
    return a


def _install_exit_marker():
    """emit a marker system call when LocalArchiveUploader.__exit__ is entered (observation only: the
    split between writes of the with-body and writes of tmp.close() becomes visible in the log)"""
    from bob.archive import LocalArchiveUploader
    code = LocalArchiveUploader.__exit__.__code__

    def prof(frame, event, arg):
        if event == "call" and frame.f_code is code:
            try:
                os.access(EXIT_MARK, 0)
            except OSError:
                pass
    sys.setprofile(prof)


def perform(action):
    """execute one real entry point; returns a small result record (runs in the child)"""
    from bob.errors import BuildError, BobError
    kind = action["kind"]
    if action.get("tmpdir"):
        import tempfile
        tempfile.tempdir = action["tmpdir"]      # default directory of temporary files: another file system
    try:
        if kind == "package":
            a = _mk_archive(action["spec"])
            r = a._uploadPackage(bytes.fromhex(action["bid"]), ".tgz", action["audit"], action["content"])
            # ("ok", EXECUTED) | ("skipped (...)", SKIPPED) | ("error (...)", ERROR)
            msg = r[0]
            res = "ok" if msg == "ok" else "skipped" if "skipped" in msg else "fail"
            return {"res": res, "msg": msg}
        if kind in ("buildid", "fprnt"):
            a = _mk_archive(action["spec"])
            r = a._uploadLocalFile(bytes.fromhex(action["bid"]), "." + kind, bytes.fromhex(action["data"]))
            return {"res": "ok" if r[0] == "ok" else "fail", "msg": r[0]}
        if kind == "mirror":
            src = _mk_archive(action["src"])
            caches = [_mk_archive(c) for c in action["caches"]]
            r = src._downloadPackage(bytes.fromhex(action["bid"]), ".tgz", action["audit_out"], action["out"], caches,
                                     action["out"])
            return {"res": "ok" if r[0] else "fail", "msg": r[1]}
        if kind == "reader":
            a = _mk_archive(action["spec"])
            r = a._downloadPackage(bytes.fromhex(action["bid"]), ".tgz", action["audit_out"], action["out"], [],
                                   action["out"])
            if r[0]:
                return {"res": "ok", "msg": None}
            return {"res": "notFound" if "not found" in (r[1] or "") else "fail", "msg": r[1]}
        raise AssertionError(kind)
    except (BuildError, BobError) as e:
        return {"res": "fail", "msg": "BuildError: " + str(e.slogan)}
    except OSError as e:
        return {"res": "internal", "msg": "uncaught OSError: %s" % e}
    except BaseException as e:  # noqa
        return {"res": "internal", "msg": "%s: %s" % (type(e).__name__, e)}


def _die_with_parent():
    """PR_SET_PDEATHSIG: a traced child never outlives the harness process that forked it"""
    try:
        import ctypes
        ctypes.CDLL(None, use_errno=True).prctl(1, int(signal.SIGKILL), 0, 0, 0)
    except Exception:
        pass


class Child:
    """one forked process running `action` with strace attached"""

    def __init__(self, action, workdir, tag, inject=(), marker=True):
        self.action = action
        self.log = os.path.join(workdir, "trace-%s.log" % tag)
        self.resfile = os.path.join(workdir, "res-%s.json" % tag)
        self.exited = False
        self.status = None
        self.offset = 0
        self.partial = ""
        for f in (self.log, self.resfile):
            if os.path.exists(f):
                os.unlink(f)
        pid = os.fork()
        if pid == 0:
            try:
                _die_with_parent()
                signal.signal(signal.SIGINT, signal.SIG_DFL)
                if marker:
                    _install_exit_marker()
                os.kill(os.getpid(), signal.SIGSTOP)
                try:
                    os.access(BEGIN, 0)
                except OSError:
                    pass
                r = perform(action)
                sys.setprofile(None)
                try:
                    os.access(END, 0)
                except OSError:
                    pass
                with open(self.resfile, "w") as f:
                    json.dump(r, f)
            finally:
                os._exit(0)
        self.pid = pid
        self.strace = None
        try:
            self._wait_stopped(90)
            args = ["strace", "-p", str(pid), "-o", self.log, "-y", "-s", "0", "-e", TRACE_SET]
            for i in inject:
                args += ["-e", "inject=" + i]
            self.strace = subprocess.Popen(args, stderr=subprocess.PIPE, stdout=subprocess.DEVNULL,
                                           stdin=subprocess.DEVNULL)
            line = self.strace.stderr.readline()
            if b"attached" not in line:
                rest = line + self.strace.stderr.read()
                raise TraceUnavailable("strace attach failed: " + rest.decode("utf-8", "replace")[:300])
        except BaseException:
            self.kill()
            if self.strace is not None:
                try:
                    self.strace.kill()
                    self.strace.wait()
                except Exception:
                    pass
            raise

    def _wait_stopped(self, timeout):
        """block until the child stops (True) or terminates (False)"""
        def on_alarm(signum, frame):
            raise TraceUnavailable("child did not stop/exit in time")
        old = signal.signal(signal.SIGALRM, on_alarm)
        signal.setitimer(signal.ITIMER_REAL, max(0.5, timeout))
        try:
            p, st = os.waitpid(self.pid, os.WUNTRACED)
        finally:
            signal.setitimer(signal.ITIMER_REAL, 0)
            signal.signal(signal.SIGALRM, old)
        if os.WIFSTOPPED(st):
            return True
        self.exited = True
        self.status = st
        return False

    def cont(self, timeout=30):
        """continue the stopped child until its next stop (True) or its exit (False)"""
        if self.exited:
            return False
        os.kill(self.pid, signal.SIGCONT)
        return self._wait_stopped(timeout)

    def run_to_end(self, timeout=60):
        t0 = time.time()
        while self.cont(max(1, timeout - (time.time() - t0))):
            pass

    def kill(self):
        if not self.exited:
            try:
                os.kill(self.pid, signal.SIGKILL)
            except ProcessLookupError:
                pass
            try:
                _, self.status = os.waitpid(self.pid, 0)
            except ChildProcessError:
                pass
            self.exited = True

    def finish(self):
        """reap strace, return (result record or None, 'exit'|'killed')"""
        if self.strace is None:
            return None, "exit"
        try:
            self.strace.wait(timeout=20)
        except subprocess.TimeoutExpired:
            self.strace.kill()
            self.strace.wait()
        try:
            self.strace.stderr.close()
        except Exception:
            pass
        res = None
        if os.path.exists(self.resfile):
            try:
                res = json.load(open(self.resfile))
            except ValueError:
                res = None
        how = "killed" if (self.status is not None and os.WIFSIGNALED(self.status)) else "exit"
        return res, how

    def new_lines(self):
        """log lines written since the last call (complete lines only)"""
        try:
            with open(self.log, "r", errors="replace") as f:
                f.seek(self.offset)
                data = f.read()
                self.offset = f.tell()
        except FileNotFoundError:
            return []
        data = self.partial + data
        lines = data.split("\n")
        self.partial = lines.pop()
        return lines


# ------------------------------------------------------------------------------------------- log parsing

_LINE = re.compile(r"^(\w+)\((.*)\)\s+= (-?\d+|\?)(?:<[^>]*>)?(?: (E\w+) \([^)]*\))?( \(INJECTED\))?\s*$")
_PATH = re.compile(r'"((?:[^"\\]|\\.)*)"')
_FD = re.compile(r"^(\d+)<([^>]*)>")


def parse_line(line):
    """-> dict(sys, args, ret, errno, injected, paths, fdpath) or a marker dict, or None"""
    if line.startswith("+++ killed by"):
        return {"sys": "+killed"}
    if line.startswith("+++ exited"):
        return {"sys": "+exited"}
    if line.startswith("---"):
        return None
    m = _LINE.match(line)
    if not m:
        if line.endswith("<unfinished ...>") or "= ?" in line:
            # the call during which the process was killed
            n = line.split("(", 1)[0]
            return {"sys": n, "args": line, "ret": None, "errno": None, "injected": False, "paths": _PATH.findall(line),
                    "fdpath": None, "unfinished": True}
        return None
    name, args, ret, errno, inj = m.groups()
    fd = _FD.match(args)
    return {"sys": name, "args": args, "ret": None if ret == "?" else int(ret), "errno": errno, "injected": bool(inj),
            "paths": _PATH.findall(args), "fdpath": fd.group(2) if fd else None}


def parse_log(lines):
    out = []
    for l in lines:
        r = parse_line(l)
        if r is not None:
            r["raw"] = l
            out.append(r)
    return out


class Normaliser:
    """maps parsed system calls of ONE process to protocol events.

    dest    path of the destination name of this process (artifact or metadata file)
    srcfile path of the upstream artifact (mirror) or None
    An event is a dict {op, res, ...}; `None` for noise.  The normaliser is stateful (knows the temporary
    name and descriptor of the process)."""

    def __init__(self, root, dest, srcfile=None, is_reader=False):
        self.root = root.rstrip("/")
        self.dest = dest
        self.destdir = os.path.dirname(dest)
        self.srcfile = srcfile
        self.is_reader = is_reader
        self.tmp = None           # path of the temporary file
        self.foreign_tmp = None
        self.nwrites = 0
        self.in_exit = False
        self.writes_before_exit = None
        self.write_failed = False
        self.exit_failing = False
        self.active = False
        self.done = False
        self.dir_seen = False
        self.read_bytes = 0
        self.relevant_index = []

    def _isdir_level(self, p):
        p = p.rstrip("/")
        return p == self.root or (self.destdir + "/").startswith(p + "/") and p.startswith(self.root)

    def feed(self, c):
        """-> (event or None, relevant: bool).  relevant = the call touches the archive / upstream file"""
        ev, rel = self._feed(c)
        if ev is None and not rel and self.active and c.get("injected") and c.get("errno"):
            # an injected error on a call outside the archive (workspace read/write ...): the with-body raises
            self.write_failed = True
            return ({"op": "bodyFail", "res": "inj", "sys": c["sys"]}, False)
        return ev, rel

    def summary(self):
        return {"marker": self.writes_before_exit is not None, "writes_before_exit": self.writes_before_exit,
                "exit_failing": self.exit_failing, "nwrites": self.nwrites, "read_bytes": self.read_bytes}

    def _feed(self, c):
        s = c["sys"]
        if s in ("+killed", "+exited"):
            return ({"op": s[1:]}, False)
        if c.get("ret") is None:
            return (None, False)      # the call during which the process was killed did not take effect
        paths = c.get("paths") or []
        if s in ("access", "faccessat", "faccessat2") and paths:
            if paths[-1] == BEGIN:
                self.active = True
            elif paths[-1] == END:
                self.active = False
                self.done = True
            elif paths[-1] == EXIT_MARK and self.active:
                if not self.in_exit:
                    self.in_exit = True
                    self.writes_before_exit = self.nwrites
                    self.exit_failing = self.write_failed
            return (None, False)
        if not self.active:
            return (None, False)
        err = c.get("errno")
        inj = c.get("injected")
        res = "ok" if err is None else ("inj" if inj else err.lower())
        fdp = c.get("fdpath")
        if fdp is not None and fdp.endswith(" (deleted)"):
            fdp = fdp[:-10]
        # ---- path calls
        if s in ("newfstatat", "stat", "lstat", "statx") and paths and fdp is None:
            p = paths[0]
            if p == self.dest:
                return ({"op": "statDest", "res": "present" if err is None else ("inj" if inj else "absent")}, True)
            if self._isdir_level(p):
                ev = None
                if not self.dir_seen and p.rstrip("/") == self.destdir:
                    self.dir_seen = True
                    ev = {"op": "ensureDir", "res": "ok"}
                return (ev, True)
            return (None, False)
        if s in ("mkdir", "mkdirat") and paths:
            if self._isdir_level(paths[0]):
                if inj:
                    return ({"op": "mkdirFail"}, True)
                return (None, True)
            return (None, False)
        if s in ("openat", "open", "creat") and paths:
            p = paths[0]
            if "O_CREAT" in c["args"] and "O_EXCL" in c["args"] and os.path.dirname(p) == self.destdir:
                if err is None:
                    self.tmp = p
                return ({"op": "create", "res": res, "tmp": os.path.basename(p)}, True)
            if "O_CREAT" in c["args"] and "O_EXCL" in c["args"] and os.path.basename(p).startswith("tmp") \
                    and "/c09w-" not in p:
                # a temporary file outside the destination directory (not a workspace file)
                if err is None:
                    self.foreign_tmp = p
                return ({"op": "createElsewhere", "res": res, "dir": os.path.dirname(p)}, True)
            if p == self.srcfile:
                return ({"op": "mOpen", "res": res}, True)
            if p == self.dest and self.is_reader:
                return ({"op": "rOpen", "res": "ok" if err is None else ("inj" if inj else "notFound" if err == "ENOENT" else err.lower())}, True)
            if p.startswith(self.root + "/") or p == self.dest:
                return ({"op": "openOther", "res": res, "path": p[len(self.root):], "flags": c["args"].split(", ")[-2:]}, True)
            return (None, False)
        if s in ("chmod", "fchmodat") and paths:
            if paths[0] == self.tmp:
                return ({"op": "chmod", "res": res}, True)
            if paths[0].startswith(self.root + "/"):
                return ({"op": "chmodOther", "res": res, "path": paths[0][len(self.root):]}, True)
            return (None, False)
        if s in ("link", "linkat") and len(paths) >= 2:
            a, b = paths[0], paths[-1]
            if b == self.dest or a.startswith(self.root + "/") or b.startswith(self.root + "/"):
                r = "ok" if err is None else ("inj" if inj else "eexist" if err == "EEXIST" else err.lower())
                return ({"op": "link", "res": r, "src_is_tmp": a == self.tmp, "dst_is_dest": b == self.dest}, True)
            return (None, False)
        if s in ("rename", "renameat", "renameat2") and len(paths) >= 2:
            a, b = paths[0], paths[-1]
            if b == self.dest or a.startswith(self.root + "/") or b.startswith(self.root + "/"):
                return ({"op": "replace", "res": res, "src_is_tmp": a == self.tmp, "dst_is_dest": b == self.dest}, True)
            return (None, False)
        if s in ("unlink", "unlinkat") and paths:
            p = paths[0]
            if p == self.tmp:
                return ({"op": "unlink", "res": res}, True)
            if p.startswith(self.root + "/") or p == self.foreign_tmp:
                return ({"op": "unlinkOther", "res": res, "is_dest": p == self.dest}, True)
            return (None, False)
        # ---- descriptor calls
        if fdp is not None:
            if self.tmp is not None and fdp == self.tmp or (self.foreign_tmp is not None and fdp == self.foreign_tmp):
                if s in ("write", "pwrite64", "writev"):
                    if err is None:
                        if self.write_failed:
                            return (None, True)      # retry of buffered data on the failure edge: part of close
                        self.nwrites += 1
                        return ({"op": "write", "res": "ok", "k": self.nwrites - 1, "size": c["ret"],
                                 "in_exit": self.in_exit}, True)
                    self.write_failed = True
                    return ({"op": "write", "res": res, "in_exit": self.in_exit}, True)
                if s == "close":
                    return ({"op": "close", "res": res}, True)
                if s in ("ftruncate", "fsync", "fdatasync", "fchmod"):
                    return ({"op": s, "res": res}, True)
                return (None, True)      # fstat/lseek/ioctl/fcntl on the temporary file
            if fdp == self.srcfile:
                if s == "read":
                    if err is not None:
                        self.write_failed = True     # exception pending: what follows is the failure edge
                    return ({"op": "fetch", "res": res, "size": c["ret"] if err is None else 0,
                             "after_writes": self.nwrites}, True)
                if s == "close":
                    return ({"op": "srcClose", "res": res}, True)
                return (None, True)
            if fdp == self.dest and self.is_reader:
                if s == "read":
                    if err is None:
                        self.read_bytes += c["ret"]
                    return ({"op": "rRead", "res": res, "size": c["ret"] if err is None else 0}, True)
                if s == "close":
                    return ({"op": "rClose", "res": res}, True)
                return (None, True)
            if fdp.startswith(self.root + "/") and s in ("write", "pwrite64", "writev", "ftruncate"):
                return ({"op": "writeOther", "res": res, "path": fdp[len(self.root):]}, True)
        return (None, False)


def normalise(calls, norm):
    """-> (events, index) where index[i] = position in `calls` of the i-th relevant call"""
    events, rel = [], []
    for i, c in enumerate(calls):
        ev, relevant = norm.feed(c)
        if relevant:
            rel.append(i)
        if ev is not None:
            ev["at"] = i
            events.append(ev)
    return events, rel


def ordinal(calls, i):
    """(syscall name, k): calls[i] is the k-th invocation of that system call since attach"""
    s = calls[i]["sys"]
    return s, sum(1 for c in calls[:i + 1] if c["sys"] == s)


# ------------------------------------------------------------------------------------------- artifact validation

def read_artifact(path):
    try:
        fd = os.open(path, os.O_RDONLY)
    except FileNotFoundError:
        return None
    try:
        st = os.fstat(fd)
        chunks = []
        while True:
            b = os.read(fd, 1 << 16)
            if not b:
                break
            chunks.append(b)
        return st, b"".join(chunks)
    finally:
        os.close(fd)


def validate_tgz(data, payloads):
    """complete, valid artifact equal to exactly one payload?  -> (index or None, reason)"""
    try:
        raw = gzip.decompress(data)
    except Exception as e:  # noqa
        return None, "not a complete gzip stream: %s: %s" % (type(e).__name__, e)
    try:
        tf = tarfile.open(fileobj=io.BytesIO(raw), mode="r:")
        got = {}
        names = []
        for m in tf:
            names.append(m.name)
            if m.isfile():
                got[m.name] = tf.extractfile(m).read()
        if tf.pax_headers.get("bob-archive-vsn") != "1":
            return None, "pax header bob-archive-vsn missing"
    except Exception as e:  # noqa
        return None, "not a valid tar: %s: %s" % (type(e).__name__, e)
    if "meta/audit.json.gz" not in got:
        return None, "audit trail missing, members %r" % names[:6]
    hits = []
    for i, p in enumerate(payloads):
        files = {"content/" + k: v for k, v in p.items()}
        if {k: v for k, v in got.items() if k.startswith("content/")} == files:
            hits.append(i)
    if len(hits) != 1:
        return None, "content equals %d of the uploaded payloads (members %r)" % (len(hits), names[:6])
    return hits[0], "ok"
