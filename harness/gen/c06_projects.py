"""Generated Bob projects for C06: dependency DAGs with packages reached on several paths, shared
checkouts, tools used by build and checkout steps (checkout tools are cooked completely even in
checkout-only mode), build variants of one package that share its checkout workspace, packages without checkout / build script (invalid steps) and several roots.

`gen_spec(rng, n)` draws a project description, `write_project(spec, dir, real=...)` writes the recipes.
With real=True the scripts are real bash: they append start/end events to <project>/events.log, sleep for
the drawn duration, and write a result that is a function of their name and of their inputs' results.
"""
import os


def gen_spec(r, n=None, roots=None):
    n = n or r.randrange(2, 9)
    pk = []
    for i in range(n):
        later = list(range(i + 1, n))
        k = min(len(later), r.choice([0, 1, 1, 2, 2, 3, 4]))
        deps = sorted(r.sample(later, k)) if k else []
        pk.append({
            "name": "p%d" % i,
            "deps": deps,
            "env": {},               # dependency index -> value of V handed to that dependency
            "checkout": r.random() < 0.55,
            "build": r.random() < 0.85,
            "package": True,
            "tool": False,           # provides a tool
            "variant": False,        # build step consumes $V: one checkout shared by several build variants
            "buildTools": [],
            "checkoutTools": [],
            "dur": [r.choice([0.0, 0.02, 0.05, 0.1]) for _ in range(3)],
        })
    # tools: a package late in the order provides a tool, earlier ones may use it
    for i in range(n):
        if i > 0 and r.random() < 0.3:
            pk[i]["tool"] = True
    for i in range(n):
        for j in range(i + 1, n):
            if pk[j]["tool"] and r.random() < 0.4:
                if r.random() < 0.6:
                    pk[i]["buildTools"].append(j)
                else:
                    pk[i]["checkoutTools"].append(j)
                    pk[i]["checkout"] = True
    # variants: a package (with checkout and build script, no tool) that is built once per value of V
    for i in range(1, n):
        if pk[i]["checkout"] and pk[i]["build"] and not pk[i]["tool"] and r.random() < 0.35:
            pk[i]["variant"] = True
    for i in range(n):
        for j in pk[i]["deps"]:
            if pk[j]["variant"]:
                pk[i]["env"][str(j)] = r.choice(["a", "b"])
    nroots = roots or r.choice([1, 1, 2, 3])
    rootset = sorted(set([0] + [r.randrange(n) for _ in range(nroots - 1)]))
    return {"packages": pk, "roots": rootset}


def _script(real, what, pkg, dur, fail, depth, variant=False):
    if not real:
        return "true # %s %s%s" % (pkg, what, " $V" if variant else "")
    up = "/".join([".."] * depth)
    tag = "%s %s" % (pkg, what)
    lines = [
        'L="$PWD/%s/events.log"' % up,
        'echo "start %s $PWD" >> "$L"' % tag,
        "sleep %s" % dur,
    ]
    if fail:
        lines += ['echo "end %s $PWD fail" >> "$L"' % tag, "exit 1"]
    else:
        lines += [
            'OUT="%s-%s%s("' % (pkg, what, "-${V:-}" if variant else ""),   # V is unset when the package is built as a root
            'for i in "$@" ; do if [ -f "$i/result.txt" ] ; then OUT="$OUT$(cat "$i/result.txt"),"; else OUT="$OUT?,"; fi; done',
            'echo "$OUT)" > result.txt',
            'echo "end %s $PWD ok" >> "$L"' % tag,
        ]
    return "\n".join(lines)


def write_project(spec, d, real=False, fail=()):
    """fail: set of (package name, step kind) whose script exits 1 (real mode only)"""
    os.makedirs(os.path.join(d, "recipes"), exist_ok=True)
    with open(os.path.join(d, "config.yaml"), "w") as f:
        f.write('bobMinimumVersion: "0.25"\n')
    pk = spec["packages"]
    for i, p in enumerate(pk):
        out = []
        if i in spec["roots"]:
            out.append("root: True")
        deps = []
        tools = sorted(set(p["buildTools"] + p["checkoutTools"]))
        for j in sorted(set(p["deps"]) | set(tools)):
            entry = "  - name: %s" % pk[j]["name"]
            use = []
            if j in tools:
                use.append("tools")
            if j in p["deps"]:
                use.append("result")
            entry += "\n    use: [%s]" % ", ".join(use)
            v = p.get("env", {}).get(str(j))
            if v is not None:
                entry += "\n    environment: {V: \"%s\"}" % v
            deps.append(entry)
        if deps:
            out.append("depends:\n" + "\n".join(deps))
        if p["buildTools"]:
            out.append("buildTools: [%s]" % ", ".join("t%d" % j for j in p["buildTools"]))
        if p["checkoutTools"]:
            out.append("checkoutTools: [%s]" % ", ".join("t%d" % j for j in p["checkoutTools"]))
        if p["tool"]:
            out.append("provideTools:\n  t%d: \".\"" % i)
        if p.get("variant"):
            out.append("buildVars: [V]")

        def scr(what, k, depth=5):
            body = _script(real, what, p["name"], p["dur"][k], (p["name"], what) in fail, depth,
                           variant=(p.get("variant") and what == "build"))
            return "%sScript: |\n%s" % (what, "\n".join("  " + l for l in body.split("\n")))
        if p["checkout"]:
            out.append("checkoutDeterministic: True")
            out.append(scr("checkout", 0))
        if p["build"]:
            out.append(scr("build", 1))
        if p["package"]:
            out.append(scr("package", 2))
        with open(os.path.join(d, "recipes", p["name"] + ".yaml"), "w") as f:
            f.write("\n".join(out) + "\n")
    return [pk[i]["name"] for i in spec["roots"]]


def write_sandbox_project(d):
    """root -> a (x inside the sandbox `sb`) and b (x without sandbox): the steps of x exist twice with the same
    workspace and variant id but different sandboxes, i.e. two cook tasks per workspace"""
    os.makedirs(os.path.join(d, "recipes"), exist_ok=True)
    with open(os.path.join(d, "config.yaml"), "w") as f:
        f.write('bobMinimumVersion: "0.25"\n')
    rec = {
        "sb": 'buildScript: "true # sb build"\npackageScript: "true # sb package"\nprovideSandbox:\n    paths: ["/bin", "/usr/bin"]\n',
        "x": 'checkoutDeterministic: True\ncheckoutScript: "true # x checkout"\nbuildScript: "true # x build"\npackageScript: "true # x package"\n',
        "a": 'depends:\n  - name: sb\n    use: [sandbox]\n    forward: True\n  - x\nbuildScript: "true # a build"\npackageScript: "true # a package"\n',
        "b": 'depends: [x]\nbuildScript: "true # b build"\npackageScript: "true # b package"\n',
        "root": 'root: True\ndepends: [a, b]\nbuildScript: "true # root build"\npackageScript: "true # root package"\n',
    }
    for k, v in rec.items():
        with open(os.path.join(d, "recipes", k + ".yaml"), "w") as f:
            f.write(v)
    return ["root"]
