"""Generated Bob projects for C06: dependency DAGs with packages reached on several paths, shared
checkouts, tools used by build and checkout steps (checkout tools are cooked completely even in
checkout-only mode), packages without checkout / build script (invalid steps) and several roots.

`gen_spec(rng, n)` draws a project description, `write_project(spec, dir, real=...)` writes the recipes.
With real=True the scripts are real bash: they append start/end events to <project>/events.log, sleep for
the drawn duration, and write a result that is a function of their name and of their inputs' results.
"""
import os


def gen_spec(r, n=None, roots=None):
    n = n or r.randrange(2, 9)
    pk = []
    for i in range(n):
        later = list(range(i + 1, n))
        k = min(len(later), r.choice([0, 1, 1, 2, 2, 3]))
        deps = sorted(r.sample(later, k)) if k else []
        pk.append({
            "name": "p%d" % i,
            "deps": deps,
            "checkout": r.random() < 0.55,
            "build": r.random() < 0.85,
            "package": True,
            "tool": False,           # provides a tool
            "buildTools": [],
            "checkoutTools": [],
            "dur": [r.choice([0.0, 0.02, 0.05, 0.1]) for _ in range(3)],
        })
    # tools: a package late in the order provides a tool, earlier ones may use it
    for i in range(n):
        if i > 0 and r.random() < 0.3:
            pk[i]["tool"] = True
    for i in range(n):
        for j in range(i + 1, n):
            if pk[j]["tool"] and r.random() < 0.4:
                # the tool has to be a dependency to be usable
                if r.random() < 0.6:
                    pk[i]["buildTools"].append(j)
                else:
                    pk[i]["checkoutTools"].append(j)
                    pk[i]["checkout"] = True
    nroots = roots or r.choice([1, 1, 2, 3])
    rootset = sorted(set([0] + [r.randrange(n) for _ in range(nroots - 1)]))
    # a shared checkout: two packages with an identical checkout script (same variant id -> same workspace)
    shared = None
    cands = [i for i in range(n) if pk[i]["checkout"] and not pk[i]["checkoutTools"]]
    if len(cands) >= 2 and r.random() < 0.5:
        shared = sorted(r.sample(cands, 2))
    return {"packages": pk, "roots": rootset, "shared_checkout": shared}


def _script(real, what, pkg, dur, fail, depth):
    if not real:
        return "true"
    up = "/".join([".."] * depth)
    lines = [
        'L="$PWD/%s/events.log"' % up,
        'echo "start %s %s $PWD" >> "$L"' % (pkg, what),
        "sleep %s" % dur,
    ]
    if fail:
        lines += ['echo "end %s %s fail" >> "$L"' % (pkg, what), "exit 1"]
    else:
        lines += [
            'OUT="%s-%s("' % (pkg, what),
            'for i in "$@" ; do if [ -f "$i/result.txt" ] ; then OUT="$OUT$(cat "$i/result.txt"),"; else OUT="$OUT?,"; fi; done',
            'echo "$OUT)" > result.txt',
            'echo "end %s %s ok" >> "$L"' % (pkg, what),
        ]
    return "\n".join(lines)


def write_project(spec, d, real=False, fail=()):
    """fail: set of (package name, step kind) whose script exits 1 (real mode only)"""
    os.makedirs(os.path.join(d, "recipes"), exist_ok=True)
    with open(os.path.join(d, "config.yaml"), "w") as f:
        f.write('bobMinimumVersion: "0.25"\n')
    pk = spec["packages"]
    shared = spec.get("shared_checkout") or []
    for i, p in enumerate(pk):
        out = []
        if i in spec["roots"]:
            out.append("root: True")
        deps = []
        for j in p["deps"]:
            deps.append("  - %s" % pk[j]["name"])
        for j in sorted(set(p["buildTools"] + p["checkoutTools"])):
            if j not in p["deps"]:
                deps.append("  - name: %s\n    use: [tools]" % pk[j]["name"])
            else:
                deps.remove("  - %s" % pk[j]["name"])
                deps.append("  - name: %s\n    use: [tools, result]" % pk[j]["name"])
        if deps:
            out.append("depends:\n" + "\n".join(deps))
        if p["buildTools"]:
            out.append("buildTools: [%s]" % ", ".join("t%d" % j for j in p["buildTools"]))
        if p["checkoutTools"]:
            out.append("checkoutTools: [%s]" % ", ".join("t%d" % j for j in p["checkoutTools"]))
        if p["tool"]:
            out.append("provideTools:\n  t%d: \".\"" % i)

        def scr(what, k, depth=5):
            name = p["name"]
            if what == "checkout" and i in shared:
                name = "shared%d" % shared[0]
            body = _script(real, what, name, p["dur"][k], (p["name"], what) in fail, depth)
            return "%sScript: |\n%s" % (what, "\n".join("  " + l for l in body.split("\n")))
        if p["checkout"]:
            out.append("checkoutDeterministic: True")
            out.append(scr("checkout", 0))
        if p["build"]:
            out.append(scr("build", 1))
        if p["package"]:
            out.append(scr("package", 2))
        with open(os.path.join(d, "recipes", p["name"] + ".yaml"), "w") as f:
            f.write("\n".join(out) + "\n")
    return [pk[i]["name"] for i in spec["roots"]]
