"""Child process of the C20 check: runs the REAL Jenkins job generation of Bob on generated projects.

    python c20_child.py <repo> <in.json> <out.json>

in.json : [ {"id":.., "dir": project directory, "opts": {"roots":[..], "prefix":.., "isolate":.., "short":.., "sandbox":..},
             "ir": bool} ]
out.json: one record per case, see `run_case`.

Everything that needs live Bob objects happens here (graph extraction for the Lean model, the
property oracle, the PartialIR round trip); the parent only sees JSON.  Variant ids are mapped to
small integers in first-visit order of JobNameCalculator.sanitize's traversal.
"""
import asyncio
import hashlib
import json
import os
import re
import sys
import traceback

# a line of check_ir's `diff` about a tool of a built step: its path / libs, or the PATH / LD_LIBRARY_PATH lists
_TOOL_FIELD = re.compile(r" \.(tools\.\S+\.(path|libs)|paths|libraryPaths)[\[:]")

def _load(repo):
    sys.path.insert(0, os.path.join(repo, "pym"))


class Abort(Exception):
    pass


def drop_tree_cache():
    # the package tree cache (C04's subject) is a single-writer database that an aborted run keeps
    # locked until it is collected: start the next run without it
    for f in (".bob-tree.sqlite3", ".bob-tree.sqlite3-journal"):
        try:
            os.unlink(f)
        except OSError:
            pass


def cleanup_after_abort():
    """an aborted run (error while the package graph is generated or used) leaves its connection to the tree
    cache open inside a transaction; the process would normally exit, here it goes on with the next case"""
    import gc
    import sqlite3
    gc.collect()
    for ob in gc.get_objects():
        if isinstance(ob, sqlite3.Connection):
            try:
                ob.close()
            except Exception:  # noqa
                pass
    drop_tree_cache()


def make_recipes():
    from bob.input import RecipeSet
    from bob.cmds.jenkins.jenkins import jenkinsNameFormatter
    recipes = RecipeSet()
    recipes.defineHook('jenkinsNameFormatter', jenkinsNameFormatter)
    recipes.setConfigFiles([])
    return recipes


def make_config(opts):
    from bob.state import JenkinsConfig
    from bob.utils import SandboxMode
    cfg = JenkinsConfig("http://localhost:1/", "c0de-0001")
    cfg.roots = list(opts["roots"])
    cfg.prefix = opts.get("prefix", "")
    cfg.shortdescription = opts.get("short")
    cfg.sandbox = SandboxMode(opts.get("sandbox", "yes"))
    cfg.hostPlatform = "linux"

    def err(msg):
        raise Abort(msg)
    if opts.get("isolate"):
        cfg.setOption("jobs.isolate", opts["isolate"], err)
    return cfg


# ----------------------------------------------------------------------------- graph extraction

def jvid(step):
    from bob.cmds.jenkins.intermediate import getJenkinsVariantId
    return getJenkinsVariantId(step)


def flat_deps(pstep):
    """package steps in the order JobNameCalculator.sanitize's addStep meets them below `pstep`
    (non-package steps are passed through with job = parentJob)"""
    out = []

    def rec(step):
        for d in step.getAllDepSteps():
            if d.isPackageStep():
                out.append(d)
            else:
                rec(d)
    rec(pstep)
    return out


def valid_deps(pstep):
    """valid package steps that the valid steps of this package consume (arguments, tools, sandbox)"""
    out = []

    def rec(step):
        for d in step.getAllDepSteps():
            if not d.isValid():
                continue
            if d.isPackageStep():
                out.append(d)
            else:
                rec(d)
    rec(pstep)
    return out


def extract_graph(root_steps):
    """nodes = package steps by Jenkins variant id, first instance in sanitize's traversal order.
    Also walks *all* package instances (by stack) and reports variant ids whose instances do not have
    the same dependency variant ids (the pruning of sanitize and _genJenkinsJobs assumes they have)."""
    index = {}
    nodes = []
    steps = []

    def visit(ps):
        v = jvid(ps)
        if v in index:
            return index[v]
        i = index[v] = len(nodes)
        pkg = ps.getPackage()
        node = {"vid": v.hex(), "name": pkg.getName(), "recipe": pkg.getRecipe().getName(), "valid": ps.isValid(),
                "stack": "/".join(pkg.getStack()), "deps": None, "vdeps": None}
        nodes.append(node)
        steps.append(ps)
        node["deps"] = [visit(d) for d in flat_deps(ps)]
        node["vdeps"] = [index[jvid(d)] for d in valid_deps(ps)]
        return i
    roots = [visit(r) for r in root_steps]
    # all instances
    seen = set()
    sig = {}
    differ = []
    budget = [20000]

    def walk(ps):
        key = "/".join(ps.getPackage().getStack())
        if key in seen or budget[0] <= 0:
            return
        seen.add(key)
        budget[0] -= 1
        ds = flat_deps(ps)
        me = (tuple(jvid(d).hex() for d in ds), tuple(jvid(d).hex() for d in valid_deps(ps)))
        v = jvid(ps).hex()
        if v in sig and sig[v][0] != me:
            differ.append({"vid": v[:16], "a": sig[v][1], "b": key})
        sig.setdefault(v, (me, key))
        for d in ds:
            walk(d)
    for r in root_steps:
        walk(r)
    return {"nodes": nodes, "roots": roots, "instances_differ": differ[:5], "instances": len(seen)}, steps, index


# ----------------------------------------------------------------------------- IR round trip

def _scm_props(step, jenkins):
    # "__source" is a diagnostic text for error messages (it is re-wrapped on every reconstruction)
    return [json.loads(json.dumps({k: v for k, v in s.getProperties(jenkins).items() if not k.startswith("__")},
                                  sort_keys=True, default=repr)) for s in step.getScmList()]


def step_view(s, full, live=None, ident=False, ws_of=None):
    """everything the builder reads from a step, as JSON-able data.  `s` is a StepIR: the decoded job
    specification, or -- for the reference side -- the LazyIR view that the local builder uses, which is only
    asked for what is *derived* in the IR classes (exec path, PATH lists).  Everything else of the
    reference side is read from `live`, the bob.input step itself (the IR classes share their constructor,
    so a value lost there would be lost on both sides)."""
    src = live if live is not None else s
    if not src.isValid():
        # never executed; all invalid steps without dependencies share one variant id (and one entry of the specification)
        return {"valid": False}

    def ref_ws(step):
        # a consumed step (sandbox, tool, argument): steps are shared by variant id, so any workspace that the
        # project assigns to a step of this variant id is a faithful choice
        w = step.getWorkspacePath()
        if ws_of is not None and w in ws_of.get(step.getVariantId(), ()):
            return "<a workspace of %s>" % step.getVariantId().hex()[:8]
        return w
    sb = src.getSandbox()
    if not full:
        # a dependency built by another job: the builder reads its variant id, workspace, relocatability and
        # whether it was built in a sandbox (bob/intermediate.py, "Partially dumped")
        return {"variantId": src.getVariantId().hex(), "valid": True, "workspace": src.getWorkspacePath(),
                "kind": [src.isCheckoutStep(), src.isBuildStep(), src.isPackageStep()],
                "relocatable": src.isRelocatable(), "shared": src.isShared(), "sandbox": sb is not None,
                "execPath": s.getExecPath()}
    v = {
        "variantId": src.getVariantId().hex(), "valid": src.isValid(), "workspace": src.getWorkspacePath(),
        "kind": [src.isCheckoutStep(), src.isBuildStep(), src.isPackageStep()],
        "relocatable": src.isRelocatable(), "shared": src.isShared(), "stablePaths": src.stablePaths(),
        "sandbox": None if sb is None else {"step": sb.getStep().getVariantId().hex(), "ws": ref_ws(sb.getStep()),
                                            "paths": list(sb.getPaths()), "mounts": json.loads(json.dumps(sb.getMounts())),
                                            "user": sb.getUser()},
        "execPath": s.getExecPath(),
    }
    if ident:
        # steps are shared by variant id: only the package step that was added to the job is tied to one package instance
        v["package"] = src.getPackage().getName()
        v["stack"] = list(src.getPackage().getStack())
        v["recipe"] = src.getPackage().getRecipe().getName()
    tools = src.getTools()
    if live is not None:
        digest_env = dict(live._coreStep.digestEnv)
        weak = sorted(live._coreStep.toolDepWeak)
    else:
        d = s.toData()
        digest_env = dict(d.get("digestEnv", {"<missing>": ""}))
        weak = sorted(d.get("toolKeysWeak", ["<missing>"]))
    v.update({
        "fingerprinted": src._isFingerprinted(), "digestScript": src.getDigestScript(),
        "tools": {n: {"step": t.getStep().getVariantId().hex(), "ws": ref_ws(t.getStep()),
                      "path": t.getPath(), "libs": list(t.getLibs())} for n, t in sorted(tools.items())},
        "arguments": [[a.getVariantId().hex(), a.isValid(), ref_ws(a) if a.isValid() else None] for a in src.getArguments()],
        "allDepSteps": [[a.getVariantId().hex(), a.isValid()] for a in src.getAllDepSteps()],
        "env": dict(src.getEnv()), "paths": s.getPaths(), "libraryPaths": s.getLibraryPaths(),
        "preRunCmds": src.getJenkinsPreRunCmds(), "postRunCmds": src.getPostRunCmds(),
        "setupScript": src.getSetupScript(), "mainScript": src.getMainScript(), "updateScript": src.getUpdateScript(),
        "fingerprintScript": src._getFingerprintScript(), "jobServer": src.jobServer(), "label": src.getLabel(),
        "deterministic": src.isDeterministic(), "updateDeterministic": src.isUpdateDeterministic(),
        "netAccess": src.hasNetAccess(), "auditFileNames": json.loads(json.dumps(src.getAuditFileNames())),
        "metaEnv": dict(src.getPackage().getMetaEnv()),
        "layer": src.getPackage().getRecipe().getLayer(),
        "language": src.getPackage().getRecipe().scriptLanguage.index.value,
        "digestEnv": digest_env, "toolKeysWeak": weak,
    })
    if src.isCheckoutStep():
        v["liveBuildId"] = src.hasLiveBuildId()
        v["scmList"] = _scm_props(src, True)
        v["scmDirs"] = {d: [h.hex(), p] for d, (h, p) in sorted(src.getScmDirectories().items())}
    return v


class BuildIds:
    """Build-Id calculation the way LocalBuilder does it (__getBuildIdSingle/_getFingerprint), with
    checkout results and fingerprint script outputs supplied by the harness"""

    def __init__(self, preset=None):
        self.cache = dict(preset or {})
        self.src = {}

    async def many(self, steps):
        return [await self.one(s) for s in steps]

    substitute = staticmethod(lambda st: st)

    async def one(self, step):
        step = self.substitute(step)
        path = step.getWorkspacePath()
        if step.isCheckoutStep():
            key = (path, step.getVariantId())
            if key not in self.src:
                self.src[key] = hashlib.sha1(b"checkout-result-of:" + step.getVariantId()).digest()
            return self.src[key]
        ret = self.cache.get(path)
        if ret is None:
            fp = await self.fingerprint(step)
            ret = await step.getDigestCoro(self.many, fingerprint=fp, platform=b"plat", relaxTools=True)
            self.cache[path] = ret
        return ret

    async def fingerprint(self, step):
        isfp = step._isFingerprinted()
        track = step.isPackageStep() and not step.isRelocatable()
        if not isfp and not track:
            return b''
        fp = b''
        if isfp:
            key = hashlib.sha1(step._getFingerprintScript().encode()).digest()
            if step.getSandbox() is not None:
                key = hashlib.sha1(key + await self.one(step.getSandbox().getStep())).digest()
            fp = b"fingerprint-output:" + key
        if track:
            fp += os.path.abspath(step.getExecPath()).encode()
        return hashlib.sha1(fp).digest()


def lazy(step):
    from bob.cmds.build.build import ExecutableStep, LazyIR
    return ExecutableStep.fromStep(step, LazyIR)


def decode_spec(job, tmpdir):
    """the way `bob _jexec run` reads the job specification (exec.Spec)"""
    from bob.cmds.jenkins.exec import Spec
    path = os.path.join(tmpdir, "spec.txt")
    with open(path, "w") as f:
        f.write("#!bob _jexec run\n[cfg]\nplatform=linux\n[exec]\n" + job.dumpJobSpec() + "\n")
    return Spec(path).execIR


def diff(a, b, path=""):
    if type(a) != type(b):
        return ["%s: %r != %r" % (path, a, b)]
    if isinstance(a, dict):
        out = []
        for k in sorted(set(a) | set(b)):
            if k not in a or k not in b:
                out.append("%s.%s: missing on one side" % (path, k))
            else:
                out.extend(diff(a[k], b[k], path + "." + str(k)))
        return out
    if isinstance(a, list):
        if len(a) != len(b):
            return ["%s: length %d != %d" % (path, len(a), len(b))]
        out = []
        for i, (x, y) in enumerate(zip(a, b)):
            out.extend(diff(x, y, "%s[%d]" % (path, i)))
        return out
    return [] if a == b else ["%s: %r != %r" % (path, a, b)]


def check_ir(jobs, tmpdir):
    """second sentence of the property: the job specification reproduces on the build node what the
    originating project has"""
    from bob.cmds.jenkins.exec import getDependencies
    loop = asyncio.new_event_loop()
    mismatches = []
    dropped = []
    twin_hits = [0]
    nfields = 0
    # every workspace the project assigns, by (plain) variant id
    ws_of = {}
    same_ws = {}      # workspace -> step instances of the project that live there (same Jenkins variant id and kind)
    for job in jobs.values():
        for ps in job.getPackageSteps():
            pkg = ps.getPackage()
            for st in (ps, pkg.getBuildStep(), pkg.getCheckoutStep()):
                if st.isValid():
                    ws_of.setdefault(st.getVariantId(), set()).add(st.getWorkspacePath())
                    same_ws.setdefault(st.getWorkspacePath(), []).append(st)
                    for d in st.getAllDepSteps():
                        if d.isValid():
                            ws_of.setdefault(d.getVariantId(), set()).add(d.getWorkspacePath())
                            same_ws.setdefault(d.getWorkspacePath(), []).append(d)
    try:
        live_bids = BuildIds()
        for name, job in sorted(jobs.items()):
            live = {}
            for ps in job.getPackageSteps():
                live[jvid(ps).hex()] = ps
            ir = decode_spec(job, tmpdir)
            roots = ir.getRoots()
            if sorted(jvid(x).hex() for x in roots) != sorted(live):
                mismatches.append("%s: roots of the job specification %s != package steps of the job %s"
                                  % (name, sorted(jvid(x).hex()[:8] for x in roots), sorted(k[:8] for k in live)))
                continue
            # build ids of the dependencies arrive as files, indexed by workspace path (exec.py)
            deps = getDependencies(ir)
            preset = {}
            for d in deps:
                preset[d.getWorkspacePath()] = None
            # what the built steps really consume from other jobs
            rootv = set(jvid(x) for x in roots)
            for r in roots:
                rp = r.getPackage()
                for st in (r, rp.getBuildStep(), rp.getCheckoutStep()):
                    if st is not r and not st.isValid():
                        continue
                    for d in st.getAllDepSteps():
                        if d.isPackageStep() and d.isValid() and jvid(d) not in rootv and d.getWorkspacePath() not in preset:
                            dropped.append("%s: exec.getDependencies does not deliver the Build-Id of %s (%s), consumed by %s/%s"
                                           % (name, d.getPackage().getName(), d.getWorkspacePath(), rp.getName(), st.getLabel()))
                            preset[d.getWorkspacePath()] = None
                            deps.append(d)
            live_deps = {}
            for ps in live.values():
                pkg = ps.getPackage()
                for st in (ps, pkg.getBuildStep(), pkg.getCheckoutStep()):
                    if st is ps or st.isValid():
                        for d in st.getAllDepSteps():
                            if d.isPackageStep() and d.isValid():
                                live_deps[d.getWorkspacePath()] = d
            for p in preset:
                if p not in live_deps:
                    mismatches.append("%s: dependency workspace %s of the specification is unknown to the project" % (name, p))
                else:
                    preset[p] = loop.run_until_complete(live_bids.one(lazy(live_deps[p])))
            node_bids = BuildIds({p: b for p, b in preset.items() if b is not None})
            # checkout/build steps of different packages of the job may share one variant id (same script, environment,
            # tools and inputs): the specification keeps one entry per variant id and the builder runs it once, in
            # one workspace.  Attributes outside the variant id (deterministic flag, job server, ...) are then those
            # of one of these steps: the entry has to reproduce *one* step of the project with that id completely.
            twins = {}
            for ps in live.values():
                pk = ps.getPackage()
                for st in (pk.getBuildStep(), pk.getCheckoutStep()):
                    twins.setdefault((jvid(st), st.isCheckoutStep()), []).append(st)
            rep = {}          # (variant id, is checkout) -> the step of the project that the entry reproduces
            todo_bid = []
            for r in roots:
                lp = live[jvid(r).hex()]
                pairs = [(r, lp)]
                rp, lpk = r.getPackage(), lp.getPackage()
                pairs.append((rp.getBuildStep(), lpk.getBuildStep()))
                pairs.append((rp.getCheckoutStep(), lpk.getCheckoutStep()))
                for (a, b) in pairs:
                    va = step_view(a, True, None, a is r, ws_of)
                    vb = step_view(lazy(b), True, b, a is r, ws_of)
                    nfields += len(va)
                    ms = diff(vb, va)
                    if ms and a is not r:
                        for other in twins.get((jvid(b), b.isCheckoutStep()), []):
                            if other is not b and not diff(step_view(lazy(other), True, other, False, ws_of), va):
                                ms = []
                                twin_hits[0] += 1
                                rep[(jvid(b), b.isCheckoutStep())] = other
                                break
                    for m in ms:
                        mismatches.append("%s %s/%s %s" % (name, lp.getPackage().getName(), b.getLabel(), m))
                    if a.isValid():
                        todo_bid.append((a, b, lp))
            # Build-Ids: the project's value, computed with the steps that the entries reproduce
            proj_bids = live_bids
            if rep:
                proj_bids = BuildIds()
                proj_bids.substitute = lambda st: (lazy(rep[(jvid(st), st.isCheckoutStep())])
                                                   if not st.isPackageStep() and (jvid(st), st.isCheckoutStep()) in rep else st)
            for (a, b, lp) in todo_bid:
                ba = loop.run_until_complete(node_bids.one(a))
                bb = loop.run_until_complete(proj_bids.one(lazy(b)))
                nfields += 1
                if ba != bb:
                    # step instances with one Jenkins variant id share the workspace and (in the builder's cache,
                    # which is indexed by workspace) the Build-Id of whichever instance is asked first; they may differ
                    # in attributes outside the variant id (relocatable, fingerprint script)
                    for other in same_ws.get(b.getWorkspacePath(), []):
                        fresh = BuildIds()
                        fresh.substitute = proj_bids.substitute
                        if loop.run_until_complete(fresh.one(lazy(other))) == ba:
                            bb = ba
                            twin_hits[0] += 1
                            break
                if ba != bb:
                    mismatches.append("%s %s/%s: Build-Id on the build node %s != in the project %s"
                                      % (name, lp.getPackage().getName(), b.getLabel(), ba.hex(), bb.hex()))
            # partially dumped dependencies: what the builder reads from them
            for d in deps:
                l = live_deps.get(d.getWorkspacePath())
                if l is None:
                    continue
                va, vb = step_view(d, False), step_view(lazy(l), False, l)
                nfields += len(va)
                ms = diff(vb, va)
                if ms:
                    # the entry may be that of another package instance with this Jenkins variant id (same workspace)
                    for other in same_ws.get(d.getWorkspacePath(), []):
                        if not diff(step_view(lazy(other), False, other), va):
                            ms = []
                            twin_hits[0] += 1
                            break
                for m in ms:
                    mismatches.append("%s dep %s %s" % (name, l.getPackage().getName(), m))
    finally:
        loop.close()
    return {"fields": nfields, "mismatch": mismatches[:20], "dropped": dropped[:5], "twins": twin_hits[0]}


# ----------------------------------------------------------------------------- the property oracle

def oracle(jobs, order_error, graph, steps, names):
    """first sentence of the property executed on the implementation's result.
    graph/steps come from the harness' own traversal of the package objects"""
    out = []
    nodes = graph["nodes"]
    vid2job = {}
    for name, job in jobs.items():
        for ps in job.getPackageSteps():
            vid2job.setdefault(jvid(ps).hex(), []).append(name)
    # reachable valid packages (own traversal, valid edges only; a root is built even if it is empty)
    reach = []
    seen = set()
    todo = list(graph["roots"])
    while todo:
        i = todo.pop()
        if i in seen:
            continue
        seen.add(i)
        reach.append(i)
        todo.extend(nodes[i]["vdeps"])
    for i in reach:
        js = vid2job.get(nodes[i]["vid"], [])
        if len(js) != 1:
            out.append({"what": "package %s (%s) is built by %d jobs %s" % (nodes[i]["stack"], nodes[i]["vid"][:8], len(js), js),
                        "sig": "package-not-in-exactly-one-job"})
            continue
        up = set(jobs[js[0]].getUpstreamJobs())
        for d in nodes[i]["vdeps"]:
            dj = vid2job.get(nodes[d]["vid"], [])
            if not dj:
                # an upstream reference by name may still exist (a job of that name builds *another* variant,
                # e.g. the same tool in another sandbox context): it does not resolve to a job that builds this package
                out.append({"what": "job %s builds %s but its dependency %s (%s) is built by no job"
                                    % (js[0], nodes[i]["stack"], nodes[d]["stack"], nodes[d]["vid"][:8]),
                            "sig": "dependency-built-by-no-job"})
            elif len(dj) == 1 and dj[0] != js[0] and dj[0] not in up:
                out.append({"what": "job %s builds %s but does not depend on job %s of its dependency %s"
                                    % (js[0], nodes[i]["stack"], dj[0], nodes[d]["stack"]), "sig": "missing-upstream-job"})
    for name, job in jobs.items():
        for u in job.getUpstreamJobs():
            if u not in jobs:
                out.append({"what": "job %s names the unknown upstream job %s" % (name, u), "sig": "unknown-upstream-job"})
    # acyclic: own search, independent of genJenkinsBuildOrder
    color = {}

    def dfs(n, stack):
        color[n] = 1
        for u in sorted(jobs[n].getUpstreamJobs()):
            if u not in jobs:
                continue
            if color.get(u) == 1:
                return stack + [n, u]
            if u not in color:
                c = dfs(u, stack + [n])
                if c:
                    return c
        color[n] = 2
        return None
    cyc = None
    for n in sorted(jobs):
        if n not in color:
            cyc = dfs(n, [])
            if cyc:
                break
    if cyc or order_error:
        out.append({"what": "the recipes parse (acyclic package graph) but the Jenkins jobs are cyclic: %s"
                            % (" -> ".join(cyc) if cyc else order_error), "sig": "job-graph-cyclic"})
    return out


def first_instance_job_graph_cyclic(jobs, graph):
    """the job graph with the dependencies of the first package instance per Jenkins variant id (harness traversal,
    the order of sanitize) instead of the recorded ones"""
    nodes = graph["nodes"]
    vid2job = {}
    for name, job in jobs.items():
        for ps in job.getPackageSteps():
            vid2job[jvid(ps).hex()] = name
    edges = {}
    for n in nodes:
        j = vid2job.get(n["vid"])
        if j is None:
            continue
        for d in n["vdeps"]:
            k = vid2job.get(nodes[d]["vid"])
            if k is not None and k != j:
                edges.setdefault(j, set()).add(k)
    color = {}

    def dfs(a):
        color[a] = 1
        for b in edges.get(a, ()):
            if color.get(b) == 1 or (b not in color and dfs(b)):
                return True
        color[a] = 2
        return False
    return any(dfs(a) for a in list(edges) if a not in color)


def _natural_names(nodes, job):
    """names a job can have before numbering: its recipe, its package name, the common dash-prefix"""
    out = set(nodes[i]["recipe"] for i in job)
    parts = [nodes[i]["name"].split("-") for i in job]
    common = []
    for col in zip(*parts):
        if len(set(col)) != 1:
            break
        common.append(col[0])
    out.add("-".join(common))
    return out


def classify(graph, names, absjobs, prefix=""):
    """root cause of a failure: do two distinct abstract jobs of the name calculation share one Jenkins job name?
    folded : different display names, same internal name (character / case folding)
    numbered: same display name, one job has it as its plain name, the other got it from the numbering"""
    if not absjobs:
        return None
    nodes = graph["nodes"]
    by_iname = {}
    for a in absjobs:
        nm = names.get(nodes[a[0]]["vid"])
        if nm:
            by_iname.setdefault(nm[1], []).append((nm[0], a))
    kind = None
    for iname, lst in by_iname.items():
        if len(lst) < 2:
            continue
        if len(set(d for d, _ in lst)) > 1:
            k = "folded-job-names-collide"
        else:
            d = lst[0][0]
            d = d[len(prefix):] if d.startswith(prefix) else d
            plain = [a for _, a in lst if d in _natural_names(nodes, a)]
            numbered = [a for _, a in lst if d not in _natural_names(nodes, a)]
            k = "numbered-job-name-collides" if (plain and numbered and re.fullmatch(r".*-[0-9]+", d)) else "job-names-collide"
        if kind is None or k == "job-names-collide" or (k == "folded-job-names-collide" and kind == "numbered-job-name-collides"):
            kind = k
    return kind


# ----------------------------------------------------------------------------- one case

def run_case(case, tmpdir):
    from bob.errors import BobError
    from bob.state import BobState
    from bob.cmds.jenkins import jenkins as J
    opts = case["opts"]
    res = {"id": case["id"], "status": "ok"}
    alias = "c%s" % case["id"]
    try:
        cfg = make_config(opts)
    except (Abort, re.error) as e:
        return dict(res, status="skip", error="config: %s" % e)
    # --- own view of the package graph (separate RecipeSet, same path assignment)
    packages = None
    try:
        recipes2 = make_recipes()
        recipes2.parse(cfg.defines, cfg.hostPlatform)
        if alias + "x" in BobState().getAllJenkins():
            BobState().delJenkins(alias + "x")
        BobState().addJenkins(alias + "x", cfg)
        fmt = recipes2.getHook('jenkinsNameFormatter')
        packages = recipes2.generatePackages(J.jenkinsNamePersister(alias + "x", fmt, cfg.uuid),
                                             cfg.sandbox.sandboxEnabled, cfg.sandbox.stablePaths)
        rootPackages = []
        for r in cfg.roots:
            rootPackages.extend(packages.queryPackagePath(r))
        graph, steps, index = extract_graph([p.getPackageStep() for p in rootPackages])
    except BobError as e:
        e.__traceback__ = None
        if packages is not None:
            packages.close()
            packages = None
        cleanup_after_abort()
        return dict(res, status="parse-error", error=str(e)[:200])
    finally:
        # the package graph cache is a single-writer database: release it before the real run
        if packages is not None:
            packages.close()
    res["graph"] = graph
    res["root_names"] = sorted(p.getName() for p in rootPackages)
    if opts.get("isolate"):
        rx = re.compile(opts["isolate"])
        res["iso"] = [rx.search(n["name"]) is not None for n in graph["nodes"]]
    else:
        res["iso"] = [False] * len(graph["nodes"])
    # --- the real thing
    if alias in BobState().getAllJenkins():
        BobState().delJenkins(alias)
    BobState().addJenkins(alias, cfg)
    jobs = None
    try:
        jobs = J.genJenkinsJobs(make_recipes(), alias)
    except BobError as e:
        res["gen_error"] = "bob:" + str(e)[:200]
    except Exception as e:  # noqa
        res["gen_error"] = "internal:%s: %s" % (type(e).__name__, str(e)[:100])
        res["gen_trace"] = traceback.format_exc()[-1500:]
        e.__traceback__ = None
    if jobs is None:
        # the aborted run still holds the package graph cache (single writer): drop it
        cleanup_after_abort()
    names = {}
    # names straight from the calculator (also when genJenkinsJobs failed): the same class, fed like genJenkinsJobs does
    recorded = []
    orig_aj = getattr(J, "AbstractJob", None)
    try:
        if orig_aj is not None:
            # observe the abstract jobs of the calculation from outside (no source hook): a recording subclass
            class RecJob(orig_aj):
                __slots__ = []

                def __init__(self, *a, **k):
                    super().__init__(*a, **k)
                    recorded.append(self)
            J.AbstractJob = RecJob
        nc = J.JobNameCalculator(cfg.prefix)
        for p in rootPackages:
            nc.addPackage(p)
        nc.isolate(cfg.jobsIsolate)
        nc.sanitize()
        for n, ps in zip(graph["nodes"], steps):
            names[n["vid"]] = [nc.getJobDisplayName(ps), nc.getJobInternalName(ps)]
    except Exception as e:  # noqa
        res["names_error"] = "%s: %s" % (type(e).__name__, str(e)[:200])
    finally:
        if orig_aj is not None:
            J.AbstractJob = orig_aj
    res["names"] = names
    absjobs = None
    try:
        sets = [frozenset(x.pkgs) for x in recorded if x.pkgs]
        live = [a for a in set(sets) if not any(a < b for b in sets)]
        absjobs = sorted(sorted(index[v] for v in a) for a in live)
    except Exception:  # noqa
        absjobs = None
    res["abs"] = absjobs
    res["clash"] = classify(graph, names, absjobs, cfg.prefix)
    viol = []
    differ = graph.get("instances_differ")
    if jobs is None:
        if res["gen_error"].startswith("internal:"):
            sig = "genjobs-internal-error"
            what = "genJenkinsJobs raised %s on a project that parses" % res["gen_error"][9:]
            if differ and res["gen_error"].startswith("internal:KeyError") and "getJobDisplayName" in res.get("gen_trace", ""):
                sig = "same-jenkins-variant-id-different-dependencies"
                what += (" [package instances %s and %s have the same Jenkins variant-id but dependencies with different Jenkins "
                         "variant-ids (sandbox); sanitize visits only the first, _genJenkinsJobs both]" % (differ[0]["a"], differ[0]["b"]))
            viol.append({"what": what, "sig": sig})
    else:
        order_error = None
        try:
            order = J.genJenkinsBuildOrder(jobs)
            res["order"] = "ok"
            pos = {n: i for i, n in enumerate(order)}
            res["order_valid"] = sorted(order) == sorted(jobs) and all(
                pos[u] < pos[n] for n, j in jobs.items() for u in j.getUpstreamJobs())
        except BobError as e:
            order_error = str(e)[:300]
            res["order"] = "cyclic" if "cyclic" in order_error else "error:" + order_error
        res["jobs"] = {n: {"pkgs": sorted(jvid(ps).hex() for ps in j.getPackageSteps()),
                           "up": sorted(j.getUpstreamJobs()), "root": j.isRoot(),
                           "display": getattr(j, "_JenkinsJob__displayName", None)} for n, j in jobs.items()}
        if differ:
            # which instance supplies the recorded dependencies is then an accident of the traversal order
            res["oracle_skipped"] = "instances-differ"
            if order_error:
                # Is the cycle made of dependencies that only *another* instance of a shared variant id has (the job
                # records those of the instance _genJenkinsJobs met first, sanitize checked those of its own first
                # instance)?  Then it is the same defect as the KeyError; a cycle that is already there with the
                # dependencies of sanitize's instances is something else.
                if first_instance_job_graph_cyclic(jobs, graph):
                    viol.append({"what": "Jenkins jobs are cyclic: " + order_error, "sig": "job-graph-cyclic"})
                else:
                    viol.append({"what": "Jenkins jobs are cyclic: %s [package instances %s and %s have the same Jenkins variant-id "
                                         "but dependencies with different Jenkins variant-ids (sandbox); the cycle consists of "
                                         "dependencies that sanitize's instance does not have]"
                                         % (order_error, differ[0]["a"], differ[0]["b"]),
                                 "sig": "same-jenkins-variant-id-different-dependencies"})
        else:
            viol.extend(oracle(jobs, order_error, graph, steps, names))
        if res.get("order") == "ok" and not res.get("order_valid"):
            viol.append({"what": "genJenkinsBuildOrder returned an order that is not topological", "sig": "build-order-wrong"})
        if case.get("ir"):
            try:
                res["ir"] = check_ir(jobs, tmpdir)
                # a tool of the specification that is not the project's tool (path, libs, and the PATH / LD_LIBRARY_PATH
                # derived from them) gets its own signature and is reported first
                mm = sorted(res["ir"]["mismatch"], key=lambda m: 0 if _TOOL_FIELD.search(m) else 1)
                for m in mm[:3]:
                    if _TOOL_FIELD.search(m):
                        viol.append({"what": "job specification: a tool (path / libs / PATH / LD_LIBRARY_PATH) of a built step is "
                                             "not the one of the project: " + m, "sig": "jobspec-tool-differs"})
                    else:
                        viol.append({"what": "job specification differs from the project: " + m, "sig": "jobspec-differs"})
                for m in res["ir"]["dropped"][:2]:
                    viol.append({"what": "job specification: " + m + " [a dependency with the variant-id of a built package but another sandbox]",
                                 "sig": "jobspec-dependency-dropped"})
            except Exception as e:  # noqa
                res["ir"] = {"fields": 0, "mismatch": [], "dropped": []}
                viol.append({"what": "job specification round trip raised %s: %s" % (type(e).__name__, str(e)[:100]),
                             "sig": "jobspec-internal-error", "trace": traceback.format_exc()[-1500:]})
    # a failure that comes with a name clash is reported under the clash (the root cause)
    for v in viol:
        if res["clash"] and v["sig"] in ("job-graph-cyclic", "genjobs-internal-error", "jobspec-internal-error"):
            v["sig"] = res["clash"]
            v["what"] += " [distinct jobs of the name calculation share one job name: %s]" % res["clash"]
    res["violations"] = viol
    return res


def main(argv):
    repo, inp, outp = argv
    _load(repo)
    import bob.state
    cases = json.load(open(inp))
    outf = open(outp, "w")

    class Out:
        @staticmethod
        def append(rec):
            outf.write(json.dumps(rec) + "\n")
            outf.flush()
    out = Out
    cwd = None
    import io
    import contextlib
    for c in cases:
        if c["dir"] != cwd:
            if cwd is not None:
                bob.state.BobState().setSynchronous()
                bob.state.finalize()    # BobState is a per-process singleton bound to the working directory
            os.chdir(c["dir"])
            cwd = c["dir"]
            bob.state.BobState().setAsynchronous()   # as `bob jenkins` does: state is written once at the end
        tmpdir = os.path.join(c["dir"], ".c20tmp")
        os.makedirs(tmpdir, exist_ok=True)
        buf = io.StringIO()
        try:
            with contextlib.redirect_stdout(buf), contextlib.redirect_stderr(buf):
                out.append(run_case(c, tmpdir))
        except Exception as e:  # noqa
            out.append({"id": c["id"], "status": "harness-error", "error": "%s: %s" % (type(e).__name__, e),
                        "trace": traceback.format_exc()[-2000:]})
    if cwd is not None:
        bob.state.BobState().setSynchronous()
        bob.state.finalize()
    outf.write(json.dumps({"id": None, "done": True}) + "\n")
    outf.close()


if __name__ == "__main__":
    main(sys.argv[1:])
