"""Generator of REAL Bob projects (recipe trees on disk) and of their single-edit neighbours.

    p = gen_project(rng, size)          -> Project      (size ~ number of recipe files, 3..14)
    p.write(dir, order_rng=None)        write config.yaml / default.yaml / classes / recipes / include files
    p.edits(rng)                        -> iterator of (Edit, Project')   single-edit neighbours
    load_project(dir, sandbox=False, defines=None)  -> Loaded   real RecipeSet.parse() + generatePackages()
    Loaded.steps(cap)                   -> [(key, Step)]  every step reachable from the root package

A `Project` is plain data (dicts that are dumped as YAML), so other generators can post-process it.
`Project.spec_*` functions answer questions about the *declared* content naively from the YAML data
(class closure, declared strong / weak variables per stage) without using Bob; they are the independent
side of oracles.

Everything random is drawn from the `random.Random` passed in.  Generated names:
  recipes r0..rN (roots have `root: True`), classes c0..cK, tools ta..td, strong-capable variables VA..VE,
  variables that are only ever declared weak WA..WC, meta variables MA/MB, sandbox variables SA/SB.
"""
import copy
import os

import yaml

STAGES = ("checkout", "build", "package")
VARS = ["VA", "VB", "VC", "VD", "VE"]
WEAK_ONLY = ["WA", "WB", "WC"]
META = ["MA", "MB"]
SBVARS = ["SA", "SB"]
TOOLS = ["ta", "tb", "tc", "td"]
VALUES = ["1", "2", "x y", "", "ä€", "0", "v-${VA:-n}", "a\\'b\\\"c"]
SCRIPT_POOL = [
    "echo a", "make -j", "cp -r $1 .", "true", "echo ${VA:-}", "echo \"ä€ ${VB:-x}\"", "touch $<<inc/f1.txt>>",
    "cat $<'inc/f2.txt'>", "ls $<@inc/f*.txt@>", "echo $<$ $$ \\", "", "for i in \"$@\" ; do\n  echo $i\ndone",
    "echo b", "exit 0", "# comment only", "echo 𝔘nicode",
]
INC_FILES = {"inc/f1.txt": b"INC-ONE-\x00\xff binary\n", "inc/f2.txt": "INC-TWO 'quoted' ä\n".encode(), "inc/g.txt": b"INC-G"}


class Edit:
    """description of one single edit: `kind`, `target` file, `relevant` = True (must change an id if the
    edited thing is consumed), False (must change no id), None (may or may not)"""

    def __init__(self, kind, target, relevant, detail=""):
        self.kind, self.target, self.relevant, self.detail = kind, target, relevant, detail

    def __repr__(self):
        return "Edit(%s %s %s)" % (self.kind, self.target, self.detail)

    def as_dict(self):
        return {"kind": self.kind, "target": self.target, "relevant": self.relevant, "detail": self.detail}


class Project:
    def __init__(self):
        self.config = {"bobMinimumVersion": "1.0"}
        self.default = {}                 # default.yaml
        self.classes = {}                 # name -> yaml dict
        self.recipes = {}                 # file stem -> yaml dict (may carry multiPackage)
        self.files = {}                   # path relative to project root -> bytes
        self.comments = {}                # yaml path relative to project root -> comment text
        self.uses_sandbox_query = set()   # recipe/class files that call $(is-sandbox-enabled)

    # ------------------------------------------------------------------ plumbing
    def copy(self):
        return copy.deepcopy(self)

    def yaml_files(self):
        out = {"config.yaml": self.config}
        if self.default:
            out["default.yaml"] = self.default
        for n, d in self.classes.items():
            out["classes/%s.yaml" % n] = d
        for n, d in self.recipes.items():
            out["recipes/%s.yaml" % n] = d
        return out

    def render(self):
        """relative path -> bytes of every file of the project"""
        out = {}
        for path, data in self.yaml_files().items():
            txt = yaml.safe_dump(data, sort_keys=False, allow_unicode=True, default_flow_style=False, width=1000)
            if path in self.comments:
                txt = "".join("# %s\n" % l for l in self.comments[path].split("\n")) + txt
            out[path] = txt.encode("utf-8")
        out.update(self.files)
        return out

    def write(self, root, order_rng=None, atomic=False):
        """write the project below `root`; `order_rng` shuffles the file creation order;
        `atomic` replaces existing files through rename (new inode), files that are no longer part of the
        project are removed"""
        files = self.render()
        names = sorted(files)
        if order_rng is not None:
            order_rng.shuffle(names)
        for rel in names:
            p = os.path.join(root, rel)
            os.makedirs(os.path.dirname(p), exist_ok=True)
            if atomic:
                tmp = p + ".tmp~"
                with open(tmp, "wb") as f:
                    f.write(files[rel])
                os.replace(tmp, p)
            else:
                with open(p, "wb") as f:
                    f.write(files[rel])
        for sub in ("classes", "recipes"):
            os.makedirs(os.path.join(root, sub), exist_ok=True)
        if atomic:
            for sub in ("classes", "recipes"):
                for dp, _, fns in os.walk(os.path.join(root, sub)):
                    for fn in fns:
                        rel = os.path.relpath(os.path.join(dp, fn), root)
                        if rel not in files:
                            os.unlink(os.path.join(dp, fn))
            if "default.yaml" not in files and os.path.exists(os.path.join(root, "default.yaml")):
                os.unlink(os.path.join(root, "default.yaml"))
        return root

    def to_json(self):
        import base64
        return {"config": self.config, "default": self.default, "classes": self.classes, "recipes": self.recipes,
                "files": {k: base64.b64encode(v).decode() for k, v in self.files.items()}, "comments": self.comments,
                "uses_sandbox_query": sorted(self.uses_sandbox_query)}

    @classmethod
    def from_json(cls, j):
        import base64
        p = cls()
        p.config, p.default, p.classes, p.recipes = j["config"], j["default"], j["classes"], j["recipes"]
        p.files = {k: base64.b64decode(v) for k, v in j["files"].items()}
        p.comments = j.get("comments", {})
        p.uses_sandbox_query = set(j.get("uses_sandbox_query", []))
        return p

    def fingerprint(self):
        import hashlib
        h = hashlib.sha1()
        for k, v in sorted(self.render().items()):
            h.update(k.encode() + b"\0" + v + b"\0")
        return h.hexdigest()

    # ------------------------------------------------------------------ naive spec side
    def packages(self):
        """package name -> list of yaml dicts that make it up (outer multiPackage levels first, own dict last)
        together with the name of the recipe file"""
        out = {}

        def collect(stem, d, suffix, chain):
            if "multiPackage" in d:
                for sub, sd in d["multiPackage"].items():
                    collect(stem, sd, suffix + ("-" + sub if sub else ""), chain + [d])
            else:
                out[stem.replace("/", "::") + suffix] = (stem, chain + [d])
        for stem, d in self.recipes.items():
            collect(stem, d, "", [])
        return out

    def class_closure(self, dicts):
        """all yaml dicts a package is made of: its own chain plus every (transitively) inherited class"""
        seen, out = set(), []

        def visit(d):
            for c in d.get("inherit", []):
                if c not in seen and c in self.classes:
                    seen.add(c)
                    visit(self.classes[c])
                    out.append(self.classes[c])
        for d in dicts:
            visit(d)
        return out + list(dicts)

    def resolution_order(self, package):
        """the yaml dicts of `package` in class resolution order (documented: depth first, every class once, a
        multiPackage level acts as first base class, the recipe itself last)"""
        _, chain = self.packages()[package]
        seen, out = set(), []

        def visit(name):
            if name not in self.classes:
                return
            for c in self.classes[name].get("inherit", []):
                visit(c)
            if name not in seen:
                seen.add(name)
                out.append(self.classes[name])
        for d in chain:
            for c in d.get("inherit", []):
                visit(c)
            out.append(d)
        return out

    def spec_fragments(self, package, stage):
        """(digest order, execution order) of the raw fragment texts of `stage`: Setup* Script* Finalize* in class
        order, the execution order has the Finalize fragments reversed (documented behaviour)"""
        files = self.resolution_order(package)
        setup = [d[stage + "Setup"] for d in files if stage + "Setup" in d]
        script = [d[stage + "Script"] for d in files if stage + "Script" in d]
        final = [d[stage + "Finalize"] for d in files if stage + "Finalize" in d]
        return setup + script + final, setup + script + list(reversed(final))

    def spec_vars(self, package, stage, weak=False):
        """variables declared (strong or weak) for `stage` of `package`, accumulated checkout ⊆ build ⊆ package
        over the recipe and all its classes - straight from the YAML data"""
        _, chain = self.packages()[package]
        res = set()
        for d in self.class_closure(chain):
            for s in STAGES[:STAGES.index(stage) + 1]:
                res.update(d.get(s + ("VarsWeak" if weak else "Vars"), []))
        return res

    def spec_tools(self, package, stage):
        """(tools named strong, tools named only weak) for `stage` of `package`, accumulated over the stages, the recipe
        and its classes - from the YAML data (tool conditions and dependTools are not generated)"""
        _, chain = self.packages()[package]
        strong, weak = set(), set()
        for d in self.class_closure(chain):
            for s in STAGES[:STAGES.index(stage) + 1]:
                strong.update(x if isinstance(x, str) else x["name"] for x in d.get(s + "Tools", []))
                weak.update(x if isinstance(x, str) else x["name"] for x in d.get(s + "ToolsWeak", []))
        return strong, weak - strong

    def permute_deps(self, rng):
        """(Project', affected package names): the `depends` lists whose entries do not forward anything to their
        siblings are shuffled.  Only the packages made from a changed list (and everything above them) may change ids."""
        q = self.copy()
        changed = []
        for path, d in _all_dicts(q):
            deps = d.get("depends", [])
            if len(deps) < 2 or any(isinstance(x, dict) and (x.get("forward") or "depends" in x) for x in deps):
                continue
            new = list(deps)
            for _ in range(5):
                rng.shuffle(new)
                if new != deps:
                    break
            if new != deps:
                d["depends"] = new
                changed.append(d)
        affected = set()
        for name in q.packages():
            if any(any(f is c for c in changed) for f in q.resolution_order(name)):
                affected.add(name)
        return q, affected

    def spec_decls(self, package):
        """the raw declaration lists (for the Lean `split` operation): own chain merged as the recipe, classes in
        resolution order.  Returns (self_decl, [class_decl...]) for variables and the same for tools (names only,
        conditions dropped: use only when no tool condition is generated)"""
        _, chain = self.packages()[package]
        files = self.class_closure(chain)

        def decl(d, what):
            def names(k):
                return [x if isinstance(x, str) else x["name"] for x in d.get(k, [])]
            return {"coS": names("checkout" + what), "coW": names("checkout" + what + "Weak"),
                    "buS": names("build" + what), "buW": names("build" + what + "Weak"),
                    "paS": names("package" + what), "paW": names("package" + what + "Weak")}
        return ([decl(d, "Vars") for d in files], [decl(d, "Tools") for d in files])

    # ------------------------------------------------------------------ edits
    def edits(self, rng):
        """endless iterator of (Edit, Project'): single-edit neighbours in random order"""
        makers = [m for m in EDITS]
        while True:
            m = rng.choice(makers)
            q = self.copy()
            e = m(q, rng)
            if e is None:
                continue
            yield e, q


# ---------------------------------------------------------------------- helpers for edits

def _all_dicts(p, rng=None):
    """[(path, dict)] of every class / recipe / multiPackage leaf and inner dict"""
    out = []
    for n, d in p.classes.items():
        out.append(("classes/%s.yaml" % n, d))

    def rec(path, d):
        out.append((path, d))
        for sd in d.get("multiPackage", {}).values():
            rec(path, sd)
    for n, d in p.recipes.items():
        rec("recipes/%s.yaml" % n, d)
    return out


def _pick(p, rng, pred):
    c = [(path, d) for path, d in _all_dicts(p) if pred(d)]
    return rng.choice(c) if c else (None, None)


def _script_keys(d):
    return [k for k in d if any(k == s + w for s in STAGES for w in ("Setup", "Script", "Finalize"))]


def e_script_text(p, rng):
    path, d = _pick(p, rng, lambda d: _script_keys(d))
    if d is None:
        return None
    k = rng.choice(_script_keys(d))
    d[k] = d[k] + "\necho edited-%d" % rng.randrange(1000)
    return Edit("script-text", path, True, k)


def e_script_placement(p, rng):
    """move a fragment between Setup / Script / Finalize of the same stage (candidate F-C02-2 lives here)"""
    path, d = _pick(p, rng, lambda d: _script_keys(d))
    if d is None:
        return None
    k = rng.choice(_script_keys(d))
    stage = next(s for s in STAGES if k.startswith(s))
    cur = k[len(stage):]
    new = rng.choice([w for w in ("Setup", "Script", "Finalize") if w != cur])
    if stage + new in d:
        d[k], d[stage + new] = d[stage + new], d[k]
    else:
        d[stage + new] = d.pop(k)
    return Edit("script-placement", path, None, "%s -> %s%s" % (k, stage, new))


def e_script_add(p, rng):
    path, d = _pick(p, rng, lambda d: "multiPackage" not in d)
    k = rng.choice(STAGES) + rng.choice(("Setup", "Script", "Finalize"))
    if k in d:
        return None
    d[k] = rng.choice(SCRIPT_POOL)
    return Edit("script-add", path, None, k)


def e_include_content(p, rng):
    inc = sorted(k for k in p.files if "/inc/" in k)
    if not inc:
        return None
    f = rng.choice(inc)
    p.files[f] = p.files[f] + b"edited-%d" % rng.randrange(1000)
    return Edit("include-content", f, None)


def _env_keys(d):
    return [k for k in ("environment", "privateEnvironment", "provideVars") if d.get(k)]


def e_var_value(p, rng):
    path, d = _pick(p, rng, lambda d: any(v in d.get(k, {}) for k in _env_keys(d) for v in VARS))
    if d is None:
        return None
    k = rng.choice([k for k in _env_keys(d) if any(v in d[k] for v in VARS)])
    v = rng.choice([v for v in d[k] if v in VARS])
    d[k][v] = _setval(d[k][v], "ed%d" % rng.randrange(100))
    return Edit("var-value", path, None, "%s.%s" % (k, v))


def _setval(old, new):
    if isinstance(old, dict):
        old = dict(old)
        old["value"] = new
        return old
    return new


def e_weak_value(p, rng):
    """value of a variable that is nowhere declared strong: must change no id"""
    path, d = _pick(p, rng, lambda d: any(v in d.get(k, {}) for k in _env_keys(d) for v in WEAK_ONLY))
    if d is None:
        # define one at a root so that it is visible everywhere
        roots = [(pa, di) for pa, di in _all_dicts(p) if di.get("root")]
        if not roots:
            return None
        path, d = rng.choice(roots)
        d.setdefault("environment", {})[rng.choice(WEAK_ONLY)] = "w%d" % rng.randrange(100)
        return Edit("weak-define", path, False)
    k = rng.choice([k for k in _env_keys(d) if any(v in d[k] for v in WEAK_ONLY)])
    v = rng.choice([v for v in d[k] if v in WEAK_ONLY])
    d[k][v] = _setval(d[k][v], "w%d" % rng.randrange(100))
    return Edit("weak-value", path, False, "%s.%s" % (k, v))


def e_meta_value(p, rng):
    path, d = _pick(p, rng, lambda d: "multiPackage" not in d)
    d.setdefault("metaEnvironment", {})[rng.choice(META)] = "m%d" % rng.randrange(100)
    return Edit("meta-env", path, False)


def e_comment(p, rng):
    path = rng.choice(sorted(p.yaml_files()))
    p.comments[path] = p.comments.get(path, "") + "edited %d" % rng.randrange(1000)
    return Edit("comment", path, False)


def e_key_order(p, rng):
    """reverse the order of the keys of a recipe/class mapping and of its variable/tool lists"""
    path, d = _pick(p, rng, lambda d: len(d) > 1)
    if d is None:
        return None
    items = list(d.items())
    items.reverse()
    d.clear()
    d.update(items)
    for k in list(d):
        if k.endswith(("Vars", "VarsWeak", "Tools", "ToolsWeak")) and isinstance(d[k], list):
            d[k] = list(reversed(d[k]))
        if k in ("provideTools", "metaEnvironment") and isinstance(d[k], dict):
            d[k] = dict(reversed(list(d[k].items())))
    return Edit("key-order", path, False)


def e_flags(p, rng):
    """settings that are not part of any id: network access, job server, relocatable, audit files"""
    path, d = _pick(p, rng, lambda d: "multiPackage" not in d)
    k = rng.choice(["buildNetAccess", "packageNetAccess", "jobServer", "relocatable", "buildAuditFiles"])
    if k == "buildAuditFiles":
        d[k] = {"log%d" % rng.randrange(5): "out.log"}
    else:
        d[k] = not d.get(k, False)
    return Edit("flag", path, False, k)


def e_vars_list(p, rng):
    """add / remove a variable of a {stage}Vars list, or move it between Vars and VarsWeak"""
    path, d = _pick(p, rng, lambda d: "multiPackage" not in d)
    stage = rng.choice(STAGES)
    k, kw = stage + "Vars", stage + "VarsWeak"
    mode = rng.random()
    if mode < 0.4:
        v = rng.choice(VARS)
        if v in d.get(k, []):
            d[k].remove(v)
            return Edit("vars-remove", path, None, "%s %s" % (k, v))
        d.setdefault(k, []).append(v)
        return Edit("vars-add", path, None, "%s %s" % (k, v))
    if mode < 0.7 and d.get(k):
        v = rng.choice(d[k])
        d[k].remove(v)
        d.setdefault(kw, []).append(v)
        return Edit("vars-strong-to-weak", path, None, "%s %s" % (k, v))
    if d.get(kw):
        v = rng.choice(d[kw])
        if v in WEAK_ONLY:
            return None
        d[kw].remove(v)
        d.setdefault(k, []).append(v)
        return Edit("vars-weak-to-strong", path, None, "%s %s" % (kw, v))
    return None


def e_tool_def(p, rng):
    path, d = _pick(p, rng, lambda d: d.get("provideTools"))
    if d is None:
        return None
    n = rng.choice(sorted(d["provideTools"]))
    t = d["provideTools"][n]
    if isinstance(t, str):
        t = d["provideTools"][n] = {"path": t}
    what = rng.choice(["path", "libs", "libs-order", "environment"])
    if what == "path":
        t["path"] = t["path"] + "/e%d" % rng.randrange(10)
    elif what == "libs":
        t["libs"] = list(t.get("libs", [])) + ["lib%d" % rng.randrange(10)]
    elif what == "libs-order":
        if len(t.get("libs", [])) < 2 or t["libs"][0] == t["libs"][-1]:
            return None
        t["libs"] = list(reversed(t["libs"]))
    else:
        t.setdefault("environment", {})["TE_" + n.upper()] = "e%d" % rng.randrange(10)
    return Edit("tool-" + what, path, None, n)


def e_tools_list(p, rng):
    path, d = _pick(p, rng, lambda d: "multiPackage" not in d)
    stage = rng.choice(STAGES)
    k = stage + rng.choice(["Tools", "ToolsWeak"])
    t = rng.choice(TOOLS)
    cur = [x if isinstance(x, str) else x["name"] for x in d.get(k, [])]
    if t in cur:
        d[k] = [x for x in d[k] if (x if isinstance(x, str) else x["name"]) != t]
        return Edit("tools-remove", path, None, "%s %s" % (k, t))
    d.setdefault(k, []).append(t)
    return Edit("tools-add", path, None, "%s %s" % (k, t))


def e_dep_edit(p, rng):
    path, d = _pick(p, rng, lambda d: d.get("depends"))
    if d is None:
        return None
    deps = d["depends"]
    what = rng.choice(["remove", "swap", "use", "env", "forward", "checkoutDep"])
    i = rng.randrange(len(deps))
    if what == "remove":
        name = deps[i] if isinstance(deps[i], str) else deps[i].get("name")
        if name in d.get("provideDeps", []):
            return None
        del deps[i]
    elif what == "swap":
        if len(deps) < 2:
            return None
        j = (i + 1) % len(deps)
        deps[i], deps[j] = deps[j], deps[i]
    else:
        if isinstance(deps[i], str):
            deps[i] = {"name": deps[i]}
        if "name" not in deps[i]:
            return None
        if what == "use":
            deps[i]["use"] = rng.choice([["result"], ["result", "deps"], ["result", "tools", "environment"], ["tools"],
                                         ["result", "deps", "sandbox"], ["environment"]])
        elif what == "env":
            deps[i].setdefault("environment", {})[rng.choice(VARS)] = "d%d" % rng.randrange(10)
        elif what == "forward":
            deps[i]["forward"] = not deps[i].get("forward", False)
        else:
            deps[i]["checkoutDep"] = not deps[i].get("checkoutDep", False)
    return Edit("dep-" + what, path, None)


def e_scm(p, rng):
    path, d = _pick(p, rng, lambda d: d.get("checkoutSCM"))
    if d is None:
        return None
    s = rng.choice(d["checkoutSCM"])
    k = rng.choice(sorted(k for k in s if k not in ("scm", "if")))
    v = s[k]
    if isinstance(v, bool):
        s[k] = not v
    elif isinstance(v, int):
        s[k] = v + 1
    elif k.startswith("digest") or k == "commit":
        s[k] = ("%x" % rng.getrandbits(4)) + v[1:]
    elif k == "dir":
        s[k] = v + "e"
    elif isinstance(v, str):
        s[k] = v + "e"
    else:
        return None
    # attributes that do not select what is checked out
    irrelevant = (s["scm"] == "git" and k in ("shallow", "singleBranch", "sslVerify", "retries")) or \
                 (s["scm"] == "url" and k in ("sslVerify", "retries")) or (s["scm"] == "import" and k == "prune")
    if s["scm"] == "git" and k == "url" and "commit" in s:
        irrelevant = True   # documented: a commit identifies the sources, the url is not part of the description
    if s["scm"] == "url" and k == "url" and any(x.startswith("digest") for x in s):
        irrelevant = None   # file name may follow the url
    return Edit("scm-" + s["scm"] + "-" + k, path, False if irrelevant else None)


def e_assert(p, rng):
    path, d = _pick(p, rng, lambda d: d.get("checkoutAssert"))
    if d is None:
        return None
    a = rng.choice(d["checkoutAssert"])
    k = rng.choice(["file", "digestSHA1", "start", "end"])
    if k in ("start", "end"):
        a[k] = int(a.get(k, 1)) + 1
    else:
        a[k] = a[k] + "0"
    return Edit("assert-" + k, path, None)


def e_inherit_order(p, rng):
    path, d = _pick(p, rng, lambda d: len(d.get("inherit", [])) >= 2)
    if d is None:
        return None
    d["inherit"] = list(reversed(d["inherit"]))
    return Edit("inherit-order", path, None)


def e_provide_sandbox(p, rng):
    path, d = _pick(p, rng, lambda d: d.get("provideSandbox"))
    if d is None:
        return None
    sb = d["provideSandbox"]
    what = rng.choice(["paths", "env", "mount"])
    if what == "paths":
        sb["paths"] = sb["paths"] + ["/e%d" % rng.randrange(10)]
    elif what == "env":
        sb.setdefault("environment", {})[rng.choice(SBVARS)] = "s%d" % rng.randrange(10)
    else:
        sb.setdefault("mount", []).append("/mnt/e%d" % rng.randrange(10))
    return Edit("sandbox-" + what, path, None)


def e_fingerprint(p, rng):
    path, d = _pick(p, rng, lambda d: "multiPackage" not in d)
    if "fingerprintScript" in d and rng.random() < 0.5:
        d["fingerprintScript"] = d["fingerprintScript"] + "\necho fp%d" % rng.randrange(10)
        return Edit("fingerprint-script", path, None)
    d["fingerprintIf"] = not (d.get("fingerprintIf") is True)
    d.setdefault("fingerprintScript", "echo host")
    return Edit("fingerprint-if", path, None)


EDITS = [e_script_text, e_script_text, e_script_placement, e_script_placement, e_script_add, e_include_content, e_var_value,
         e_var_value, e_weak_value, e_meta_value, e_comment, e_key_order, e_flags, e_vars_list, e_vars_list, e_tool_def,
         e_tools_list, e_dep_edit, e_dep_edit, e_scm, e_assert, e_inherit_order, e_provide_sandbox, e_fingerprint]
IRRELEVANT_EDITS = [e_weak_value, e_meta_value, e_comment, e_key_order, e_flags]


# ---------------------------------------------------------------------- generation

def _maybe(rng, p):
    return rng.random() < p


def _gen_scripts(rng, d, density, uses_query, path, allow_query=True):
    for stage in STAGES:
        for what, pr in (("Setup", 0.25), ("Script", 0.8), ("Finalize", 0.25)):
            if _maybe(rng, pr * density):
                s = rng.choice(SCRIPT_POOL)
                if allow_query and _maybe(rng, 0.03):
                    s = "echo $(is-sandbox-enabled)"   # not substituted in scripts: plain text
                d[stage + what] = s


def _gen_vars(rng, d, density):
    for stage in STAGES:
        if _maybe(rng, 0.45 * density):
            d[stage + "Vars"] = rng.sample(VARS, rng.randrange(1, 3))
        if _maybe(rng, 0.25 * density):
            d[stage + "VarsWeak"] = rng.sample(VARS + WEAK_ONLY + WEAK_ONLY, rng.randrange(1, 3))


def _gen_env(rng, names, n, conditional=True):
    out = {}
    for v in rng.sample(names, min(n, len(names))):
        val = rng.choice(VALUES)
        out[v] = {"value": val, "if": rng.choice(["${VB:-}", "$(eq,${VA:-1},1)", "true"])} \
            if conditional and _maybe(rng, 0.12) else val
    return out


def _gen_scm(rng, idx):
    kind = rng.choice(["git", "git", "url", "url", "import"])
    d = "s%d" % idx + rng.choice(["", "/sub"])
    if kind == "git":
        s = {"scm": "git", "url": rng.choice(["https://git.test/a.git", "https://git.test/b.git", "ssh://git.test/c"]), "dir": d}
        r = rng.random()
        if r < 0.25:
            s["branch"] = rng.choice(["main", "dev"])
        elif r < 0.5:
            s["tag"] = rng.choice(["v1", "v2"])
        elif r < 0.7:
            s["commit"] = rng.choice(["0123456789abcdef0123456789abcdef01234567", "89abcdef0123456789abcdef0123456789abcdef"])
        elif r < 0.8:
            s["rev"] = "refs/heads/" + rng.choice(["main", "x"])
        elif r < 0.95:
            # several references at once: what is checked out follows commit > tag > branch
            for k, vals in rng.sample([("branch", ["main", "dev"]), ("tag", ["v1", "v2"]),
                                       ("commit", ["0123456789abcdef0123456789abcdef01234567"])], rng.randrange(2, 4)):
                s[k] = rng.choice(vals)
        if _maybe(rng, 0.2):
            s["submodules"] = rng.choice([True, ["m1", "m2"]])
            if _maybe(rng, 0.5):
                s["recurseSubmodules"] = True
        if _maybe(rng, 0.2):
            s["shallow"] = 1
        if _maybe(rng, 0.15):
            s["if"] = "${VC:-}"
    elif kind == "url":
        s = {"scm": "url", "url": rng.choice(["https://dl.test/a.tgz", "https://dl.test/b.zip", "https://dl.test/c"]), "dir": d}
        r = rng.random()
        if r < 0.3:
            s["digestSHA1"] = rng.choice(["da39a3ee5e6b4b0d3255bfef95601890afd80709", "a9993e364706816aba3e25717850c26c9cd0d89d"])
        elif r < 0.6:
            s["digestSHA256"] = "e3b0c44298fc1c149afbf4c8996fb92427ae41e4649b934ca495991b7852b855"
        if _maybe(rng, 0.3):
            s["extract"] = rng.choice([False, True, "tar"])
        if _maybe(rng, 0.2):
            s["stripComponents"] = rng.randrange(0, 3)
        if _maybe(rng, 0.2):
            s["fileName"] = rng.choice(["x.bin", "y"])
    else:
        s = {"scm": "import", "url": rng.choice(["src/a", "src/b"]), "dir": d}
        if _maybe(rng, 0.3):
            s["prune"] = True
    return s


def _gen_tool(rng, name):
    if _maybe(rng, 0.3):
        return rng.choice(["bin", "usr/bin", "."])
    t = {"path": rng.choice(["bin", "usr/bin", "."])}
    if _maybe(rng, 0.7):
        t["libs"] = rng.sample(["lib", "usr/lib", "lib64"], rng.randrange(1, 3))
    if _maybe(rng, 0.3):
        t["environment"] = {"TE_" + name.upper(): rng.choice(["1", "x"])}
    if _maybe(rng, 0.2):
        t["fingerprintIf"] = True
        t["fingerprintScript"] = "echo tool-" + name
    if _maybe(rng, 0.1):
        t["netAccess"] = True
    return t


def gen_project(rng, size=8):
    """random project with about `size` recipe files"""
    p = Project()
    size = max(2, size)
    strict_tools = _maybe(rng, 0.35)
    p.config["policies"] = {"noUndefinedTools": strict_tools}
    if _maybe(rng, 0.4):
        p.default = {"environment": _gen_env(rng, VARS + WEAK_ONLY, 2, conditional=False)}
        if _maybe(rng, 0.3):
            p.default["whitelist"] = ["HOME_X"]
    for f, c in INC_FILES.items():
        p.files["recipes/" + f] = c
        p.files["classes/" + f] = c
    # classes
    ncls = rng.randrange(1, max(2, size // 2) + 1)
    for j in range(ncls):
        d = {}
        if j and _maybe(rng, 0.4):
            d["inherit"] = rng.sample(["c%d" % k for k in range(j)], rng.randrange(1, min(j, 2) + 1))
        _gen_scripts(rng, d, 0.5, p.uses_sandbox_query, "classes/c%d.yaml" % j)
        _gen_vars(rng, d, 0.8)
        if _maybe(rng, 0.3):
            d["environment"] = _gen_env(rng, VARS + WEAK_ONLY, 2)
        if _maybe(rng, 0.15):
            d["privateEnvironment"] = _gen_env(rng, VARS, 1)
        if _maybe(rng, 0.3) and not strict_tools:
            d[rng.choice(STAGES) + rng.choice(["Tools", "ToolsWeak"])] = rng.sample(TOOLS, rng.randrange(1, 3))
        if _maybe(rng, 0.12):
            d["fingerprintIf"] = rng.choice([True, "${VD:-}"])
            d["fingerprintScript"] = "echo cls-fp"
        if _maybe(rng, 0.12):
            d["checkoutSCM"] = [_gen_scm(rng, 8)]
        p.classes["c%d" % j] = d
    # recipes: r_i depends on r_k, k < i
    provides = {}   # package name -> {"tools": set, "sandbox": bool}
    pkgnames = []   # package names in creation order
    for i in range(size):
        stem = "r%d" % i
        multi = i > 0 and _maybe(rng, 0.15)
        leaves = []

        def body(d, top):
            if _maybe(rng, 0.55):
                d["inherit"] = rng.sample(sorted(p.classes), rng.randrange(1, min(len(p.classes), 3) + 1))
            _gen_scripts(rng, d, 1.0, p.uses_sandbox_query, "recipes/%s.yaml" % stem)
            if "packageScript" not in d and _maybe(rng, 0.7):
                d["packageScript"] = rng.choice(SCRIPT_POOL)
            _gen_vars(rng, d, 1.0)
            if _maybe(rng, 0.5):
                d["environment"] = _gen_env(rng, VARS + WEAK_ONLY, rng.randrange(1, 4))
            if _maybe(rng, 0.15):
                d["privateEnvironment"] = _gen_env(rng, VARS + WEAK_ONLY, 1)
            if _maybe(rng, 0.15):
                d["metaEnvironment"] = _gen_env(rng, META, 1)
            if _maybe(rng, 0.35):
                d["checkoutSCM"] = [_gen_scm(rng, k) for k in range(rng.randrange(1, 3))]
            if _maybe(rng, 0.12):
                d["checkoutAssert"] = [{"file": "s0/x.txt", "digestSHA1": "da39a3ee5e6b4b0d3255bfef95601890afd80709"}]
                if _maybe(rng, 0.5):
                    d["checkoutAssert"][0]["start"] = rng.randrange(1, 4)
            if _maybe(rng, 0.25):
                d["fingerprintIf"] = rng.choice([True, True, "${VD:-}", False])
                d["fingerprintScript"] = rng.choice(["echo host", "uname -m"])
                if _maybe(rng, 0.3):
                    d["fingerprintVars"] = ["VA"]
            if _maybe(rng, 0.1):
                d["packageDepends"] = True
            # dependencies
            deps, avail_tools = [], set()
            if pkgnames:
                for name in rng.sample(pkgnames, min(len(pkgnames), rng.randrange(0 if i < size - 1 else 2, 5))):
                    if _maybe(rng, 0.3):
                        deps.append(name)
                        continue
                    dep = {"name": name}
                    use = rng.choice([["result", "deps"], ["result"], ["result", "tools"], ["tools"], ["result", "deps", "environment"],
                                      ["result", "tools", "environment", "sandbox"], ["sandbox"], ["result", "deps", "tools", "sandbox"],
                                      ["result", "deps", "tools"], ["tools", "sandbox"], ["result", "tools", "environment"]])
                    if provides[name]["sandbox"] and _maybe(rng, 0.7) and "sandbox" not in use:
                        use = use + ["sandbox"]
                    if provides[name]["tools"] and _maybe(rng, 0.5) and "tools" not in use:
                        use = use + ["tools"]
                    dep["use"] = use
                    if _maybe(rng, 0.45):
                        dep["forward"] = True
                    if _maybe(rng, 0.25):
                        dep["environment"] = _gen_env(rng, VARS + WEAK_ONLY, 1)
                    if _maybe(rng, 0.12):
                        dep["if"] = rng.choice(["${VE:-1}", "$(eq,${VA:-},1)", "$(not,$(is-sandbox-enabled))"]) if _maybe(rng, 0.9) else "false"
                        if "is-sandbox-enabled" in dep["if"]:
                            p.uses_sandbox_query.add("recipes/%s.yaml" % stem)
                    if _maybe(rng, 0.1) and "result" in use:
                        dep["checkoutDep"] = True
                    if "tools" in use and "if" not in dep:
                        avail_tools |= provides[name]["tools"]
                    deps.append(dep)
            if deps:
                d["depends"] = deps
                if _maybe(rng, 0.12):
                    n0 = deps[0] if isinstance(deps[0], str) else deps[0]["name"]
                    d["provideDeps"] = [n0]
            tool_pool = sorted(avail_tools) if strict_tools else TOOLS
            for stage in STAGES:
                if tool_pool and _maybe(rng, 0.45):
                    d[stage + "Tools"] = rng.sample(tool_pool, rng.randrange(1, min(len(tool_pool), 3) + 1))
                if tool_pool and _maybe(rng, 0.25):
                    d[stage + "ToolsWeak"] = rng.sample(tool_pool, rng.randrange(1, min(len(tool_pool), 2) + 1))
            prov = {"tools": set(), "sandbox": False}
            if _maybe(rng, 0.5):
                names = rng.sample(TOOLS, rng.randrange(1, 4))
                d["provideTools"] = {n: _gen_tool(rng, n) for n in names}
                prov["tools"] = set(names)
            if _maybe(rng, 0.2):
                d["provideVars"] = _gen_env(rng, VARS, rng.randrange(1, 3))
            if _maybe(rng, 0.35):
                d["provideSandbox"] = {"paths": rng.choice([["/bin"], ["/bin", "/usr/bin"]])}
                if _maybe(rng, 0.5):
                    d["provideSandbox"]["environment"] = _gen_env(rng, SBVARS + VARS, 1)
                if _maybe(rng, 0.3):
                    d["provideSandbox"]["mount"] = ["/etc/resolv.conf", ["/a", "/b", ["nofail"]]]
                prov["sandbox"] = True
            if top and (i == size - 1 or _maybe(rng, 0.2)):
                d["root"] = True
            return prov

        if multi:
            d = {"multiPackage": {}}
            if _maybe(rng, 0.6):
                d["buildScript"] = rng.choice(SCRIPT_POOL)
            if _maybe(rng, 0.4):
                d["buildVars"] = rng.sample(VARS, 1)
            if _maybe(rng, 0.3):
                d["inherit"] = rng.sample(sorted(p.classes), 1)
            if i == size - 1:
                d["root"] = True
            for sub in rng.sample(["a", "b", "c"], 2):
                sd = {}
                prov = body(sd, False)
                d["multiPackage"][sub] = sd
                leaves.append(("%s-%s" % (stem, sub), prov))
        else:
            d = {}
            prov = body(d, True)
            leaves.append((stem, prov))
        p.recipes[stem] = d
        for n, prov in leaves:
            provides[n] = prov
            pkgnames.append(n)
    if _maybe(rng, 0.6):
        _add_reuse_motif(rng, p)
    return p


def _add_reuse_motif(rng, p):
    """one recipe reached several times in one graph under different environments: `u_lib` consumes the variable VU
    (declared, never defined by itself); `u_a` takes it as it is (VU unset), `u_b`/`u_c` set VU for it; the root lists
    them in random order (unset first / set first)"""
    stages = rng.sample(STAGES, rng.randrange(1, 3))
    lib = {"buildScript": rng.choice(["echo lib ${VU:-none}", "make lib"]), "packageScript": "cp -a $1/* ."}
    for st in stages:
        lib[st + "Vars"] = ["VU"]
    if "checkout" in stages or _maybe(rng, 0.3):
        lib["checkoutScript"] = "echo src"
    if _maybe(rng, 0.3):
        lib["buildVarsWeak"] = [rng.choice(WEAK_ONLY)]
    p.recipes["u_lib"] = lib
    users = ["u_a", "u_b"] + (["u_c"] if _maybe(rng, 0.4) else [])
    for k, u in enumerate(users):
        dep = "u_lib" if k == 0 else {"name": "u_lib", "environment": {"VU": rng.choice(["1", "2", "x y"])}}
        p.recipes[u] = {"depends": [dep], "buildScript": "use $2 # " + u, "packageScript": "true"}
        if _maybe(rng, 0.3):
            p.recipes[u]["packageDepends"] = True
    rng.shuffle(users)
    p.recipes["u_root"] = {"root": True, "depends": users, "buildScript": "link \"$@\"", "packageScript": "true"}


def witness_host_collision():
    """the project that reproduces F-C02-1 (undelimited host part): roots r1 and r2 consume (a in sandbox, b on host)
    and (a on host, b in sandbox)"""
    p = Project()
    p.recipes["sb"] = {"packageScript": "true", "provideSandbox": {"paths": ["/bin"]}}
    p.classes["fp"] = {"depends": [{"name": "sb", "use": ["sandbox"], "if": "${USE_SB}"}], "fingerprintIf": True,
                       "fingerprintScript": "echo x", "buildScript": "make", "packageScript": "cp"}
    p.recipes["a"] = {"inherit": ["fp"], "buildVars": ["WHO"], "environment": {"WHO": "a"}}
    p.recipes["b"] = {"inherit": ["fp"], "buildVars": ["WHO"], "environment": {"WHO": "b"}}
    p.classes["top"] = {"buildScript": "link $2 $3", "packageScript": "true"}
    p.recipes["r1"] = {"root": True, "inherit": ["top"], "depends": [{"name": "a", "environment": {"USE_SB": "1"}},
                                                                      {"name": "b", "environment": {"USE_SB": "0"}}]}
    p.recipes["r2"] = {"root": True, "inherit": ["top"], "depends": [{"name": "a", "environment": {"USE_SB": "0"}},
                                                                      {"name": "b", "environment": {"USE_SB": "1"}}]}
    return p


def witness_finalize_order():
    """the project that reproduces F-C02-2 (script vs finalize regrouping keeps the digest script)"""
    p = Project()
    p.classes["c1"] = {"buildScript": "echo P"}
    p.classes["c2"] = {"buildFinalize": "echo P"}
    p.recipes["r1"] = {"root": True, "inherit": ["c1"], "buildScript": "echo Q", "packageScript": "true"}
    p.recipes["r2"] = {"root": True, "inherit": ["c2"], "buildFinalize": "echo Q", "packageScript": "true"}
    return p


def witness_tool_host():
    """F-C02-3: a tool provider that differs only in its host (fingerprint) half"""
    p = Project()
    p.recipes["sb"] = {"packageScript": "true", "provideSandbox": {"paths": ["/bin"]}}
    p.recipes["tool"] = {"depends": [{"name": "sb", "use": ["sandbox"], "if": "${USE_SB}"}], "fingerprintIf": True,
                         "fingerprintScript": "echo x", "buildScript": "make", "packageScript": "cp",
                         "provideTools": {"t": "bin"}}
    p.classes["top"] = {"buildTools": ["t"], "buildScript": "use t", "packageScript": "true"}
    for n, v in (("r1", "1"), ("r2", "0")):
        p.recipes[n] = {"root": True, "inherit": ["top"],
                        "depends": [{"name": "tool", "environment": {"USE_SB": v}, "use": ["tools"]}]}
    return p


# ---------------------------------------------------------------------- loading with the real code

class Loaded:
    def __init__(self, recipe_set, package_set, root):
        self.recipes = recipe_set
        self.packages = package_set
        self.root = root

    def steps(self, cap=2000):
        """[(key, Step)] of every step reachable from the virtual root through arguments, tools and sandboxes
        (`Step.getAllDepSteps`), key = 'stack/of/package:label'; stops after `cap` steps"""
        out, seen = [], set()
        todo = [d for d in self.root.getDirectDepSteps()]
        todo.reverse()
        while todo and len(out) < cap:
            s = todo.pop()
            key = "/".join(s.getPackage().getStack()) + ":" + s.getLabel()
            if key in seen:
                continue
            seen.add(key)
            out.append((key, s))
            deps = s.getAllDepSteps()
            todo.extend(reversed(deps))
        return out


def load_project(root, sandbox=False, defines=None, stable_paths=None):
    """parse the project in directory `root` with the real RecipeSet and generate its packages.
    Changes the working directory (Bob works relative to cwd).  Raises bob.errors.ParseError."""
    from bob.input import RecipeSet
    os.chdir(root)
    rs = RecipeSet()
    rs.parse(defines or {})
    ps = rs.generatePackages(_name_formatter, sandbox, stable_paths)
    return Loaded(rs, ps, ps.getRootPackage())


def _name_formatter(step, states):
    return os.path.join("work", step.getPackage().getName().replace("::", "/"), step.getLabel())
