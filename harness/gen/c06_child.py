"""C06 child process: runs the REAL `bob dev` (LocalBuilder.cook) in-process on a real asyncio
selector loop, with `LocalBuilder._runShell` replaced by an awaitable that the harness completes.

The loop is a subclass of asyncio.SelectorEventLoop whose `_run_once` detects quiescence (empty
ready queue, no timers, no readable descriptor).  Only then the next environment event of the
drawn schedule is released (a script finishes / fails, a child `make` takes or returns a job
server token).  Every executed loop handle that belongs to a task (or is the job server reader
callback) is recorded together with the events it produced (token acquire / release, script start /
end, `_setAlreadyRun`, task creation, task completion) and a snapshot of the scheduler state.

Must be a real file with a __main__ guard (Bob's process pool uses forkserver).

stdin:  one JSON object  {"cases": [case, ...], "out": path}
case:   {"dir": project dir, "argv": [...bob dev arguments...], "choices": [ints], "fail": [workspace paths],
         "env_takes": n, "makeflags": optional {"jobs": n, "tokens": k}}
out:    one JSON line per case
"""
import array
import asyncio
import fcntl
import json
import os
import selectors
import sys
import termios
import traceback

CTL = None
REPO = "/repo"


def fionread(fd):
    buf = array.array('i', [0])
    fcntl.ioctl(fd, termios.FIONREAD, buf)
    return buf[0]


class Deadlock(BaseException):
    pass


class Ctl:
    def __init__(self, case):
        self.case = case
        self.choices = list(case.get("choices", []))
        self.fail = set(case.get("fail", []))
        self.env_takes = int(case.get("env_takes", 0))
        self.active = False
        self.done = False
        self.builder = None
        self.sem = None
        self.sem_kind = None
        self.fds = None
        self.loop = None
        self.tasks = []          # asyncio.Task objects in creation order
        self.task_desc = []
        self.task_reported_done = set()
        self.running = []        # [(path, future, task index)]
        self.env_held = []       # token bytes taken by the "child make"
        self.trace = []          # items: {"k": "task"/"cb"/"env", ...}
        self.cur = None          # events of the handle being executed
        self.graph = None
        self.targets = None
        self.deadlock = False
        self.notes = []
        self.results = {}        # workspace path -> content written by the fake script

    # ------------------------------------------------------------ events
    def event(self, *ev):
        if not self.active:
            return
        if self.cur is None:
            # an event outside any recorded handle: keep it, it will show up as a disagreement
            self.trace.append({"k": "stray", "ev": [list(ev)]})
        else:
            self.cur.append(list(ev))

    def task_index(self, task):
        for i, t in enumerate(self.tasks):
            if t is task:
                return i
        return None

    def snapshot(self):
        s = {}
        try:
            sem = self.sem
            if self.sem_kind == "job":
                s["w"] = sem._JobServerSemaphore__waitersCnt
                s["a"] = sem._JobServerSemaphore__acquired
                s["tk"] = len(sem._JobServerSemaphore__tokens)
                s["pipe"] = fionread(self.fds[0])
                try:
                    key = self.loop._selector.get_key(self.fds[0])
                    s["rd"] = bool(key.events & selectors.EVENT_READ) and key.data[0] is not None
                except KeyError:
                    s["rd"] = False
                s["envheld"] = len(self.env_held)
            elif self.sem_kind == "bounded":
                s["v"] = sem._value
            b = self.builder
            s["run"] = bool(b._LocalBuilder__running)
            s["err"] = len(b._LocalBuilder__buildErrors)
            s["locks"] = sorted(p for p, l in b._LocalBuilder__workspaceLocks.items() if l.locked())
            wr = b._LocalBuilder__wasRun
            ws = b._LocalBuilder__wasSkipped
            s["wasrun"] = sorted([p, bool(ws.get(p, False))] for p in wr)
            s["ncook"] = len(b._LocalBuilder__cookTasks)
            s["nbid"] = len(b._LocalBuilder__buildIdTasks)
        except AttributeError as e:
            s["unavailable"] = str(e)
        return s

    # ------------------------------------------------------------ handles
    def begin_handle(self, handle):
        if not self.active:
            return None
        cb = handle._callback
        owner = getattr(cb, "__self__", None)
        item = None
        if isinstance(owner, asyncio.Task):
            idx = self.task_index(owner)
            if idx is not None:
                item = {"k": "task", "t": idx, "ev": []}
        elif getattr(cb, "__name__", "") == "jobavailableCallback" or \
                getattr(cb, "__qualname__", "").endswith("jobavailableCallback"):
            item = {"k": "cb", "ev": []}
        if item is None:
            item = {"k": "other", "ev": []}
        self.cur = item["ev"]
        return item

    def end_handle(self, item):
        if item is None:
            return
        self.cur = None
        if item["k"] == "task":
            t = self.tasks[item["t"]]
            if t.done() and item["t"] not in self.task_reported_done:
                self.task_reported_done.add(item["t"])
                ok = (not t.cancelled()) and t.exception() is None
                item["ev"].append(["done", bool(ok)])
        if item["k"] == "other" and not item["ev"]:
            return
        item["s"] = self.snapshot()
        self.trace.append(item)

    # ------------------------------------------------------------ environment
    def next_choice(self):
        if self.choices:
            return self.choices.pop(0)
        return 0

    def on_idle(self):
        if not self.active or self.done:
            return
        opts = []
        for i in range(len(self.running)):
            opts.append(("fin", i))
        if self.sem_kind == "job":
            if self.env_takes > 0 and self.running and fionread(self.fds[0]) > 0:
                opts.append(("take",))
            if self.env_held:
                opts.append(("ret",))
        if not opts:
            self.deadlock = True
            raise Deadlock()
        c = self.next_choice()
        pick = opts[c % len(opts)]
        c //= len(opts)
        if pick[0] == "fin":
            batch = [pick[1]]
            if c % 4 == 0 and len(self.running) > 1:
                others = [i for i in range(len(self.running)) if i != pick[1]]
                batch.append(others[(c // 4) % len(others)])
            entries = [self.running[i] for i in batch]
            for e in entries:
                self.running.remove(e)
            for path, fut, tidx in entries:
                ok = path not in self.fail
                self.trace.append({"k": "env", "op": "fin", "t": tidx, "ok": ok, "path": path})
                fut.set_result(ok)
        elif pick[0] == "take":
            self.env_takes -= 1
            try:
                self.env_held.append(os.read(self.fds[0], 1))
                self.trace.append({"k": "env", "op": "take", "s": self.snapshot()})
            except BlockingIOError:
                pass
        else:
            os.write(self.fds[1], self.env_held.pop())
            self.trace.append({"k": "env", "op": "ret", "s": self.snapshot()})


class Loop(asyncio.SelectorEventLoop):
    def _run_once(self):
        ctl = CTL
        # quiescent: nothing ready, no timer, no readable descriptor.  Release environment events until
        # something can run again (a token taken by the "child make" wakes nobody).
        while ctl is not None and ctl.active and not ctl.done and not self._ready and not self._scheduled \
                and not self._selector.select(0):
            ctl.on_idle()
        super()._run_once()


class Policy(asyncio.DefaultEventLoopPolicy):
    _loop_factory = Loop


def describe_task(coro):
    """what a task created through LocalBuilder.__taskWrapper is going to do"""
    try:
        loc = coro.cr_frame.f_locals
        inner = loc.get("coro")
        key = loc.get("trackingKey")
        names = getattr(getattr(inner, "__code__", None), "co_names", ())
        if getattr(inner, "__name__", "") == "dispatcher":
            return {"kind": "disp"}
        dflt = getattr(inner, "__defaults__", None) or ()
        step = dflt[0] if dflt else loc.get("step")
        path = step.getWorkspacePath() if step is not None else None
        if "_cookTask" in names:
            return {"kind": "top", "path": path}
        if "_cookStep" in names:
            return {"kind": "cook", "path": path, "co": bool(key[2]) if key else None,
                    "sb": key[1].hex() if key and key[1] else None}
        if any(n.endswith("getBuildIdTask") for n in names):
            return {"kind": "bid", "path": path}
        return {"kind": "other", "names": list(names)[:5]}
    except Exception as e:  # noqa
        return {"kind": "unknown", "why": repr(e)}


def task_factory(loop, coro, **kw):
    task = asyncio.Task(coro, loop=loop, **kw)
    ctl = CTL
    if ctl is not None and ctl.active:
        d = describe_task(coro)
        ctl.tasks.append(task)
        ctl.task_desc.append(d)
        ctl.event("spawn", len(ctl.tasks) - 1, d.get("kind"), d.get("path"), d.get("co"))
    return task


def dump_graph(steps):
    """the step DAG as the builder sees it, hash-consed on (path, sandbox, dependency structure)"""
    nodes = []
    memo = {}

    def visit(step):
        deps = [visit(d) for d in step.getAllDepSteps()]
        sb = step.getSandbox() and step.getSandbox().getStep().getVariantId()
        tools = sorted(step.getTools().items(), key=lambda t: t[0])
        bid = [visit(a) for a in step.getArguments() if a.isValid()] + [visit(t.getStep()) for n, t in tools]
        kind = "checkout" if step.isCheckoutStep() else ("build" if step.isBuildStep() else "package")
        key = (step.getWorkspacePath(), sb, kind, tuple(deps), tuple(bid))
        if key in memo:
            return memo[key]
        nodes.append({"path": step.getWorkspacePath(), "vid": step.getVariantId().hex(), "sb": sb.hex() if sb else None,
                      "valid": bool(step.isValid()), "kind": kind, "deps": deps, "bid": bid,
                      "pkg": step.getPackage().getName()})
        memo[key] = len(nodes) - 1
        return memo[key]

    targets = [visit(s) for s in steps]
    return nodes, targets


def install():
    import bob.builder as bb
    from bob.errors import BuildError
    import asyncio.events as aev

    asyncio.set_event_loop_policy(Policy())

    # Bob primes a forkserver process pool for audit/archive work on every invocation.  Neither is used in
    # the driven configuration (--no-audit, no archive); a thread pool keeps the per-case cost small.
    import bob.utils
    import concurrent.futures
    bob.utils.getProcessPoolExecutor = lambda: concurrent.futures.ThreadPoolExecutor(max_workers=1)

    orig_run = aev.Handle._run

    def handle_run(self):
        ctl = CTL
        if ctl is None or not ctl.active:
            return orig_run(self)
        item = ctl.begin_handle(self)
        try:
            return orig_run(self)
        finally:
            ctl.end_handle(item)
    aev.Handle._run = handle_run

    LB = bb.LocalBuilder
    orig_cook = LB.cook

    def cook(self, steps, checkoutOnly, loop, depth=0):
        ctl = CTL
        if ctl is None or ctl.graph is not None or not steps:
            return orig_cook(self, steps, checkoutOnly, loop, depth)
        ctl.graph, ctl.targets = dump_graph(steps)
        ctl.builder = self
        ctl.loop = loop
        ctl.co0 = bool(checkoutOnly)
        loop.set_task_factory(task_factory)
        ctl.active = True
        try:
            return orig_cook(self, steps, checkoutOnly, loop, depth)
        finally:
            ctl.done = True
            ctl.active = False
            loop.set_task_factory(None)
    LB.cook = cook

    async def fake_run_shell(self, step, scriptName, logger, workspaceCreated, cleanWorkspace=None, mode=None):
        ctl = CTL
        path = step.getWorkspacePath()
        if not os.path.isdir(path):
            os.makedirs(path)
        tidx = ctl.task_index(asyncio.current_task())
        ctl.event("start", path)
        fut = asyncio.get_event_loop().create_future()
        ctl.running.append((path, fut, tidx))
        ok = await fut
        if not ok:
            ctl.event("end", path, False)
            raise BuildError("script of {} failed (injected)".format(path))
        # the result of a script is a function of its name and of the results of its inputs (valid arguments and
        # tools; the sandbox is an execution environment, not an input)
        ins = []
        tools = sorted(step.getTools().items(), key=lambda t: t[0])
        for d in [a for a in step.getArguments() if a.isValid()] + [t.getStep() for n, t in tools]:
            try:
                with open(os.path.join(d.getWorkspacePath(), "result.txt")) as f:
                    ins.append(f.read())
            except OSError:
                ins.append("missing")
        content = "%s(%s)" % (path, ",".join(ins))
        if scriptName == "package" or True:
            with open(os.path.join(path, "result.txt"), "w") as f:
                f.write(content)
        ctl.results[path] = content
        ctl.event("end", path, True)
    LB._runShell = fake_run_shell

    orig_set = LB._setAlreadyRun

    def set_already_run(self, step, isCheckoutStep, skipped=False):
        CTL.event("setrun", step.getWorkspacePath(), bool(skipped))
        return orig_set(self, step, isCheckoutStep, skipped)
    LB._setAlreadyRun = set_already_run

    JS = bb.JobServerSemaphore
    orig_init = JS.__init__

    def js_init(self, fds, recursive):
        orig_init(self, fds, recursive)
        ctl = CTL
        if ctl is not None:
            ctl.sem = self
            ctl.sem_kind = "job"
            ctl.fds = fds
            ctl.recursive = bool(recursive)
    JS.__init__ = js_init

    orig_acq = JS.acquire

    async def js_acquire(self):
        CTL.event("acq")
        await orig_acq(self)
        CTL.event("got")
    JS.acquire = js_acquire

    orig_rel = JS.release

    def js_release(self):
        try:
            orig_rel(self)
        except BaseException as e:
            CTL.event("rel", type(e).__name__)
            raise
        CTL.event("rel", None)
    JS.release = js_release

    class BSem(asyncio.BoundedSemaphore):
        def __init__(self, value=1):
            super().__init__(value)
            ctl = CTL
            if ctl is not None:
                ctl.sem = self
                ctl.sem_kind = "bounded"

        async def acquire(self):
            CTL.event("acq")
            await super().acquire()
            CTL.event("got")
            return True

        def release(self):
            try:
                super().release()
            except BaseException as e:
                CTL.event("rel", type(e).__name__)
                raise
            CTL.event("rel", None)
    asyncio.BoundedSemaphore = BSem


def run_case(case):
    global CTL
    from bob.cmds.build.build import doDevelop
    from bob.errors import BobError
    import bob.state
    ctl = CTL = Ctl(case)
    os.chdir(case["dir"])
    keep = None
    mf = case.get("makeflags")
    if mf:
        fifo = os.path.join(case["dir"], "jobserver.fifo")
        if os.path.exists(fifo):
            os.unlink(fifo)
        os.mkfifo(fifo)
        keep = os.open(fifo, os.O_RDWR | os.O_NONBLOCK)
        os.write(keep, b"+" * int(mf["tokens"]))
        os.environ["MAKEFLAGS"] = "-j%d --jobserver-auth=fifo:%s" % (int(mf["jobs"]), fifo)
    else:
        os.environ.pop("MAKEFLAGS", None)
    out = {"name": case.get("name")}
    saved = os.dup(1), os.dup(2)
    devnull = os.open(os.devnull, os.O_WRONLY)
    os.dup2(devnull, 1)
    if not os.environ.get("C06_DEBUG"):
        os.dup2(devnull, 2)
    try:
        try:
            doDevelop(case["argv"], REPO)
            out["result"] = "ok"
        except Deadlock:
            out["result"] = "deadlock"
        except BobError as e:
            out["result"] = "fail"
            out["slogan"] = str(getattr(e, "slogan", e))[:300]
        except BaseException as e:  # noqa
            out["result"] = "exception"
            out["slogan"] = "%s: %s" % (type(e).__name__, e)
            out["tb"] = traceback.format_exc()[-2000:]
    finally:
        os.dup2(saved[0], 1)
        os.dup2(saved[1], 2)
        for fd in saved + (devnull,):
            os.close(fd)
    jobs = 1
    if mf:
        jobs = int(mf["jobs"])
    if "-j" in case["argv"]:
        jobs = int(case["argv"][case["argv"].index("-j") + 1])
    out["case"] = {"argv": case["argv"], "jobs": jobs, "pipe0": (int(mf["tokens"]) if mf and "-j" not in case["argv"] else jobs),
                   "choices": case.get("choices"), "fail": case.get("fail"), "env_takes": case.get("env_takes", 0),
                   "makeflags": mf}
    out["graph"] = ctl.graph
    out["targets"] = ctl.targets
    out["co0"] = getattr(ctl, "co0", None)
    out["trace"] = ctl.trace
    out["tasks"] = ctl.task_desc
    out["sem"] = ctl.sem_kind
    out["recursive"] = getattr(ctl, "recursive", None)
    out["results"] = ctl.results
    out["left_running"] = [p for p, _, _ in ctl.running]
    if mf and keep is not None:
        out["fifo_end"] = fionread(keep)
        out["env_held_end"] = len(ctl.env_held)
        os.close(keep)
    if out["result"] == "deadlock":
        return out, True
    try:
        bob.state.finalize()
    except BaseException as e:  # noqa
        out["finalize"] = repr(e)
        return out, True
    CTL = None
    return out, False


def main():
    global REPO
    req = json.load(sys.stdin)
    REPO = req.get("repo", "/repo")
    sys.path.insert(0, os.path.join(REPO, "pym"))
    install()
    done = 0
    with open(req["out"], "a") as f:
        for case in req["cases"]:
            try:
                out, poisoned = run_case(case)
            except BaseException as e:  # noqa
                out, poisoned = {"name": case.get("name"), "result": "harness-error",
                                 "slogan": traceback.format_exc()[-3000:]}, True
            f.write(json.dumps(out) + "\n")
            f.flush()
            done += 1
            if poisoned:
                # interpreter state (BobState singleton, loop) is not trustworthy any more: let the parent respawn
                os._exit(3)
    os._exit(0)


if __name__ == "__main__":
    main()
