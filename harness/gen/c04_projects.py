"""Generator of Bob projects that are rich in shared sub-recipes, and of edit histories over them (C04).

A project is a plain dict (see `gen_project`) that `render` turns into files.  The recipes form a layered DAG:

  tp*  tool providers (tool path/libs/environment depend on variables, the provider's own variant does not)
  sb*  sandbox providers (different paths / environment)
  l*   leaves: read a few variables (all forms of the substitution language), use tools (strong / weak)
  m*   middle recipes: depend on leaves and lower middle recipes, per-dependency `environment:` overrides,
       conditions, tool remapping, `forward`, `use`, aliases, `inherit: False`
  r*   roots: pick a tool provider variant and a sandbox, then depend on the same middle recipes under
       environments that differ from each other in exactly one key

so the same recipe is reached many times under inputs that differ in exactly one read or one unread key.
Every random choice comes from the `random.Random` passed in.
"""
import copy
import os

VARS = ["VA", "VB", "VC", "VD", "VE"]
EXTRA = ["LV", "SBV", "TENV"]          # tool libs selector, sandbox provided, tool provided
VALUES = ["", "0", "1", "x", "yy", "a b", "\u00e4\u20ac"]
TOOLS = ["t0", "t1", "t2"]


def tmpl(r, vars_):
    """a substitution template over `vars_` that never fails for unset variables"""
    v = r.choice(vars_)
    k = r.random()
    if k < 0.22:
        return "${%s:-d}" % v
    if k < 0.40:
        return "${%s-u}" % v                    # distinguishes unset from empty
    if k < 0.52:
        return "${%s:+s}" % v
    if k < 0.62:
        return "${%s+p}" % v                    # uses only `in`
    if k < 0.72:
        w = r.choice(vars_)
        return "${%s:-}-${%s:-}" % (v, w)
    if k < 0.80:
        return "$(eq,${%s:-},x)" % v
    if k < 0.86:
        w = r.choice(vars_)
        return "$(if-then-else,${%s:-0},${%s:-t},e)" % (v, w)   # reads w only if v is true
    if k < 0.92:
        return "$(is-sandbox-enabled)"
    return r.choice(["lit", "", "0"])


def cond(r, vars_):
    k = r.random()
    if k < 0.5:
        return "${%s:-}" % r.choice(vars_)
    if k < 0.7:
        return "$(eq,${%s:-},%s)" % (r.choice(vars_), r.choice(["x", "1", ""]))
    if k < 0.85:
        return "$(is-sandbox-enabled)"
    return "$(is-tool-defined,%s)" % r.choice(TOOLS)


def gen_leaf(r, name, p):
    allv = VARS + EXTRA
    rec = {"packageScript": "echo %s" % name}
    nread = r.randrange(0, 3)
    reads = r.sample(VARS, nread)
    if r.random() < 0.45:
        reads.append(r.choice(EXTRA + ["SBV"]))
    if r.random() < 0.6:
        rec["environment"] = {"X_" + name.upper(): tmpl(r, allv)}
        reads.append("X_" + name.upper())
    if r.random() < 0.3:
        rec["privateEnvironment"] = {"P_" + name.upper(): tmpl(r, allv)}
        reads.append("P_" + name.upper())
    if reads:
        rec["packageVars"] = sorted(set(reads))
    if r.random() < 0.25:
        rec["packageVarsWeak"] = [r.choice(VARS)]
    if r.random() < 0.4:
        rec["buildScript"] = "echo build %s" % name
        if r.random() < 0.6:
            rec["buildVars"] = [r.choice(VARS)]
    if r.random() < 0.2:
        rec["checkoutScript"] = "echo co %s" % name
        rec["checkoutDeterministic"] = True
        if r.random() < 0.5:
            rec["checkoutVars"] = [r.choice(VARS)]
    k = r.random()
    if k < 0.35:
        rec["packageTools"] = [r.choice(TOOLS[:2])]
    elif k < 0.5:
        rec["packageToolsWeak"] = [r.choice(TOOLS[:2])]
    elif k < 0.6:
        rec["buildTools"] = [{"name": r.choice(TOOLS[:2]), "if": cond(r, VARS)}]
        rec.setdefault("buildScript", "echo build %s" % name)
    if r.random() < 0.25:
        rec["provideVars"] = {"PV_" + name.upper(): tmpl(r, allv)}
    if r.random() < 0.2:
        rec["metaEnvironment"] = {"META": tmpl(r, VARS)}
    if r.random() < 0.15:
        rec["shared"] = True
    if r.random() < 0.3 and p["includes"]:
        bases = sorted(set(os.path.basename(n)[0] for n in p["includes"]))
        rec["packageScript"] += "\necho $<'../inc/%s*.txt'>" % r.choice(bases)
    if r.random() < 0.25 and p["classes"]:
        rec["inherit"] = [r.choice(sorted(p["classes"]))]
    if r.random() < 0.12:
        rec["fingerprintScript"] = "echo fp-%s" % name
        rec["fingerprintIf"] = r.choice([True, "${VA:-}"])
    return rec


def gen_dep(r, target, p, lower_tools=True):
    if r.random() < 0.3:
        return target
    d = {"name": target}
    k = r.random()
    if k < 0.45:
        d["environment"] = {r.choice(VARS): r.choice(VALUES)}
    elif k < 0.55:
        d["environment"] = {r.choice(VARS): tmpl(r, VARS)}
    if r.random() < 0.2:
        d["if"] = cond(r, VARS)
    if r.random() < 0.25:
        d["use"] = r.choice([["result"], ["result", "deps"], ["result", "environment"], ["result", "deps", "environment", "tools"]])
    if r.random() < 0.15:
        d["forward"] = True
    if r.random() < 0.1 and lower_tools:
        a, b = r.sample(TOOLS[:2], 2)
        d["tools"] = {a: b}
    if r.random() < p["opts"]["inherit_false"]:
        d["inherit"] = False
    if r.random() < 0.08:
        d["alias"] = target + "-al"
    if r.random() < 0.1:
        d["checkoutDep"] = True
    return d


def dep_name(d):
    return d if isinstance(d, str) else d.get("alias", d["name"])


def gen_mid(r, name, lower, p):
    rec = gen_leaf(r, name, p)
    n = r.randrange(1, min(3, len(lower)) + 1)
    deps = [gen_dep(r, t, p) for t in r.sample(lower, n)]
    rec["depends"] = deps
    if r.random() < 0.12:
        rec["provideDeps"] = [dep_name(r.choice(deps))]
    return rec


def gen_project(r, inherit_false=0.06):
    p = {"opts": {"inherit_false": inherit_false},
         "config": {"bobMinimumVersion": r.choice(["1.0", "1.0", "0.25"])},
         "default": {"environment": {v: r.choice(VALUES) for v in r.sample(VARS, r.randrange(1, 4))}},
         "opt": None, "cfg": {}, "classes": {}, "recipes": {}, "includes": {}}
    if r.random() < 0.6:
        p["default"]["include"] = ["opt"]
        if r.random() < 0.5:
            p["opt"] = {"environment": {r.choice(VARS): r.choice(VALUES)}}
    p["cfg"]["c1"] = {"environment": {r.choice(VARS): r.choice(VALUES)}}
    if r.random() < 0.7:
        p["includes"]["inc/f0.txt"] = "f0-%d" % r.randrange(100)
        if r.random() < 0.5:
            p["includes"]["inc/g0.txt"] = "g0-%d" % r.randrange(100)
    for i in range(r.randrange(0, 3)):
        cls = {"environment": {"C%d" % i: tmpl(r, VARS)}, "packageVars": ["C%d" % i]}
        if r.random() < 0.4:
            cls["packageTools"] = [r.choice(TOOLS[:2])]
        p["classes"]["c%d" % i] = cls
    # tool providers: the tool depends on LV / VA, the providing package does not
    for i in range(2):
        p["recipes"]["tp%d" % i] = {
            "packageScript": "echo tp%d" % i,
            "provideTools": {
                "t0": {"path": "bin", "libs": ["lib/${LV:-l}"]},
                "t1": {"path": "${LV:+alt}bin", "environment": {"TENV": "te%d-${VA:-}" % i}},
            }}
    # a provider of an extra tool that hardly any recipe uses: roots with and without it reach the shared recipes under
    # tool sets that differ in one unread name
    p["recipes"]["tpx"] = {"packageScript": "echo tpx", "provideTools": {"t2": "."}}
    for i in range(2):
        p["recipes"]["sb%d" % i] = {
            "packageScript": "echo sb%d" % i,
            "provideSandbox": {"paths": ["/bin%d" % i], "environment": {"SBV": "sb%d" % i}}}
    nl, nm, nr = r.randrange(2, 5), r.randrange(2, 5), r.randrange(2, 4)
    leaves = ["l%d" % i for i in range(nl)]
    for n in leaves:
        p["recipes"][n] = gen_leaf(r, n, p)
    mids = []
    for i in range(nm):
        n = "m%d" % i
        p["recipes"][n] = gen_mid(r, n, leaves + mids, p)
        mids.append(n)
    shared = leaves + mids
    # the roots: root 0 fixes (tool provider, LV, sandbox, environment overrides, picked recipes); every further
    # root differs from it in exactly ONE of these dimensions (or in none), so the shared recipes are reached under
    # inputs that differ in exactly one read or unread key, one tool, or the sandbox
    base = {"tp": "tp0", "lv": r.choice([None, "a"]), "sb": r.choice([None, "sb0", "sb0"]), "extra": r.random() < 0.5,
            "over": {v: r.choice(VALUES) for v in r.sample(VARS, r.randrange(0, 3))},
            "picks": r.sample(shared, min(len(shared), r.randrange(2, 5)))}
    for i in range(nr):
        cfg = dict(base, over=dict(base["over"]))
        if i:
            dim = r.choice(["env", "env", "env", "sandbox", "sandbox", "tool", "lv", "lv", "none", "picks", "extra", "extra"])
            if dim == "env":
                v = r.choice(VARS)
                if v in cfg["over"] and r.random() < 0.3:
                    del cfg["over"][v]
                else:
                    cfg["over"][v] = r.choice([x for x in VALUES if x != cfg["over"].get(v)])
            elif dim == "sandbox":
                cfg["sb"] = r.choice([x for x in (None, "sb0", "sb1") if x != base["sb"]])
            elif dim == "tool":
                cfg["tp"] = "tp1"
            elif dim == "lv":
                cfg["lv"] = r.choice([x for x in (None, "a", "b") if x != base["lv"]])
            elif dim == "picks":
                cfg["picks"] = r.sample(shared, min(len(shared), r.randrange(2, 5)))
            elif dim == "extra":
                cfg["extra"] = not base["extra"]
        deps = []
        tdep = {"name": cfg["tp"], "use": ["tools"], "forward": True}
        if cfg["lv"] is not None:
            tdep["environment"] = {"LV": cfg["lv"]}
        deps.append(tdep)
        if cfg["extra"]:
            deps.append({"name": "tpx", "use": ["tools"], "forward": True})
        if cfg["sb"]:
            deps.append({"name": cfg["sb"], "use": ["sandbox"], "forward": True})
        for t in cfg["picks"]:
            d = {"name": t}
            if cfg["over"]:
                d["environment"] = dict(cfg["over"])
            deps.append(d)
        p["recipes"]["r%d" % i] = {"root": True, "depends": deps, "packageScript": "echo r%d" % i}
    return p


def gen_invocation(r):
    inv = {"defines": {}, "config": [], "sandbox": r.random() < 0.5}
    if r.random() < 0.4:
        inv["defines"][r.choice(VARS)] = r.choice(VALUES)
    if r.random() < 0.3:
        inv["config"] = ["c1"]
    return inv


# ---------------------------------------------------------------------------------- rendering

def files_of(p):
    import yaml
    out = {"config.yaml": yaml.safe_dump(p["config"]), "default.yaml": yaml.safe_dump(p["default"])}
    if p["opt"] is not None:
        out["opt.yaml"] = yaml.safe_dump(p["opt"])
    for n, c in p["cfg"].items():
        out[n + ".yaml"] = yaml.safe_dump(c)
    for n, c in p["classes"].items():
        out["classes/%s.yaml" % n] = yaml.safe_dump(c)
    for n, c in p["recipes"].items():
        out["recipes/%s.yaml" % n] = yaml.safe_dump(c)
    for n, c in p["includes"].items():
        out[n] = c
    return out


class Clock:
    """strictly increasing mtimes: every write gets its own second (StatChanges holds by construction)"""

    def __init__(self):
        self.t = 1_600_000_000

    def next(self):
        self.t += 1
        return self.t


def sync_dir(root, files, old_files, clock, r=None):
    """bring `root` from `old_files` to `files`; only changed files are written"""
    for n in sorted(set(old_files) - set(files)):
        os.unlink(os.path.join(root, n))
    for n, c in sorted(files.items()):
        if old_files.get(n) == c:
            continue
        path = os.path.join(root, n)
        os.makedirs(os.path.dirname(path), exist_ok=True)
        if r is not None and r.random() < 0.5 and os.path.exists(path):
            tmp = path + ".new~"
            with open(tmp, "w", encoding="utf8") as f:
                f.write(c)
            os.replace(tmp, path)              # new inode
        else:
            with open(path, "w", encoding="utf8") as f:
                f.write(c)                     # same inode, possibly same size
        t = clock.next()
        os.utime(path, (t, t))
    os.makedirs(os.path.join(root, "recipes"), exist_ok=True)


# ---------------------------------------------------------------------------------- edits

EDIT_KINDS = ["recipe-script", "recipe-env", "recipe-vars", "recipe-dep-env", "recipe-dep-toggle", "class", "include-edit",
              "include-appear", "default-env", "opt-toggle", "opt-edit", "cfg-edit", "cfg-toggle", "define", "sandbox-toggle",
              "recipe-add", "recipe-remove", "requery", "tool-edit", "same-size",
              # inputs that reach the caches through the key only are edited more often
              "define", "define", "sandbox-toggle", "include-edit", "default-env"]


def edit(r, p, inv):
    """one random edit; returns (kind, new project, new invocation).  The inputs are not modified."""
    p, inv = copy.deepcopy(p), copy.deepcopy(inv)
    for _ in range(20):
        kind = r.choice(EDIT_KINDS)
        shared = sorted(n for n in p["recipes"] if n[0] in "lm")
        if kind == "requery":
            return kind, p, inv
        if kind == "recipe-script":
            n = r.choice(sorted(p["recipes"]))
            p["recipes"][n]["packageScript"] = "echo %s-%d" % (n, r.randrange(1000))
            return kind, p, inv
        if kind == "same-size":
            n = r.choice(sorted(p["recipes"]))
            s = p["recipes"][n].get("packageScript", "true")
            if s and s[-1].isdigit():
                p["recipes"][n]["packageScript"] = s[:-1] + str((int(s[-1]) + 1) % 10)
                return kind, p, inv
            continue
        if kind == "recipe-env" and shared:
            n = r.choice(shared)
            p["recipes"][n].setdefault("environment", {})["X_" + n.upper()] = tmpl(r, VARS + EXTRA)
            pv = set(p["recipes"][n].get("packageVars", []))
            pv.add("X_" + n.upper())
            p["recipes"][n]["packageVars"] = sorted(pv)
            return kind, p, inv
        if kind == "recipe-vars" and shared:
            n = r.choice(shared)
            pv = set(p["recipes"][n].get("packageVars", []))
            v = r.choice(VARS)
            pv.symmetric_difference_update({v})
            p["recipes"][n]["packageVars"] = sorted(pv)
            return kind, p, inv
        if kind == "recipe-dep-env":
            cands = [n for n in sorted(p["recipes"]) if p["recipes"][n].get("depends")]
            if not cands:
                continue
            n = r.choice(cands)
            deps = p["recipes"][n]["depends"]
            i = r.randrange(len(deps))
            d = deps[i] if isinstance(deps[i], dict) else {"name": deps[i]}
            if d.get("use") in (["tools"], ["sandbox"]):
                continue
            d.setdefault("environment", {})[r.choice(VARS)] = r.choice(VALUES)
            deps[i] = d
            return kind, p, inv
        if kind == "recipe-dep-toggle":
            cands = [n for n in sorted(p["recipes"]) if n[0] == "m"]
            if not cands:
                continue
            n = r.choice(cands)
            deps = p["recipes"][n]["depends"]
            lower = [x for x in shared if (x[0] == "l" or (x[0] == "m" and int(x[1:]) < int(n[1:])))
                     and x not in [dep_name(d) for d in deps] and x not in [(d if isinstance(d, str) else d["name"]) for d in deps]]
            if len(deps) > 1 and r.random() < 0.5:
                gone = deps.pop(r.randrange(len(deps)))
                if dep_name(gone) in p["recipes"][n].get("provideDeps", []):
                    del p["recipes"][n]["provideDeps"]
                return kind, p, inv
            if lower:
                deps.append(gen_dep(r, r.choice(lower), p))
                return kind, p, inv
            continue
        if kind == "class" and p["classes"]:
            n = r.choice(sorted(p["classes"]))
            p["classes"][n]["environment"] = {"C" + n[1:]: tmpl(r, VARS)}
            return kind, p, inv
        if kind == "include-edit" and p["includes"]:
            n = r.choice(sorted(p["includes"]))
            p["includes"][n] = "%s-%d" % (os.path.basename(n)[:2], r.randrange(100))
            return kind, p, inv
        if kind == "include-appear":
            # a second file matching an include glob appears / disappears
            for base in ("inc/f", "inc/g"):
                if base + "0.txt" in p["includes"]:
                    extra = base + "1.txt"
                    if extra in p["includes"]:
                        del p["includes"][extra]
                    else:
                        p["includes"][extra] = "extra-%d" % r.randrange(100)
                    return kind, p, inv
            continue
        if kind == "default-env":
            v = r.choice(VARS)
            env = p["default"].setdefault("environment", {})
            if v in env and r.random() < 0.4:
                del env[v]
            else:
                env[v] = r.choice(VALUES)
            return kind, p, inv
        if kind == "opt-toggle" and "include" in p["default"]:
            p["opt"] = None if p["opt"] is not None else {"environment": {r.choice(VARS): r.choice(VALUES)}}
            return kind, p, inv
        if kind == "opt-edit" and p["opt"] is not None:
            p["opt"]["environment"] = {r.choice(VARS): r.choice(VALUES)}
            return kind, p, inv
        if kind == "cfg-edit":
            p["cfg"]["c1"]["environment"] = {r.choice(VARS): r.choice(VALUES)}
            return kind, p, inv
        if kind == "cfg-toggle":
            inv["config"] = [] if inv["config"] else ["c1"]
            return kind, p, inv
        if kind == "define":
            v = r.choice(VARS)
            if v in inv["defines"] and r.random() < 0.4:
                del inv["defines"][v]
            else:
                inv["defines"][v] = r.choice(VALUES)
            return kind, p, inv
        if kind == "sandbox-toggle":
            inv["sandbox"] = not inv["sandbox"]
            return kind, p, inv
        if kind == "recipe-add":
            i = len([n for n in p["recipes"] if n[0] == "r"])
            if i >= 5 or not shared:
                continue
            deps = [{"name": "tp0", "use": ["tools"], "forward": True}]
            for t in r.sample(shared, min(len(shared), 2)):
                deps.append({"name": t, "environment": {r.choice(VARS): r.choice(VALUES)}})
            p["recipes"]["r%d" % i] = {"root": True, "depends": deps, "packageScript": "echo new root"}
            return kind, p, inv
        if kind == "recipe-remove":
            roots = sorted(n for n in p["recipes"] if n[0] == "r")
            if len(roots) <= 1:
                continue
            del p["recipes"][roots[-1]]
            return kind, p, inv
        if kind == "tool-edit":
            n = r.choice(["tp0", "tp1"])
            t = p["recipes"][n]["provideTools"]["t0"]
            t["libs"] = ["lib/${LV:-l}", "lib%d" % r.randrange(10)] if len(t["libs"]) == 1 else ["lib/${LV:-l}"]
            return kind, p, inv
    return "requery", p, inv
