"""Child process of the C14 real-build oracle (must be a real file: Bob's process pool uses forkserver).

usage: c14_bobrun.py <repo> <project dir> <plan.json> <report.json>

plan   = [{"writes": {relpath: text}, "remove": [relpath], "git": [{"path", "files", "msg"}],
           "wsedits": [{"recipe", "rel", "text"}], "args": [bob dev arguments]}, ...]
           git: commit files into a local repository (created on first use); wsedits: change a file inside the
           checkout workspace of a recipe (a developer's local modification)
report = {"bob": version, "invocations": [{"rc": "ok"|error text, "steps": [...]}, ...]}

After every invocation the package graph is re-parsed in-process (same recipe as `bob query-path`) and every
valid step of every package is described: ids of the step (ground truth from bob.input / bob.intermediate),
its dependency steps, a fresh hash of its workspace, and the audit trail found next to the workspace.
"""
import asyncio
import gc
import gzip
import hashlib
import io
import json
import os
import shutil
import sys


def main():
    repo, proj, plan_file, report_file = sys.argv[1:5]
    sys.path.insert(0, os.path.join(repo, "pym"))
    os.chdir(proj)
    import bob
    from bob import BOB_VERSION
    from bob.cmds.build.build import doDevelop
    from bob.errors import BobError
    import bob.state

    plan = json.load(open(plan_file))
    report = {"bob": BOB_VERSION, "invocations": []}
    prev_ids = {}
    last_steps = []

    # which steps does an invocation execute?  (observed from outside, no source hook)
    from bob.builder import LocalBuilder
    executed = []
    orig_run = LocalBuilder._runShell

    async def run_shell(self, step, scriptName, *a, **kw):
        executed.append([step.getWorkspacePath(), scriptName])
        return await orig_run(self, step, scriptName, *a, **kw)
    LocalBuilder._runShell = run_shell

    for inv in plan:
        del executed[:]
        for g in inv.get("git", []):
            git_commit(os.path.join(proj, g["path"]), g["files"], g["msg"])
        for e in inv.get("wsedits", []):
            for st in last_steps:
                if st["label"] == "src" and st["recipe"] == e["recipe"] and st["exists"]:
                    with open(os.path.join(proj, st["ws"], e["rel"]), "w") as f:
                        f.write(e["text"])
                    break
        for rel in inv.get("remove", []):
            p = os.path.join(proj, rel)
            if os.path.isdir(p):
                shutil.rmtree(p)
            elif os.path.lexists(p):
                os.unlink(p)
        for rel, text in inv.get("writes", {}).items():
            p = os.path.join(proj, rel)
            os.makedirs(os.path.dirname(p), exist_ok=True)
            with open(p, "w") as f:
                f.write(text)
        rc = "ok"
        try:
            doDevelop(list(inv["args"]), proj)
        except BobError as e:
            rc = "BobError: " + str(e)
        except SystemExit as e:
            if e.code not in (0, None):
                rc = "exit %r" % (e.code,)
        finally:
            bob.state.finalize()
        # the directory oracle of the build keeps a transaction on .bob-dev-dirs.sqlite3 open until it is collected
        gc.collect()
        try:
            steps = describe(proj, inv.get("sandbox", False), prev_ids)
        finally:
            bob.state.finalize()
            gc.collect()
        last_steps = steps
        report["invocations"].append({"rc": rc, "steps": steps, "executed": [list(x) for x in executed]})
        # publish what is known so far (the parent may stop this process when its time is up)
        with open(report_file + ".tmp", "w") as f:
            json.dump(report, f)
        os.replace(report_file + ".tmp", report_file)


def git(cwd, *args):
    import subprocess
    return subprocess.run(["git", "-c", "user.name=verif", "-c", "user.email=verif@example.org", "-c", "init.defaultBranch=master",
                           "-c", "protocol.file.allow=always"] + list(args), cwd=cwd, stdout=subprocess.PIPE,
                          stderr=subprocess.STDOUT, universal_newlines=True, check=True).stdout


def git_commit(path, files, msg):
    if not os.path.isdir(os.path.join(path, ".git")):
        os.makedirs(path, exist_ok=True)
        git(path, "init", "-q", "-b", "master")
    for rel, text in files.items():
        os.makedirs(os.path.dirname(os.path.join(path, rel)) or path, exist_ok=True)
        with open(os.path.join(path, rel), "w") as f:
            f.write(text)
    git(path, "add", "-A")
    git(path, "commit", "-q", "-m", msg)


def scm_state(ws, spec):
    """the actual state of one SCM checkout, determined without bob.scm.*Audit"""
    from bob.utils import hashDirectory
    typ, d, extra = spec
    if typ == "import":
        return {"type": "import", "dir": d, "url": extra.get("url"),
                "digest": {"algorithm": "sha1", "value": hashDirectory(os.path.join(ws, d)).hex()}}
    if typ == "url":
        with open(os.path.join(ws, d), "rb") as f:
            h = hashlib.sha1(f.read()).hexdigest()
        return {"type": "url", "dir": d, "digest": {"algorithm": "sha1", "value": h}, "url": extra.get("url")}
    if typ == "git":
        top = os.path.join(ws, d)
        remotes = {}
        for l in git(top, "remote", "-v").splitlines():
            if l.endswith("(fetch)"):
                name, url = l[:-8].split("\t")
                remotes[name] = url
        return {"type": "git", "dir": d, "remotes": remotes, "commit": git(top, "rev-parse", "HEAD").strip(),
                "dirty": bool(git(top, "status", "--porcelain", "--untracked-files=no").strip())}
    return {"type": typ}


def describe(proj, sandbox, prev_ids):
    import schema
    from bob.audit import Audit
    from bob.builder import LocalBuilder
    from bob.cmds.build.build import ExecutableStep, LazyIR
    from bob.input import RecipeSet
    from bob.utils import hashDirectory, getPlatformTag

    recipes = RecipeSet()
    recipes.defineHook('releaseNameFormatter', LocalBuilder.releaseNameFormatter)
    recipes.defineHook('developNameFormatter', LocalBuilder.developNameFormatter)
    recipes.defineHook('developNamePersister', None)
    recipes.parse({})
    # Directory names of develop mode: read the mapping the build has persisted (read only; the directory
    # oracle of the build may still hold its transaction on the database in this process).
    import sqlite3
    con = sqlite3.connect("file:.bob-dev-dirs.sqlite3?mode=ro", uri=True)
    try:
        dirs = dict(con.execute("SELECT key, dir FROM dirs"))
    finally:
        con.close()

    def fmt(step, props):
        return dirs.get(step.getPackage().getRecipe().getName().encode("utf8") + step.getVariantId())
    packages = recipes.generatePackages(LocalBuilder.makeRunnable(fmt), sandbox)

    hashes = {}

    def ws_hash(ws):
        if ws not in hashes:
            hashes[ws] = hashDirectory(ws).hex() if os.path.isdir(ws) else None
        return hashes[ws]

    def dep_steps(step):
        out = [(("tool", name), t.getStep()) for name, t in sorted(step.getTools().items())]
        sb = step.getSandbox()
        if sb is not None:
            out.append((("sandbox",), sb.getStep()))
        out += [(("arg",), a) for a in step.getArguments() if a.isValid()]
        return out

    def trans(step, acc):
        for _, d in dep_steps(step):
            key = (d.getVariantId().hex(), d.getLabel())
            if key not in acc:
                acc.add(key)
                trans(d, acc)
        return acc

    bids = {}

    async def bid(step):
        ws = step.getWorkspacePath()
        if step.isCheckoutStep():
            h = ws_hash(ws)
            return bytes.fromhex(h) if h else None
        if ws in bids:
            return bids[ws]

        async def calc(steps):
            out = []
            for s in steps:
                b = await bid(s)
                if b is None:
                    raise KeyError("missing")
                out.append(b)
            return out
        track = step.isPackageStep() and not step.isRelocatable()
        if not step._isFingerprinted() and not track:
            fp = b''
        elif step._isFingerprinted():
            return None   # fingerprint scripts are not generated
        else:
            import locale
            fp = hashlib.sha1(os.path.abspath(step.getExecPath()).encode(locale.getpreferredencoding(False), 'replace')).digest()
        try:
            r = await step.getDigestCoro(calc, fingerprint=fp, platform=getPlatformTag(), relaxTools=True)
        except KeyError:
            r = None
        bids[ws] = r
        return r

    # every package path (stack) under which a workspace is reachable: meta.package is one of them
    stacks = {}
    visited = set()

    def walk(pkg):
        key = tuple(pkg.getStack())
        if key in visited:
            return
        visited.add(key)
        for st in (pkg.getCheckoutStep(), pkg.getBuildStep(), pkg.getPackageStep()):
            if st.isValid() and st.getWorkspacePath() is not None:
                stacks.setdefault(st.getWorkspacePath(), set()).add("/".join(key))
        for dstep in pkg.getDirectDepSteps():
            walk(dstep.getPackage())
    for rstep in packages.getRootPackage().getDirectDepSteps():
        walk(rstep.getPackage())

    out = []
    seen = set()
    for pkg in packages.queryPackagePath("//*"):
        for step in (pkg.getCheckoutStep(), pkg.getBuildStep(), pkg.getPackageStep()):
            if not step.isValid():
                continue
            ws = step.getWorkspacePath()
            if ws is None:
                continue
            key = (ws, "/".join(pkg.getStack()))
            if key in seen:
                continue
            seen.add(key)
            d = {"ws": ws, "label": step.getLabel(), "vid": step.getVariantId().hex(), "pkg": "/".join(pkg.getStack()),
                 "recipe": pkg.getRecipe().getName(), "lang": pkg.getRecipe().scriptLanguage.index.value,
                 "metaEnv": dict(pkg.getMetaEnv()), "exists": os.path.isdir(ws), "hash": ws_hash(ws),
                 "args": [a.getVariantId().hex() for a in step.getArguments() if a.isValid()],
                 "tools": {n: t.getStep().getVariantId().hex() for n, t in step.getTools().items()},
                 "sandbox": step.getSandbox().getStep().getVariantId().hex() if step.getSandbox() is not None else None,
                 "trans": sorted(trans(step, set())), "scms": [], "audit": None, "audit_err": None,
                 "pkgs": sorted(stacks.get(ws, set()) | {"/".join(pkg.getStack())})}
            b = asyncio.run(bid(ExecutableStep.fromStep(step, LazyIR)))
            d["bid"] = b.hex() if b else None
            if step.isCheckoutStep() and d["exists"]:
                for scm in step.getScmList():
                    spec = scm.getAuditSpec()
                    if spec is not None:
                        try:
                            d["scms"].append(scm_state(ws, spec))
                        except Exception as e:  # noqa
                            d["scms"].append({"type": spec[0], "error": "%s: %s" % (type(e).__name__, e)})
            ap = os.path.join(os.path.dirname(ws), "audit.json.gz")
            d["audit_path"] = ap
            if os.path.lexists(ap):
                try:
                    with gzip.open(ap, "rb") as g:
                        tree = json.load(io.TextIOWrapper(g, encoding="utf8"))
                    d["audit"] = tree
                    try:
                        Audit.SCHEMA.validate(tree)
                        d["schema"] = "ok"
                    except schema.SchemaError as e:
                        d["schema"] = str(e)[-300:]
                    try:
                        d["rbi"] = [x.hex() for x in Audit.fromFile(ap).getReferencedBuildIds()]
                    except KeyError:
                        d["rbi"] = "keyerror"
                    aid = tree["artifact"].get("artifact-id")
                    d["regenerated"] = prev_ids.get(ap) != aid
                    prev_ids[ap] = aid
                except Exception as e:  # noqa
                    d["audit_err"] = "%s: %s" % (type(e).__name__, e)
            else:
                prev_ids.pop(ap, None)
            out.append(d)
    packages.close()      # the package graph cache keeps a read transaction open otherwise
    return out


if __name__ == "__main__":
    main()
