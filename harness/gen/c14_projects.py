"""C14 real-build oracle: small generated Bob projects, built by the real Bob in child processes
(gen/c14_bobrun.py), every audit trail compared with the ids of the step, the workspace and the dependency graph.

Self contained on purpose (a richer project generator belongs to C02)."""
import json
import os
import subprocess
import sys
import time

HERE = os.path.dirname(os.path.abspath(__file__))
RUNNER = os.path.join(HERE, "c14_bobrun.py")
JOBS = True         # parallel jobs inside one helper process (see c14_bobrun.py)
TRAILS = []          # trails of real builds for the model correspondence (iii)


# ------------------------------------------------------------------ project generator

def yaml_str(s):
    return json.dumps(s)


def recipe_yaml(rc):
    out = []
    if rc.get("root"):
        out.append("root: True")
    if rc.get("meta"):
        out.append("metaEnvironment:")
        for k, v in rc["meta"].items():
            out.append("    %s: %s" % (k, yaml_str(v)))
    if rc.get("deps") or rc.get("tooldeps") or rc.get("sandboxdep"):
        out.append("depends:")
        for d in rc.get("deps", []):
            out.append("    - %s" % d)
        for d in rc.get("tooldeps", []):
            out.append("    - name: %s\n      use: [tools]" % d)
        if rc.get("sandboxdep"):
            out.append("    - name: %s\n      use: [sandbox]\n      forward: True" % rc["sandboxdep"])
    if rc.get("import"):
        out.append("checkoutSCM:\n    scm: import\n    url: %s" % yaml_str(rc["import"]))
        if rc.get("importdir"):
            out.append("    dir: %s" % yaml_str(rc["importdir"]))
    if rc.get("url"):
        u = rc["url"]
        out.append("checkoutSCM:\n    scm: url\n    url: %s\n    extract: False" % yaml_str(u["url"]))
        if u.get("digest"):
            out.append("    digest%s: %s" % (u["digest"].upper(), yaml_str(u["value"])))
    if rc.get("git"):
        out.append("checkoutSCM:\n    scm: git\n    url: %s\n    branch: master" % yaml_str(rc["git"]["url"]))
    if rc.get("checkoutTools"):
        out.append("checkoutTools: [%s]" % ", ".join(rc["checkoutTools"]))
    if rc.get("checkoutScript"):
        if not rc.get("indet"):
            out.append("checkoutDeterministic: True")
        out.append("checkoutScript: |\n" + indent(rc["checkoutScript"]))
    if rc.get("buildTools"):
        out.append("buildTools: [%s]" % ", ".join(rc["buildTools"]))
    if rc.get("packageTools"):
        out.append("packageTools: [%s]" % ", ".join(rc["packageTools"]))
    if rc.get("buildScript") is not None:
        out.append("buildScript: |\n" + indent(rc["buildScript"]))
    if rc.get("multi"):
        out.append("multiPackage:")
        for name, ps in rc["multi"].items():
            out.append("    %s:\n        packageScript: |\n%s" % (name, indent(ps, 12)))
    else:
        out.append("packageScript: |\n" + indent(rc["packageScript"]))
    if rc.get("provideTools"):
        out.append("provideTools:")
        for t in rc["provideTools"]:
            out.append("    %s: \".\"" % t)
    if rc.get("provideSandbox"):
        out.append("provideSandbox:\n    paths: [\"/usr/local/bin\", \"/usr/bin\", \"/bin\", \"/usr/sbin\", \"/sbin\"]\n    mount:\n"
                   "        - /bin\n        - /etc\n        - /lib\n        - /usr\n        - /var\n        - [\"/run\", \"/run\", [nofail]]\n"
                   "        - [\"/lib32\", \"/lib32\", [nofail]]\n        - [\"/lib64\", \"/lib64\", [nofail]]\n        - [\"/opt\", \"/opt\", [nofail]]\n"
                   "        - [\"/venv\", \"/venv\", [nofail]]\n        - [\"/root\", \"/root\", [nofail]]")
    return "\n".join(out) + "\n"


def indent(s, n=4):
    return "\n".join(" " * n + l for l in s.rstrip("\n").split("\n")) + "\n"


BUILD = """\
if [ -d "$1" ]; then cat "$1"/*.txt > src.txt 2>/dev/null || true; fi
: > deps.txt
for i in "${@:2}"; do cat "$i"/result.txt >> deps.txt; done
%s
echo %s > own.txt
"""

PACKAGE = """\
cat "$1"/*.txt > result.txt
%s
"""


FLAVORS = ["cscript", "url", "archive", "git", "indet", "sandbox"]


def flavor_of(idx):
    return FLAVORS[idx % 6]


def apply_flavor(r, idx, recipes, files, names):
    """make sure every sixth project exercises one more kind of checkout (the rest stays random)"""
    import hashlib
    fl = flavor_of(idx)
    victim = recipes[r.choice(names)]
    name = victim["name"]

    def clear():
        for k in ("import", "importdir", "checkoutScript", "url", "git", "indet"):
            victim.pop(k, None)
        victim["buildScript"] = victim["buildScript"].replace('cat "$1"/sub/*.txt', 'cat "$1"/*.txt')
        for k in [k for k in files if k.startswith("src/%s/" % name)]:
            del files[k]
    if fl == "cscript":
        clear()
        victim["checkoutScript"] = "echo gen-%s-%d > gen.txt" % (name, r.randrange(1000))
    elif fl == "url":
        clear()
        text = "url source of %s #%d\n" % (name, r.randrange(1000))
        files["urlsrc/%s/main.txt" % name] = text
        kind = [None, "sha1", "sha256"][(idx // 6 + 1) % 3]
        victim["url"] = {"url": "@PROJ@/urlsrc/%s/main.txt" % name, "digest": kind,
                         "value": hashlib.new(kind, text.encode()).hexdigest() if kind else None}
    elif fl == "git":
        clear()
        victim["git"] = {"url": "@PROJ@/gitsrc/%s" % name, "files": {"main.txt": "git source of %s #%d\n" % (name, r.randrange(1000)),
                                                                      "inc/x.txt": "x\n"}}
    elif fl == "indet":
        clear()
        victim["checkoutScript"] = "echo indet-%s > gen.txt" % name
        victim["indet"] = True
        tools = [(n, rc["provideTools"][0]) for n, rc in recipes.items() if rc.get("provideTools") and n != name
                 and names.index(n) > names.index(name) and n not in victim.get("deps", []) and n not in victim.get("tooldeps", [])]
        if tools:
            t = r.choice(tools)
            victim.setdefault("tooldeps", []).append(t[0])
            victim["checkoutTools"] = [t[1]]
    return name


def gen_project(r, idx, sandbox=False):
    n = r.randrange(2, 6)
    names = ["r%d" % i for i in range(n)]
    recipes = {}
    files = {"config.yaml": 'bobMinimumVersion: "0.25"\n'}
    tools = {}       # recipe -> tool name
    for i in reversed(range(n)):
        name = names[i]
        rc = {"name": name, "root": i == 0 or (i == 1 and r.random() < 0.2)}
        lower = names[i + 1:]
        if lower:
            k = r.randrange(0, min(3, len(lower)) + 1)
            if i == 0 and k == 0:
                k = 1
            rc["deps"] = sorted(r.sample(lower, k))
            cand = [x for x in lower if x in tools and x not in rc["deps"]]
            if cand and r.random() < 0.7:
                t = r.choice(cand)
                rc["tooldeps"] = [t]
                rc[r.choice(["buildTools", "packageTools"])] = [tools[t]]
        k = r.random()
        if k < 0.5:
            rc["import"] = "src/" + name
            if r.random() < 0.3:
                rc["importdir"] = "sub"
            files["src/%s/main.txt" % name] = "source of %s #%d\n" % (name, r.randrange(1000))
            if r.random() < 0.5:
                files["src/%s/inc/other.txt" % name] = "other\n"
        elif k < 0.75:
            rc["checkoutScript"] = "echo gen-%s-%d > gen.txt" % (name, r.randrange(1000))
        if r.random() < 0.5:
            rc["meta"] = {"LICENSE": r.choice(["MIT", "GPL-2.0", ""]), "VER_%s" % name.upper(): str(r.randrange(10))}
        tooluse = ""
        if rc.get("buildTools"):
            tooluse = 'cat "${BOB_TOOL_PATHS[%s]}"/result.txt > tool.txt' % rc["buildTools"][0]
        srcglob = rc.get("importdir")
        build = BUILD % (tooluse, "%s-%d" % (name, r.randrange(1000)))
        if srcglob:
            build = build.replace('cat "$1"/*.txt', 'cat "$1"/%s/*.txt' % srcglob)
        rc["buildScript"] = build
        ptool = ""
        if rc.get("packageTools"):
            ptool = 'cat "${BOB_TOOL_PATHS[%s]}"/result.txt >> result.txt' % rc["packageTools"][0]
        rc["packageScript"] = PACKAGE % ptool
        if i > 0 and r.random() < 0.35:
            tools[name] = "t" + name
            rc["provideTools"] = [tools[name]]
        if i == n - 1 and n >= 3 and r.random() < 0.25 and name not in tools:
            rc["multi"] = {"a": PACKAGE % "echo a >> result.txt", "b": PACKAGE % "echo b >> result.txt"}
        recipes[name] = rc
    # multiPackage renames the packages: fix the references
    for rc in recipes.values():
        if rc.get("multi"):
            for other in recipes.values():
                if rc["name"] in other.get("deps", []):
                    other["deps"] = sorted(set(x for x in other["deps"] if x != rc["name"]) |
                                           {rc["name"] + "-" + r.choice(["a", "b"])} | ({rc["name"] + "-b"} if r.random() < 0.3 else set()))
    special = apply_flavor(r, idx, recipes, files, names)
    if sandbox:
        recipes["sbx"] = {"name": "sbx", "packageScript": "echo canary > canary.txt\n", "provideSandbox": True, "buildScript": None}
        for rc in recipes.values():
            if rc.get("root"):
                rc["sandboxdep"] = "sbx"
    for name, rc in recipes.items():
        files["recipes/%s.yaml" % name] = recipe_yaml(rc)
    roots = [rc["name"] for rc in recipes.values() if rc.get("root")]
    return {"idx": idx, "files": files, "recipes": recipes, "roots": roots, "sandbox": sandbox, "special": special}


def gen_plan(r, proj):
    """invocations: fresh build, then 1-2 incremental ones.  The first edit follows the flavor of the project
    (checkout re-executed with identical content, local modification of a url / git checkout, upstream commit, ...),
    the rest is random."""
    base = list(proj["roots"]) + (["--sandbox"] if proj["sandbox"] else [])
    fl = flavor_of(proj["idx"])
    recipes = proj["recipes"]
    sp = proj["special"]
    if r.random() < 0.3 and JOBS:
        base += ["-j", "3"]
    gits = [{"path": "gitsrc/" + n, "files": rc["git"]["files"], "msg": "init"} for n, rc in recipes.items() if rc.get("git")]
    if fl == "archive":
        # upload everything into a file archive, wipe the workspaces, build again from the downloaded dependencies
        files = dict(proj["files"])
        files["default.yaml"] = 'archive:\n    backend: file\n    path: "@ARCHIVE@"\n    flags: [download, upload]\n'
        return [{"writes": files, "git": gits, "args": base + ["--upload", "--download", "no"], "kind": "fresh", "sandbox": False},
                {"writes": {}, "remove": ["dev", ".bob-state.pickle"], "args": base + ["--download", r.choice(["deps", "yes"])],
                 "kind": "redownload", "sandbox": False}]
    plan = [{"writes": dict(proj["files"]), "git": gits, "args": base, "kind": "fresh", "sandbox": proj["sandbox"]}]
    names = [n for n in recipes if n != "sbx"]
    for step in range(r.randrange(1, 3)):
        inv = {"writes": {}, "args": list(base), "kind": "rerun", "sandbox": proj["sandbox"]}
        writes = inv["writes"]
        kinds = ["script", "source", "neutral", "meta", "cscript", "rerun"]
        if recipes[sp].get("url") or recipes[sp].get("git"):
            kinds += ["wsedit", "wsedit", "upstream"]
        k = r.choice(kinds)
        if step == 0:
            k = {"cscript": "cscript", "url": "wsedit", "git": r.choice(["wsedit", "upstream"]),
                 "indet": r.choice(["meta", "rerun", "script"])}.get(fl, k)
        imp = [n for n in names if recipes[n].get("import")]
        cs = [n for n in names if recipes[n].get("checkoutScript")]
        if k in ("source", "neutral") and not imp:
            k = "script"
        if k == "cscript" and not cs:
            k = "script"
        if k == "script":
            n = r.choice(names)
            recipes[n]["buildScript"] += "echo edit%d >> own.txt\n" % step
            writes["recipes/%s.yaml" % n] = recipe_yaml(recipes[n])
            inv["kind"] = "script:" + n
        elif k == "cscript":
            # the checkout is executed again (recipe changed) and yields the very same content
            n = sp if sp in cs and step == 0 else r.choice(cs)
            recipes[n]["checkoutScript"] = "# comment %d\n" % step + recipes[n]["checkoutScript"]
            writes["recipes/%s.yaml" % n] = recipe_yaml(recipes[n])
            inv["kind"] = "cscript:" + n
        elif k == "source":
            n = r.choice(imp)
            writes["src/%s/main.txt" % n] = "changed %d in step %d\n" % (r.randrange(1000), step)
            inv["kind"] = "source:" + n
        elif k == "neutral":
            n = r.choice(imp)
            writes["src/%s/unused%d.dat" % (n, step)] = "not used %d\n" % r.randrange(1000)
            inv["kind"] = "neutral:" + n
        elif k == "meta":
            n = r.choice(names)
            recipes[n].setdefault("meta", {})["ADDED"] = "v%d" % step
            writes["recipes/%s.yaml" % n] = recipe_yaml(recipes[n])
            inv["kind"] = "meta:" + n
        elif k == "wsedit":
            # a developer changes the checked out source in the workspace
            inv["wsedits"] = [{"recipe": sp, "rel": "main.txt", "text": "locally modified %d in step %d\n" % (r.randrange(1000), step)}]
            inv["kind"] = "wsedit:" + sp
        elif k == "upstream":
            if recipes[sp].get("git"):
                inv["git"] = [{"path": "gitsrc/" + sp, "files": {"main.txt": "upstream commit %d\n" % step}, "msg": "c%d" % step}]
                inv["kind"] = "upstream:" + sp
            elif not recipes[sp]["url"].get("digest"):
                writes["urlsrc/%s/main.txt" % sp] = "new upstream file %d in step %d\n" % (r.randrange(1000), step)
                inv["kind"] = "upstream:" + sp
        if step > 0 and r.random() < 0.3:
            inv["args"] = inv["args"] + ["--no-audit"]
            inv["kind"] += "+noaudit"
        plan.append(inv)
    # directed history (mandatory for the flavors of the first wave, random otherwise): the recipe of a dependency
    # of the root changes, then the root alone is re-executed (`--no-deps --force`) while that dependency stays
    # stale.  Every step EXECUTED by that invocation must record its actual variant-id (ids of the current
    # recipes), see check_invocation.  Always the last invocation; the rng is consulted after everything else.
    root = proj["roots"][0]
    deps = recipes[root].get("deps", [])
    if deps and not proj["sandbox"] and (fl in ("cscript", "git", "indet") or r.random() < 0.3):
        d = r.choice(deps)
        n = d if d in recipes else d.rsplit("-", 1)[0]
        if n in recipes and recipes[n].get("buildScript") is not None:
            recipes[n]["buildScript"] += "echo nodeps%d >> own.txt\n" % r.randrange(1000)
            plan.append({"writes": {"recipes/%s.yaml" % n: recipe_yaml(recipes[n])}, "args": list(base) + ["-n", "-f"],
                         "kind": "nodeps:" + n, "sandbox": proj["sandbox"], "nodeps": True})
    return plan


# ------------------------------------------------------------------ checking one report

def closure_of(rec, by_id, refs_of):
    seen, todo = set(), list(refs_of(rec))
    while todo:
        i = todo.pop()
        if i in seen:
            continue
        seen.add(i)
        if i in by_id:
            todo.extend(refs_of(by_id[i]))
    return seen


def check_invocation(inv, plan_inv, bobver, strict_presence, spec_id, refs_of):
    """yields (signature, what, step description)"""
    if inv["rc"] != "ok":
        yield ("build-failed", "bob dev failed: %s" % inv["rc"], None)
        return
    by_ws = {}
    for s in inv["steps"]:
        by_ws.setdefault(s["ws"], []).append(s)
    executed = {x[0] for x in inv.get("executed", [])}
    audit_on = "--no-audit" not in plan_inv["args"]
    if plan_inv.get("nodeps"):
        # `--no-deps --force` after the recipe of a dependency changed: the dependencies are deliberately stale, a
        # step that was skipped legitimately keeps the trail of the run that produced its content (observation).
        # Judged: the steps executed by this invocation - their trail is the trail of this execution and records
        # the actual variant-id of the step (computed from the current recipes by Bob's own package graph).
        for ws, group in sorted(by_ws.items()):
            s = group[0]
            if ws not in executed or not s["exists"] or not audit_on:
                continue
            if s.get("audit_err"):
                yield ("audit-unreadable", "%s: %s" % (s["audit_path"], s["audit_err"]), s)
                continue
            if s["audit"] is None:
                if strict_presence:
                    yield ("audit-missing", "no audit trail next to %s although it was executed with audit" % ws, s)
                continue
            if not s.get("regenerated"):
                yield ("executed-step-kept-old-trail", "%s was executed by this invocation but its audit trail was not regenerated" % ws, s)
            got = s["audit"]["artifact"].get("variant-id")
            if not any(got == g["vid"] for g in group):
                yield ("audit-variant-id-differs", "%s (%s:%s) was executed by `bob dev %s` after the recipe of a dependency changed; "
                       "its trail records variant-id %s, the actual variant-id of the step is %s" %
                       (ws, s["pkg"], s["label"], " ".join(plan_inv["args"]), got, s["vid"]), s)
        return
    # current trail of every workspace, addressable by (variant-id, label)
    cur = {}
    for s in inv["steps"]:
        if s.get("audit"):
            cur[(s["vid"], s["label"])] = s["audit"]
    for ws, group in sorted(by_ws.items()):
        s = group[0]
        if not s["exists"]:
            continue
        if s.get("audit_err"):
            yield ("audit-unreadable", "%s: %s" % (s["audit_path"], s["audit_err"]), s)
            continue
        tree = s["audit"]
        if tree is None:
            if strict_presence:
                yield ("audit-missing", "no audit trail next to %s although every invocation ran with audit" % ws, s)
            continue
        if ws in executed and audit_on and not s.get("regenerated"):
            # truthful for every step executed by the last invocation: its trail must be the trail of this execution
            yield ("executed-step-kept-old-trail", "%s was executed by this invocation but its audit trail was not regenerated" % ws, s)
        art = tree["artifact"]
        by_id = {x.get("artifact-id"): x for x in tree["references"]}
        if s["schema"] != "ok":
            yield ("schema", "trail of %s violates Audit.SCHEMA: %s" % (ws, s["schema"]), s)
            continue
        bad = [x.get("artifact-id") for x in [art] + tree["references"] if spec_id(x) != x.get("artifact-id")]
        if bad:
            yield ("artifact-id-not-digest-of-content", "records %s of %s: artifact-id is not the digest of the content" % (bad, ws), s)
        missing = closure_of(art, by_id, refs_of) - set(by_id)
        if missing:
            yield ("trail-not-closed", "trail of %s misses records %s" % (ws, sorted(missing)), s)
            continue
        if art["variant-id"] != s["vid"]:
            yield ("variant-id", "trail of %s records variant-id %s, the step has %s" % (ws, art["variant-id"], s["vid"]), s)
        if art["result-hash"] != s["hash"]:
            yield ("result-hash", "trail of %s records result-hash %s, the workspace hashes to %s" % (ws, art["result-hash"], s["hash"]), s)
        if s.get("regenerated") and s["bid"] is not None and art["build-id"] != s["bid"]:
            yield ("build-id", "trail of %s records build-id %s, recomputed %s" % (ws, art["build-id"], s["bid"]), s)
        meta = art["meta"]
        want = {"bob": bobver, "recipe": s["recipe"], "step": s["label"], "language": s["lang"]}
        got = {k: meta.get(k) for k in want}
        pkgs = sorted(set(x for g in group for x in g["pkgs"]))
        if got != want or meta.get("package") not in pkgs:
            yield ("meta", "trail of %s records meta %s, expected %s and package in %s" % (ws, meta, want, pkgs), s)
        # metaEnvironment is not part of the variant-id: a change alone re-runs nothing, the trail keeps the
        # values of the run that produced the content (compared for regenerated trails only)
        if s.get("regenerated") and art.get("metaEnv", {}) != s["metaEnv"] and not any(art.get("metaEnv", {}) == g["metaEnv"] for g in group):
            yield ("metaEnv", "trail of %s records metaEnv %s, the package has %s" % (ws, art.get("metaEnv"), s["metaEnv"]), s)
        if s["label"] == "src" and not any("error" in x for x in s["scms"]):
            exp = s["scms"]
            got_scms = [{k: x.get(k) for k in e} for x, e in zip(art["scms"], exp)] if len(art["scms"]) == len(exp) else art["scms"]
            if got_scms != exp:
                yield ("scm-state", "trail of %s records scms %s, the actual checkout is %s" % (ws, art["scms"], exp), s)
        # direct dependencies, resolved to variant ids through the trail's own records
        deps = art["dependencies"]

        def vid_of(i):
            return by_id[i]["variant-id"]
        got_args = [vid_of(i) for i in deps.get("args", [])]
        got_tools = {n: vid_of(i) for n, i in deps.get("tools", {}).items()}
        got_sb = vid_of(deps["sandbox"]) if "sandbox" in deps else None
        if (got_args, got_tools, got_sb) != (s["args"], s["tools"], s["sandbox"]):
            yield ("direct-dependencies", "trail of %s records args/tools/sandbox %s, the step uses %s" %
                   (ws, (got_args, got_tools, got_sb), (s["args"], s["tools"], s["sandbox"])), s)
        if s.get("regenerated"):
            # a trail written by this invocation took the records of its direct dependencies from their current
            # trails, and its reference set is the union of theirs
            dep_keys = [(v, None) for v in s["args"]] + [(v, None) for v in s["tools"].values()] + ([(s["sandbox"], None)] if s["sandbox"] else [])
            dep_ids = list(deps.get("args", [])) + [deps["tools"][n] for n in s["tools"] if n in deps.get("tools", {})] + \
                ([deps["sandbox"]] if "sandbox" in deps else [])
            union, complete = set(), len(dep_ids) == len(dep_keys)
            for (v, _), i in (zip(dep_keys, dep_ids) if complete else []):
                dtree = next((t for (vv, _l), t in cur.items() if vv == v), None)
                if dtree is None:
                    complete = False
                    continue
                if dtree["artifact"]["artifact-id"] != i:
                    yield ("direct-dependency-record-not-current", "trail of %s refers to record %s for dependency %s whose current trail is %s" %
                           (ws, i, v, dtree["artifact"]["artifact-id"]), s)
                union |= {x["artifact-id"] for x in dtree["references"]} | {dtree["artifact"]["artifact-id"]}
            if complete and union != set(by_id):
                yield ("references-not-union-of-current-dependency-trails", "trail of %s has records %s, its dependencies' trails give %s" %
                       (ws, sorted(by_id), sorted(union)), s)
        got_trans = sorted({(x["variant-id"], x["meta"].get("step")) for x in tree["references"]})
        if got_trans != sorted(tuple(x) for x in s["trans"]):
            yield ("references-not-transitive-dependencies", "trail of %s has records for %s, the transitive dependencies are %s" %
                   (ws, got_trans, s["trans"]), s)


def strip(s):
    if s is None:
        return None
    return {k: v for k, v in s.items() if k not in ("audit",)}


# ------------------------------------------------------------------ running

def launch(ctx, idx, sandbox, tmp):
    r = ctx.subrng("proj", idx)
    proj = gen_project(r, idx, sandbox)
    plan = gen_plan(r, proj)
    d = os.path.join(tmp, "p%d" % idx)
    os.makedirs(d, exist_ok=True)
    pf, rf = os.path.join(d, "plan.json"), os.path.join(d, "report.json")
    os.makedirs(os.path.join(d, "proj"), exist_ok=True)
    for inv in plan:
        for k in inv.get("writes", {}):
            inv["writes"][k] = inv["writes"][k].replace("@ARCHIVE@", os.path.join(d, "archive")).replace("@PROJ@", os.path.join(d, "proj"))
    json.dump(plan, open(pf, "w"))
    env = dict(os.environ)
    env["PYTHONDONTWRITEBYTECODE"] = "1"
    p = subprocess.Popen([sys.executable, RUNNER, ctx.repo, os.path.join(d, "proj"), pf, rf],
                         stdout=subprocess.DEVNULL, stderr=subprocess.PIPE, env=env, cwd=os.path.join(d, "proj"))
    return {"idx": idx, "p": p, "plan": plan, "report": rf, "t0": time.time(), "sandbox": sandbox, "dir": d}


def evaluate(ctx, job, spec_id, refs_of, stats):
    try:
        rep = json.load(open(job["report"]))
    except Exception:
        err = (job["p"].stderr.read() or b"").decode("utf8", "replace")[-1500:]
        if job["sandbox"]:
            ctx.skip("sandbox builds unavailable")
            return
        ctx.skip("a build helper did not finish")
        stats["helper_failed"] = stats.get("helper_failed", 0) + 1
        stats.setdefault("helper_errors", []).append(err[-300:])
        return
    strict = True
    for k, (inv, pinv) in enumerate(zip(rep["invocations"], job["plan"])):
        if "--no-audit" in pinv["args"]:
            strict = False
        found = list(check_invocation(inv, pinv, rep["bob"], strict, spec_id, refs_of))
        nsteps = 0
        for s in inv["steps"]:
            if s["exists"]:
                nsteps += 1
                ctx.case(("build", job["idx"], k, s["ws"], s["vid"], s["hash"]),
                         sample={"project": job["idx"], "invocation": pinv["kind"], "step": s["pkg"] + ":" + s["label"],
                                 "references": len(s["audit"]["references"]) if s.get("audit") else None} if s["trans"] else None,
                         nontrivial=bool(s["trans"]))
                ctx.count("build_step", s["label"] + (":audit" if s.get("audit") else ":noaudit"))
                if s.get("audit") and len(TRAILS) < 400 and s.get("regenerated") and not pinv.get("nodeps"):
                    TRAILS.append({"path": s["audit_path"], "tree": s["audit"], "rbi": s.get("rbi")})
        ctx.count("invocation", pinv["kind"].split(":")[0])
        stats["steps"] = stats.get("steps", 0) + nsteps
        for sig, what, s in found:
            if sig == "build-failed":
                if job["sandbox"]:
                    ctx.skip("sandbox builds unavailable")
                else:
                    # a generated project that does not build is a generator problem, not a verdict
                    ctx.skip("a generated project failed to build")
                    stats.setdefault("build_errors", []).append(what[-300:])
                return
            case = {"kind": "build", "idx": job["idx"], "sandbox": job["sandbox"], "upto": k, "seed": ctx.seed,
                    "step": strip(s), "plan_kinds": [p["kind"] for p in job["plan"]]}
            ctx.violation("project %d, invocation %d (%s): %s" % (job["idx"], k, pinv["kind"], what), case, sig)


class Runner:
    """runs the projects in child processes, at most `par` at a time; `pump()` is called from the parent's own
    loops so that builds and the API level stream overlap"""

    def __init__(self, ctx, spec_id, refs_of, indices=None, reserve=60, tail=35):
        self.ctx, self.spec_id, self.refs_of = ctx, spec_id, refs_of
        self.reserve, self.tail = reserve, tail
        self.tmp = os.path.join(ctx.tmp, "builds")
        os.makedirs(self.tmp, exist_ok=True)
        self.par = 8
        self.todo = list(indices if indices is not None else range(ctx.scale(24, 400)))
        self.running, self.stats = [], {"projects": 0}
        # when the Lean steps already used up most of the time (overloaded machine) wait less for the first wave
        self.t_limit = ctx.scale(110 if ctx.time_left() > 100 else 70, 600)
        # the first wave always runs (also when the machine is so loaded that the Lean steps used up the time):
        # a check without a single real build would say nothing about the truthful clause
        self.first = set(self.todo[:ctx.scale(6, 8)])
        self.cut = False

    def pump(self):
        ctx = self.ctx
        while self.todo and len(self.running) < self.par and \
                (self.todo[0] in self.first or ctx.time_left() > self.reserve):
            idx = self.todo.pop(0)
            self.running.append(launch(ctx, idx, sandbox=(idx % 6 == 5), tmp=self.tmp))
        still = []
        for job in self.running:
            if job["p"].poll() is None:
                late = job["idx"] not in self.first and ctx.time_left() < self.tail
                if time.time() - job["t0"] > self.t_limit or late:
                    job["p"].kill()
                    job["p"].wait()
                    ctx.skip("a build helper was stopped (time)")
                    if os.path.exists(job["report"]):       # invocations finished so far
                        self.stats["projects"] += 1
                        evaluate(ctx, job, self.spec_id, self.refs_of, self.stats)
                else:
                    still.append(job)
                continue
            self.stats["projects"] += 1
            evaluate(ctx, job, self.spec_id, self.refs_of, self.stats)
        self.running = still

    def finish(self):
        while True:
            self.pump()
            if self.running:
                time.sleep(0.05)
                continue
            if self.todo and not self.cut:
                self.cut = True
                self.ctx.skip("real-build stream cut: %d projects not run (time)" % len(self.todo))
            break
        return self.stats


def run(ctx, spec_id, refs_of, indices=None, reserve=60):
    return Runner(ctx, spec_id, refs_of, indices, reserve).finish()


def replay(ctx, case, spec_id, refs_of):
    """re-run the recorded project (same seed stream) and re-check it"""
    import random
    ctx.seed = case.get("seed", ctx.seed)
    run(ctx, spec_id, refs_of, indices=[case["idx"]], reserve=0)
