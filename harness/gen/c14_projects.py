def run(ctx, spec_id, refs_of):
    return {}
def replay(ctx, case, spec_id, refs_of):
    pass
