"""Shared machinery of all checks: run pipeline, Lean build/audit, driver pipe,
verdict (VIOLATION / KNOWN-FINDING), evidence.

Every property lives in harness/props/cXX.py and exposes

    DRIVER   = "drv_cXX"            (lean_exe target, optional)
    RULE     = "how cases are generated and what makes one distinct / non-trivial"
    ASSUMPTIONS = [...]
    def oracle(ctx): ...            the property's own statement executed on the implementation
                                    (ctx.violation on failure); needs no Lean, doubles as failing-input search
    def correspond(ctx): ...        differential run model driver vs implementation (ctx.disagree)
    def replay(ctx, case): ...      re-execute one recorded violation case on the implementation

The protocol of the brief is implemented once, in `finish`:
  * oracle failure on the implementation            -> VIOLATION (or KNOWN-FINDING when listed)
  * proof break / correspondence break, no failing input found by the oracle stream
                                                     -> VIOLATION ... no-failing-input-found
"""
import hashlib
import importlib
import json
import os
import random
import re
import shutil
import subprocess
import sys
import tempfile
import time
import traceback

VERIF = os.path.dirname(os.path.dirname(os.path.abspath(__file__)))
REPO = os.environ.get("BOB_VERIF_REPO", "/repo")
LEAN_DIR = os.path.join(VERIF, "lean")
ALLOWED_AXIOMS = {"propext", "Classical.choice", "Quot.sound"}
FORBIDDEN = re.compile(r"\bsorry\b|\badmit\b|^\s*axiom\s|native_decide|bv_decide|implemented_by|\bunsafe\s|maxHeartbeats\s+0\b", re.M)

if os.path.join(REPO, "pym") not in sys.path:
    sys.path.insert(0, os.path.join(REPO, "pym"))


def _strip_lean_comments(src):
    # remove nested block comments and line comments
    out = []
    i, depth, n = 0, 0, len(src)
    while i < n:
        if src.startswith("/-", i):
            depth += 1
            i += 2
        elif depth and src.startswith("-/", i):
            depth -= 1
            i += 2
        elif depth:
            i += 1
        elif src.startswith("--", i):
            j = src.find("\n", i)
            i = n if j < 0 else j
        else:
            out.append(src[i])
            i += 1
    return "".join(out)


class Ctx:
    def __init__(self, prop, tier, seed):
        self.prop = prop
        self.tier = tier
        self.seed = seed
        self.rng = random.Random("%s-%d" % (prop, seed))
        self.repo = REPO
        self.t0 = time.time()
        self.t_run0 = self.t0
        self.budget = {"quick": 150.0, "thorough": 1500.0}[tier]
        self.tmp = tempfile.mkdtemp(prefix="bobverif-%s-%d-" % (prop, os.getpid()), dir=os.environ.get("BOB_VERIF_TMP"))
        self.evaluations = 0
        self.distinct = set()
        self.samples = []
        self.hist = {}
        self.traces = 0
        self.disagreements = []      # correspondence breaks (model vs implementation)
        self.violations = []         # property failures shown on the implementation
        self.proof_breaks = []       # broken Lean obligations / extraction failures
        self.skipped = []
        self.theorems = []
        self.axioms = {}
        self.notes = {}
        self.build_s = 0.0
        self.unvalidated = []        # anchor files whose normalised AST differs from the validated baseline

    # ------------------------------------------------------------------ helpers for property modules
    def scale(self, quick, thorough):
        if self.tier == "quick" and self.unvalidated and isinstance(quick, int) and isinstance(thorough, int) \
                and not isinstance(quick, bool) and thorough > quick:
            # the modelled source changed since the model was last validated against it: explore more
            return min(thorough, 2 * quick)
        return quick if self.tier == "quick" else thorough

    def time_left(self):
        # the budget covers oracle + correspondence; the Lean build/audit phase is not charged
        return self.budget - (time.time() - self.t_run0)

    def out_of_time(self):
        return self.time_left() <= 0

    def subrng(self, *key):
        return random.Random("%s-%d-%s" % (self.prop, self.seed, "/".join(map(str, key))))

    def case(self, key=None, sample=None, nontrivial=True):
        """count one evaluated case; `key` identifies distinct non-trivial cases"""
        self.evaluations += 1
        if nontrivial and key is not None:
            if not isinstance(key, (str, bytes)):
                key = json.dumps(key, sort_keys=True, default=repr)
            if isinstance(key, str):
                key = key.encode("utf-8", "surrogateescape")
            self.distinct.add(hashlib.blake2b(key, digest_size=8).digest())
        if sample is not None and len(self.samples) < 6:
            self.samples.append(sample)

    def count(self, name, key, n=1):
        h = self.hist.setdefault(name, {})
        h[str(key)] = h.get(str(key), 0) + n

    def trace_validated(self, n=1):
        self.traces += n

    def skip(self, what):
        if what not in self.skipped:
            self.skipped.append(what)

    def disagree(self, relation, case, impl, model):
        """the model and the implementation differ on `case` under correspondence `relation`"""
        if len(self.disagreements) < 50:
            self.disagreements.append({"relation": relation, "case": case, "impl": impl, "model": model})
        else:
            self.disagreements.append(None)

    def violation(self, what, case, signature=None):
        """the implementation itself breaks the property on the concrete `case`"""
        # at most 3 recorded cases per signature, so that a frequent (e.g. known) one cannot crowd out a rare one
        sig = signature or what
        n = sum(1 for v in self.violations if v["signature"] == sig)
        if n < 3 and len(self.violations) < 300:
            self.violations.append({"what": what, "case": case, "signature": sig})

    def proof_break(self, what, detail=""):
        self.proof_breaks.append({"what": what, "detail": detail[-4000:]})

    def lean(self, driver, reqs, timeout=None):
        """pipe JSON requests through a compiled driver; returns the parsed replies"""
        exe = os.path.join(LEAN_DIR, ".lake", "build", "bin", driver)
        data = "".join(json.dumps(r, ensure_ascii=True) + "\n" for r in reqs)
        p = subprocess.run([exe], input=data.encode(), stdout=subprocess.PIPE, stderr=subprocess.PIPE,
                           timeout=timeout or max(60, self.budget))
        # split at LF only: str.splitlines() would also break at U+0085, U+2028, 0x1c-0x1e inside JSON strings
        lines = p.stdout.decode("utf-8", "surrogateescape").split("\n")
        if lines and lines[-1] == "":
            lines.pop()
        if p.returncode != 0 or len(lines) != len(reqs):
            raise RuntimeError("driver %s failed: rc=%s, %d replies for %d requests, stderr=%s" %
                               (driver, p.returncode, len(lines), len(reqs), p.stderr.decode()[-2000:]))
        return [json.loads(l) for l in lines]

    def parallel(self, fn, items, workers=None):
        """map fn over items in forked worker processes (fn must be a module level function)"""
        import multiprocessing as mp
        workers = workers or min(16, os.cpu_count() or 4)
        if len(items) <= 1 or workers <= 1:
            return [fn(x) for x in items]
        with mp.get_context("fork").Pool(workers) as pool:
            return pool.map(fn, items, chunksize=max(1, len(items) // (workers * 4)))


# ---------------------------------------------------------------------- pipeline steps

def run_cmd(cmd, cwd=None, timeout=3600, env=None):
    p = subprocess.run(cmd, cwd=cwd, stdout=subprocess.PIPE, stderr=subprocess.STDOUT, timeout=timeout, env=env)
    return p.returncode, p.stdout.decode("utf-8", "replace")


def anchor_hashes(ctx):
    """normalised-AST hashes of the files the property is anchored in; a difference from tools/anchors.json is not an
    alarm, it enlarges the budget of the quick tier (the hand-written model is unvalidated against this source)"""
    sys.path.insert(0, os.path.join(VERIF, "tools"))
    try:
        import anchors
        cur, diff = anchors.changed(ctx.prop, REPO)
    except Exception as e:
        ctx.notes["model_anchor_hashes"] = "unavailable: %r" % e
        return
    ctx.notes["model_anchor_hashes"] = cur
    ctx.notes["anchors_changed_since_validation"] = diff
    if diff and ctx.tier == "quick":
        ctx.unvalidated = diff
        ctx.budget = float(os.environ.get("VERIF_UNVALIDATED_BUDGET", "330"))


def regenerate_consts(ctx):
    """tools/consts/<prop>.py : extract(repo) -> Lean source, written to Generated/Consts<Prop>.lean"""
    path = os.path.join(VERIF, "tools", "consts", ctx.prop.lower() + ".py")
    if not os.path.exists(path):
        return
    sys.path.insert(0, os.path.join(VERIF, "tools"))
    try:
        mod = importlib.import_module("consts." + ctx.prop.lower())
        src = mod.extract(REPO)
    except Exception as e:  # a constant the extractor cannot find is a broken tie
        ctx.proof_break("consts-extraction", "".join(traceback.format_exception_only(type(e), e)))
        return
    out = os.path.join(LEAN_DIR, "BobModel", "Generated", "Consts%s.lean" % ctx.prop)
    old = open(out).read() if os.path.exists(out) else None
    if old != src:
        with open(out, "w") as f:
            f.write(src)
        ctx.notes["consts_changed"] = old is not None
    ctx.notes["consts_sha"] = hashlib.sha1(src.encode()).hexdigest()[:12]


def lake_build(ctx, targets):
    t = time.time()
    rc, out = run_cmd(["lake", "build"] + targets, cwd=LEAN_DIR)
    ctx.build_s = time.time() - t
    if rc != 0:
        ctx.proof_break("lake-build " + " ".join(targets), out)
        return False
    return True


def theorem_names(prop):
    path = os.path.join(LEAN_DIR, "BobModel", "Props", prop + ".lean")
    src = _strip_lean_comments(open(path).read())
    names = []
    ns = []
    for line in src.splitlines():
        m = re.match(r"\s*namespace\s+(\S+)", line)
        if m:
            ns.append(m.group(1))
            continue
        m = re.match(r"\s*end\s+(\S+)\s*$", line)
        if m and ns and ns[-1] == m.group(1):
            ns.pop()
            continue
        m = re.match(r"\s*(?:@\[[^\]]*\]\s*)?(?:private\s+|protected\s+)?theorem\s+([^\s:({\[]+)", line)
        if m:
            names.append(".".join(ns + [m.group(1)]))
    return names


def import_closure(prop):
    """project files (relative to lean/) that Props/<prop>.lean transitively imports, itself included"""
    todo = ["BobModel.Props." + prop]
    seen = []
    while todo:
        m = todo.pop()
        rel = m.replace(".", "/") + ".lean"
        if rel in seen or not os.path.exists(os.path.join(LEAN_DIR, rel)):
            continue
        seen.append(rel)
        for line in open(os.path.join(LEAN_DIR, rel)):
            mm = re.match(r"\s*(?:public\s+)?import\s+(BobModel\.[\w.]+)", line)
            if mm:
                todo.append(mm.group(1))
    return seen


def audit(ctx):
    """grep for forbidden constructs, then `#print axioms` on every property theorem"""
    bad = []
    for rel in import_closure(ctx.prop):
        src = _strip_lean_comments(open(os.path.join(LEAN_DIR, rel)).read())
        for m in FORBIDDEN.finditer(src):
            bad.append("%s: %s" % (rel, m.group(0).strip()))
    if bad:
        ctx.proof_break("forbidden-construct", "\n".join(bad))
    names = theorem_names(ctx.prop)
    ctx.theorems = names
    if not names:
        ctx.proof_break("no-theorems", "Props/%s.lean declares no theorem" % ctx.prop)
        return
    src = "import BobModel.Props.%s\n" % ctx.prop + "".join("#print axioms %s\n" % n for n in names)
    tmpf = os.path.join(ctx.tmp, "Audit%s.lean" % ctx.prop)
    with open(tmpf, "w") as f:
        f.write(src)
    rc, out = run_cmd(["lake", "env", "lean", tmpf], cwd=LEAN_DIR)
    if rc != 0:
        ctx.proof_break("axiom-audit", out)
        return
    out1 = re.sub(r"\s+", " ", out)
    for n in names:
        m = re.search(r"'%s' depends on axioms: \[([^\]]*)\]" % re.escape(n), out1)
        if m:
            ax = {a.strip() for a in m.group(1).split(",") if a.strip()}
        elif re.search(r"'%s' does not depend on any axioms" % re.escape(n), out1):
            ax = set()
        else:
            ctx.proof_break("axiom-audit", "no axiom report for " + n)
            continue
        ctx.axioms[n] = sorted(ax)
        if not ax <= ALLOWED_AXIOMS:
            ctx.proof_break("axiom-audit", "%s depends on %s" % (n, sorted(ax - ALLOWED_AXIOMS)))


def leanchecker(ctx):
    rc, out = run_cmd(["lake", "env", "leanchecker", "BobModel.Props." + ctx.prop], cwd=LEAN_DIR, timeout=1800)
    ctx.notes["leanchecker"] = "ok" if rc == 0 else "failed"
    if rc != 0:
        ctx.proof_break("leanchecker", out)


def selftest_driver(ctx):
    reqs, want = [], []
    r = ctx.subrng("selftest")
    import zlib
    for i in range(40):
        b = bytes(r.randrange(256) for _ in range(r.choice([0, 1, 55, 56, 63, 64, 65, 119, 120, 300])))
        reqs.append({"op": "sha1", "hex": b.hex()})
        want.append(hashlib.sha1(b).hexdigest())
        reqs.append({"op": "adler32", "hex": b.hex()})
        want.append(zlib.adler32(b))
    got = ctx.lean("drv_selftest", reqs)
    if got != want:
        raise RuntimeError("Lean SHA-1/Adler-32 self test failed")


# ---------------------------------------------------------------------- verdict

def load_known():
    p = os.path.join(VERIF, "known-findings.json")
    if not os.path.exists(p):
        return []
    return json.load(open(p)).get("findings", [])


def finish(ctx, mod):
    known = [k for k in load_known() if k.get("property") == ctx.prop and k.get("status") == "known"]
    os.makedirs(os.path.join(VERIF, "replays"), exist_ok=True)
    import glob
    for old in glob.glob(os.path.join(VERIF, "replays", "%s-%d-*.json" % (ctx.prop, ctx.seed))):
        os.unlink(old)
    os.makedirs(os.path.join(VERIF, "evidence"), exist_ok=True)
    lines = []
    exit_code = 0
    n_viol = 0
    seen_known = set()
    idx = 0
    seen_sig = set()
    for v in ctx.violations:
        k = next((k for k in known if k.get("signature") == v["signature"]), None)
        if k is None:
            # one VIOLATION line (and replay file) per distinct failure signature
            if v["signature"] in seen_sig:
                continue
            seen_sig.add(v["signature"])
        if k is not None:
            if k["id"] not in seen_known:
                seen_known.add(k["id"])
                lines.append("KNOWN-FINDING: property=%s %s (%s)" % (ctx.prop, k.get("what", v["what"]), k["id"]))
            continue
        n_viol += 1
        idx += 1
        rp = os.path.join("replays", "%s-%d-%d.json" % (ctx.prop, ctx.seed, idx))
        json.dump({"property": ctx.prop, "kind": "failing-input", "what": v["what"], "signature": v["signature"],
                   "case": v["case"], "replay_cmd": "./check %s --replay %s" % (ctx.prop, rp)},
                  open(os.path.join(VERIF, rp), "w"), indent=1, default=repr)
        lines.append("VIOLATION property=%s replay=%s" % (ctx.prop, rp))
        exit_code = 1
    nd = len(ctx.disagreements)
    if (ctx.proof_breaks or nd) and n_viol == 0:
        # broken obligation or correspondence and the oracle stream found no failing input
        # (known findings never explain a broken tie)
        idx += 1
        rp = os.path.join("replays", "%s-%d-%d.json" % (ctx.prop, ctx.seed, idx))
        json.dump({"property": ctx.prop, "kind": "no-failing-input-found",
                   "broken_obligations": ctx.proof_breaks,
                   "broken_correspondence": [d for d in ctx.disagreements if d][:10],
                   "n_disagreements": nd,
                   "note": "the property is no longer shown to hold: the named theorem/correspondence does not check "
                           "against the current source; the property oracle found no concrete failing input"},
                  open(os.path.join(VERIF, rp), "w"), indent=1, default=repr)
        lines.append("VIOLATION property=%s replay=%s no-failing-input-found" % (ctx.prop, rp))
        n_viol += 1
        exit_code = 1
    obligations = len(ctx.theorems)
    bad_thms = set()
    for b in ctx.proof_breaks:
        bad_thms.add(b["what"])
    discharged = obligations if not ctx.proof_breaks else 0
    ev = {
        "property_id": ctx.prop,
        "tier": ctx.tier,
        "seed": ctx.seed,
        "level": "proof",
        "coverage": {
            "obligations": obligations,
            "discharged": discharged,
            "checker_cmd": "cd lean && lake build BobModel.Props.%s && lake env lean <#print axioms of every theorem in Props/%s.lean>%s"
                           % (ctx.prop, ctx.prop, " && lake env leanchecker BobModel.Props.%s" % ctx.prop if ctx.tier == "thorough" else ""),
            "trusted_base": [
                "Lean 4 kernel; axioms used per theorem are listed under `axioms` (allowed: propext, Classical.choice, Quot.sound)",
                "correspondence harness harness/props/%s.py and harness/core.py (differential run of the model's executable definitions against /repo's current source)" % ctx.prop.lower(),
                "constant extractor tools/consts/%s.py where present" % ctx.prop.lower(),
                "CPython and the external programs the implementation delegates to (see DESIGN.md section 3)",
            ],
            "theorems": ctx.theorems,
            "axioms": ctx.axioms,
            "evaluations": ctx.evaluations,
            "distinct_nontrivial": len(ctx.distinct),
            "rule": getattr(mod, "RULE", ""),
            "samples": ctx.samples or ["(no case was explored)"],
            "traces_validated_against_impl": ctx.traces,
            "disagreements": nd,
            "proof_breaks": ctx.proof_breaks,
            "histograms": ctx.hist,
            "skipped": ctx.skipped,
            "known_findings_seen": sorted(seen_known),
            "notes": ctx.notes,
            "build_s": round(ctx.build_s, 1),
        },
        "assumptions": list(getattr(mod, "ASSUMPTIONS", [])),
        "wall_s": round(time.time() - ctx.t0, 2),
        "violations": n_viol,
    }
    with open(os.path.join(VERIF, "evidence", ctx.prop + ".json"), "w") as f:
        json.dump(ev, f, indent=1, default=repr)
    for l in lines:
        print(l)
    print("%s %s seed=%d: theorems=%d evaluations=%d distinct=%d disagreements=%d violations=%d wall=%.1fs -> exit %d" %
          (ctx.prop, ctx.tier, ctx.seed, obligations, ctx.evaluations, len(ctx.distinct), nd, n_viol,
           time.time() - ctx.t0, exit_code))
    return exit_code


def main(argv):
    import argparse
    ap = argparse.ArgumentParser()
    ap.add_argument("prop")
    ap.add_argument("--tier", default=os.environ.get("VERIF_TIER", "quick"), choices=["quick", "thorough"])
    ap.add_argument("--replay")
    ap.add_argument("--no-lean", action="store_true", help="development only: skip build and audit")
    a = ap.parse_args(argv)
    prop = a.prop.upper()
    seed = int(os.environ.get("VERIF_SEED", "0") or 0)
    sys.path.insert(0, os.path.join(VERIF, "harness"))
    mod = importlib.import_module("props." + prop.lower())
    ctx = Ctx(prop, a.tier, seed)
    try:
        if a.replay:
            case = json.load(open(os.path.join(VERIF, a.replay) if not os.path.isabs(a.replay) else a.replay))
            if case.get("kind") == "no-failing-input-found":
                print("replay file names a broken obligation/correspondence, no concrete input: re-running the check")
                a.replay = None
            else:
                targets = [getattr(mod, "DRIVER")] if getattr(mod, "DRIVER", None) else []
                if targets:
                    lake_build(ctx, targets)
                mod.replay(ctx, case["case"])
                if ctx.violations:
                    print("VIOLATION property=%s replay=%s" % (prop, a.replay))
                    return 1
                print("replay: property holds on the recorded case")
                return 0
        anchor_hashes(ctx)
        if not a.no_lean:
            regenerate_consts(ctx)
            targets = ["BobModel.Props." + prop, "drv_selftest"]
            if getattr(mod, "DRIVER", None):
                targets.append(mod.DRIVER)
            ok = lake_build(ctx, targets)
            if ok:
                audit(ctx)
                if a.tier == "thorough":
                    leanchecker(ctx)
                selftest_driver(ctx)
            else:
                ctx.theorems = theorem_names(prop)
                # the proof side is broken; the model driver may still build for the failing-input search
                if getattr(mod, "DRIVER", None):
                    rc, _ = run_cmd(["lake", "build", mod.DRIVER, "drv_selftest"], cwd=LEAN_DIR)
                    if rc != 0:
                        ctx.notes["driver_unavailable"] = True
        try:
            ctx.t_run0 = time.time()
            ctx.notes["lean_phase_s"] = round(ctx.t_run0 - ctx.t0, 1)
            # the property oracle needs no Lean at all and always runs; the correspondence needs the driver
            if hasattr(mod, "oracle"):
                mod.oracle(ctx)
            if ctx.notes.get("driver_unavailable"):
                ctx.skip("correspondence: model driver does not build")
            elif hasattr(mod, "correspond"):
                mod.correspond(ctx)
        except Exception as e:
            # an internal error of the harness is not a verdict about the property
            traceback.print_exc()
            print("HARNESS-ERROR property=%s %s" % (prop, e))
            return 2
        return finish(ctx, mod)
    finally:
        shutil.rmtree(ctx.tmp, ignore_errors=True)


if __name__ == "__main__":
    sys.exit(main(sys.argv[1:]))
