"""C06 - parallel builds are schedule independent and bounded.

oracle (implementation alone, the property's own wording):
  (a) JobServerSemaphore alone: k tasks on n tokens on a real FIFO and a real asyncio loop, random acquire /
      release orders with several commands per loop iteration (hand-overs in flight), a child make that takes
      and returns tokens, both modes: owners <= slots, pipe + held + child == n at every step, everything
      released => pipe == n, release without owner raises, release by an owner never raises, no waiter starves;
  (b) the REAL LocalBuilder.cook, driven through `bob dev` in a child process on a real selector loop whose
      `_run_once` reports quiescence, `_runShell` replaced by an awaitable the harness completes in the drawn
      order (success / injected failure, also two at once), internal and external job server, -j1, -k, -B:
      a script starts only after the scripts of all valid dependencies ended successfully; no workspace runs
      twice (unless its previous run failed) or concurrently; <= jobs scripts run; failures are reported; every
      slot taken is given back, tokens and pipe content are restored; results equal the sequential dataflow;
  (c) real subprocess runs (bash scripts that log start/end, sleep and derive their result from their
      inputs) with -j1 and -jN: the same checks on the log, dist results equal those of the sequential build.
correspond: the schedules the implementation took in (a) and (b) are replayed on the Lean model (drv_c06):
  events per task step and the scheduler state after each step must agree (token counters, pipe, reader
  registration, running flag, error count, locked workspaces, wasRun table, tracker sizes); the model's
  executable invariants (the statements of Props/C06.lean) are evaluated after every step, and on random
  schedules of the model for the same projects.
"""
import json
import os
import subprocess
import sys
import time

DRIVER = "drv_c06"
RULE = ("(a) semaphore alone: seeds x {recursive, non-recursive}, n=1..3 tokens, k=2..5 tasks, 40 commands, up to 3 commands "
        "per loop iteration; (b) generated projects (2..8 packages, deps on 0..4 later packages so that packages are reached on "
        "several paths, tools for build and checkout steps, build variants sharing a checkout, packages without checkout/build "
        "script, 1..3 roots) x jobs in {1,2,3,4,6} x {internal, external job server} x {-k} x {-B} x injected failing steps x a "
        "drawn list of environment choices (which running script ends next, two at once, child make takes/returns a token); "
        "(c) the same generator with real scripts. A case is distinct by (project spec, invocation, choice list) resp. seed and "
        "non-trivial if at least one script was started resp. one acquire blocked or was handed over.")
ASSUMPTIONS = [
    "asyncio (CPython 3.12) cooperative contract: a task runs until its next real suspension; Semaphore/Lock FIFO semantics as modelled",
    "no cancellation (SIGINT), --no-deps, --resume, live-build-id prediction/restart round, downloads/uploads, shared packages, "
    "fingerprint scripts, audit generation: outside the model and switched off in the driven runs",
    "a cook*Step call counts as one execution of the workspace; the skip/incremental logic inside is C01's subject",
    "same workspace path => same variant id for valid steps (C16) is a hypothesis of the ordering theorems",
    "child make processes are an environment that takes tokens from the pipe and gives every one back",
]

HERE = os.path.dirname(os.path.abspath(__file__))
CHILD = os.path.join(os.path.dirname(HERE), "gen", "c06_child.py")
MOD = 2305843009213693951


def run_fn(s, ins):
    a = s + 7
    for v in ins:
        a = (a * 1000003 + v + 1) % MOD
    return a


# ---------------------------------------------------------------------------- impl trace -> model requests

class Interner:
    def __init__(self):
        self.m = {}

    def __call__(self, x):
        if x is None:
            return None
        if x not in self.m:
            self.m[x] = len(self.m)
        return self.m[x]


def model_requests(o):
    """requests for drv_c06 that replay the schedule the implementation took, and what is expected back"""
    graph = o["graph"]
    pid, vid = Interner(), Interner()
    for n in graph:
        pid(n["path"])
    steps = [{"kind": n["kind"], "path": pid(n["path"]), "vid": vid(n["vid"]), "sb": (vid(n["sb"]) if n["sb"] else None),
              "valid": n["valid"], "deps": n["deps"], "bid": n["bid"]} for n in graph]
    argv = o["case"]["argv"]
    jobs = o["case"]["jobs"]
    if o["sem"] == "job":
        runners = {"kind": "job", "recursive": bool(o["recursive"]), "pipe": o["case"]["pipe0"]}
    else:
        runners = {"kind": "bounded", "n": 1}
    cfg = {"par": jobs > 1, "keepGoing": ("-k" in argv), "co0": bool(o["co0"]), "targets": o["targets"]}
    reqs = [{"op": "init", "steps": steps, "cfg": cfg, "runners": runners, "n": (o["case"]["pipe0"] if o["sem"] == "job" else 1)}]
    expect = [None]
    first_stray = True
    for it in o["trace"]:
        k = it["k"]
        if k == "stray":
            if first_stray and len(it["ev"]) == 1 and it["ev"][0][:3] == ["spawn", 0, "disp"]:
                first_stray = False
                continue
            reqs.append({"op": "stray"})
            expect.append(("stray", it))
        elif k == "task":
            reqs.append({"op": "task", "t": it["t"]})
            expect.append(("task", [canon_impl_ev(e, pid) for e in it["ev"]], canon_impl_snap(it["s"], pid)))
        elif k == "cb":
            reqs.append({"op": "cb"})
            expect.append(("env", canon_impl_snap(it["s"], pid)))
        elif k == "env":
            if it["op"] == "fin":
                reqs.append({"op": "fin", "t": it["t"], "ok": it["ok"]})
                expect.append(("env", None))
            else:
                reqs.append({"op": it["op"]})
                expect.append(("env", canon_impl_snap(it["s"], pid)))
        elif k == "other":
            reqs.append({"op": "stray"})
            expect.append(("stray", it))
    reqs.append({"op": "final"})
    expect.append(("final", pid))
    return reqs, expect


def canon_impl_ev(e, pid):
    k = e[0]
    if k == "spawn":
        return ["spawn", e[1], e[2], pid(e[3]), e[4] if e[2] == "cook" else None]
    if k == "rel":
        return ["rel", e[1] is None]
    if k == "start":
        return ["start", pid(e[1])]
    if k == "end":
        return ["end", pid(e[1]), bool(e[2])]
    if k == "setrun":
        return ["setrun", pid(e[1]), bool(e[2])]
    return e


def canon_impl_snap(s, pid):
    if s is None or "unavailable" in s:
        return None
    out = {k: v for k, v in s.items() if k in ("w", "a", "tk", "pipe", "rd", "envheld", "v", "run", "err", "ncook", "nbid")}
    out["locks"] = sorted(pid(p) for p in s["locks"])
    out["wasrun"] = sorted([pid(p), sk] for p, sk in s["wasrun"])
    return out


def canon_model_ev(e, steps):
    k = e[0]
    if k == "spawn":
        return ["spawn", e[1], e[2], (steps[e[3]]["path"] if e[3] is not None else None), e[4]]
    if k in ("start",):
        return ["start", steps[e[1]]["path"]]
    if k == "end":
        return ["end", steps[e[1]]["path"], e[2]]
    if k == "setrun":
        return ["setrun", steps[e[1]]["path"], e[2]]
    return e


def compare(o, reqs, expect, replies, verbose=False):
    steps = reqs[0]["steps"]
    bad = []
    for i, (rq, ex, rp) in enumerate(zip(reqs, expect, replies)):
        if ex is None:
            continue
        if ex[0] == "stray":
            bad.append({"at": i, "why": "event outside a task step", "impl": ex[1]})
            continue
        if rp.get("inv"):
            bad.append({"at": i, "req": rq, "why": "model invariant", "inv": rp["inv"]})
            break
        if ex[0] == "task":
            mev = [canon_model_ev(e, steps) for e in rp.get("ev", []) if e[0] not in ("pass", "failrec")]
            msnap = rp.get("s")
            if verbose:
                print(i, rq, "impl", json.dumps(ex[1]), "model", json.dumps(mev))
            if mev != ex[1]:
                bad.append({"at": i, "req": rq, "why": "events", "impl": ex[1], "model": mev})
                break
            d = snap_diff(ex[2], msnap)
            if d:
                bad.append({"at": i, "req": rq, "why": "state", "diff": d})
                break
        elif ex[0] == "env":
            if not rp.get("ok", False):
                bad.append({"at": i, "req": rq, "why": "environment event not enabled in the model"})
                break
            d = snap_diff(ex[1], rp.get("s")) if ex[1] else None
            if d:
                bad.append({"at": i, "req": rq, "why": "state", "diff": d})
                break
        elif ex[0] == "final":
            pass
    return bad


def snap_diff(impl, model):
    if impl is None:
        return None
    d = {}
    for k, v in impl.items():
        mv = model.get(k)
        if k == "wasrun":
            mv = [list(x) for x in mv]
        if mv != v:
            d[k] = {"impl": v, "model": mv}
    return d or None


# ---------------------------------------------------------------------------- controlled runs of the real builder

def gen_controlled_case(r, base, idx, recursive_share=0.0):
    """one project + invocation + schedule; everything drawn from r"""
    from gen import c06_projects as P
    spec = P.gen_spec(r)
    d = os.path.join(base, "c%04d" % idx)
    roots = P.write_project(spec, d)
    jobs = r.choice([1, 2, 2, 3, 3, 4, 6])
    argv = list(roots) + ["-A", "--download", "no"]
    mf = None
    if jobs > 1 and r.random() < recursive_share:
        mf = {"jobs": jobs, "tokens": jobs - 1}
    else:
        argv += ["-j", str(jobs)]
    if r.random() < 0.4:
        argv.append("-k")
    if r.random() < 0.2:
        argv.append("-B")
    # injected failures: workspace paths are dev/<src|build|dist>/<pkg>/1/workspace in a fresh project
    fail = []
    if r.random() < 0.45:
        for _ in range(r.choice([1, 1, 2])):
            p = r.choice(spec["packages"])
            kind = r.choice(["src", "build", "dist"])
            fail.append("dev/%s/%s/1/workspace" % (kind, p["name"]))
    case = {"name": "c%04d" % idx, "dir": d, "argv": argv, "choices": [r.randrange(1 << 20) for _ in range(80)],
            "fail": sorted(set(fail)), "env_takes": r.choice([0, 0, 1, 3]), "makeflags": mf, "spec": spec}
    return case


def _pk(name, deps, checkout=False, build=True, tool=False, buildTools=(), checkoutTools=()):
    return {"name": name, "deps": list(deps), "env": {}, "checkout": checkout, "build": build, "package": True, "tool": tool,
            "variant": False, "buildTools": list(buildTools), "checkoutTools": list(checkoutTools), "dur": [0.0, 0.0, 0.0]}


def targeted_cases(r, base):
    """small cases that reach the corners quickly: three parallel leaves on two slots finishing together (external and
    internal job server), a failing leaf next to a long chain without keep-going, a checkout tool under --checkout-only
    (the same package cooked with and without checkoutOnly), a child make draining the pipe while tasks wait"""
    from gen import c06_projects as P
    out = []

    def add(tag, spec, argv, choices, fail=(), env_takes=0, makeflags=None):
        d = os.path.join(base, "t-%s" % tag)
        roots = P.write_project(spec, d)
        out.append({"name": "t-%s" % tag, "dir": d, "argv": list(roots) + ["-A", "--download", "no"] + argv,
                    "choices": choices, "fail": list(fail), "env_takes": env_takes, "makeflags": makeflags, "spec": spec})
    fan = {"packages": [_pk("p0", [1, 2, 3]), _pk("p1", []), _pk("p2", []), _pk("p3", [])], "roots": [0]}
    add("fan-ext", fan, [], [0] * 40, makeflags={"jobs": 2, "tokens": 1})
    add("fan-ext-k", fan, ["-k"], [r.randrange(1 << 16) for _ in range(40)], makeflags={"jobs": 3, "tokens": 2}, env_takes=2)
    add("fan-int", fan, ["-j", "2"], [0] * 40, env_takes=3)
    add("fan-int-take", fan, ["-j", "2"], [2, 2, 5, 3, 7, 2, 9, 4, 1, 6] * 4, env_takes=4)
    chain = {"packages": [_pk("p0", [1, 2]), _pk("p1", []), _pk("p2", [3]), _pk("p3", [4]), _pk("p4", [])], "roots": [0]}
    add("fail-stop", chain, ["-j", "2"], [1, 0, 0, 0, 0] * 8, fail=["dev/build/p1/1/workspace"])
    add("fail-stop3", chain, ["-j", "3"], [0] * 40, fail=["dev/dist/p1/1/workspace"])
    add("fail-keep", chain, ["-j", "2", "-k"], [1, 0, 0, 0, 0] * 8, fail=["dev/build/p1/1/workspace"])
    tool = {"packages": [_pk("p0", [1, 2], checkout=True, checkoutTools=[2]), _pk("p1", [2], checkout=True, buildTools=[2]),
                         _pk("p2", [], checkout=True, tool=True)], "roots": [0]}
    add("cotool", tool, ["-j", "3", "-B"], [0] * 40)
    add("cotool1", tool, ["-j", "1", "-B"], [0] * 40)
    add("cotool-full", tool, ["-j", "2"], [3, 1, 4, 1, 5, 9, 2, 6] * 5)
    # the same workspace cooked by two tasks (with and without sandbox)
    for tag, argv, choices, fail in (("sbx", ["-j", "3", "--sandbox"], [0] * 60, []),
                                     ("sbx2", ["-j", "2", "--sandbox"], [1, 0, 2, 1, 0, 3] * 10, []),
                                     ("sbx-fail", ["-j", "3", "--sandbox", "-k"], [0] * 60, ["dev/build/x/1/workspace"])):
        d = os.path.join(base, "t-%s" % tag)
        roots = P.write_sandbox_project(d)
        out.append({"name": "t-%s" % tag, "dir": d, "argv": roots + ["-A", "--download", "no"] + argv, "choices": choices,
                    "fail": fail, "env_takes": 0, "makeflags": None, "spec": {"sandbox-project": True}})
    return out


def run_children(repo, cases, out_dir, workers=8, timeout=120):
    """spread the cases over child processes; returns {name: result}"""
    chunks = [cases[i::workers] for i in range(workers)]
    procs = []
    env = dict(os.environ, PYTHONPATH=os.path.join(repo, "pym"), PYTHONDONTWRITEBYTECODE="1")
    py = sys.executable
    for i, ch in enumerate(chunks):
        if not ch:
            continue
        outp = os.path.join(out_dir, "child%d.jsonl" % i)
        procs.append([ch, outp, None, 0])
    results = {}

    def spawn(entry):
        ch, outp, _, done = entry
        rest = ch[done:]
        p = subprocess.Popen([py, CHILD], stdin=subprocess.PIPE, stdout=subprocess.DEVNULL, stderr=subprocess.DEVNULL, env=env)
        p.stdin.write(json.dumps({"cases": [{k: v for k, v in c.items() if k != "spec"} for c in rest], "out": outp, "repo": repo}).encode())
        p.stdin.close()
        entry[2] = p
    for e in procs:
        spawn(e)
    import time
    t0 = time.time()
    pending = list(procs)
    while pending:
        for e in list(pending):
            ch, outp, p, done = e
            try:
                p.wait(timeout=0.2)
            except subprocess.TimeoutExpired:
                if time.time() - t0 > timeout:
                    p.kill()
                    p.wait()
                else:
                    continue
            lines = open(outp).read().splitlines() if os.path.exists(outp) else []
            got = 0
            for l in lines:
                try:
                    o = json.loads(l)
                except ValueError:
                    continue
                results[o.get("name")] = o
                got += 1
            e[3] = got
            if got < len(ch) and p.returncode == 3 and time.time() - t0 <= timeout:
                spawn(e)       # the child gave up after a poisoned case: continue with the rest
            else:
                pending.remove(e)
    return results


def trace_stats(o):
    """branches of the scheduler a controlled run went through"""
    st = {}

    def inc(k, n=1):
        st[k] = st.get(k, 0) + n
    running = 0
    maxrun = 0
    for it in o["trace"]:
        if it["k"] == "cb":
            inc("reader-callback")
        elif it["k"] == "env":
            inc("env-" + it["op"])
        elif it["k"] == "task":
            ev = it["ev"]
            for i, e in enumerate(ev):
                if e[0] == "acq" and (i + 1 >= len(ev) or ev[i + 1][0] != "got"):
                    inc("acquire-blocked")
                elif e[0] == "acq":
                    inc("acquire-immediate")
                elif e[0] == "rel":
                    inc("release" if e[1] is None else "release-raised")
                elif e[0] == "start":
                    running += 1
                    maxrun = max(maxrun, running)
                    inc("script-start")
                elif e[0] == "end":
                    running -= 1
                    inc("script-ok" if e[2] else "script-failed")
                elif e[0] == "done":
                    inc("task-ok" if e[1] else "task-failed")
                elif e[0] == "spawn":
                    inc("spawn-" + str(e[2]))
            if it["ev"] and it["ev"][0][0] == "got":
                inc("resumed-after-wait")
    st["max-running"] = maxrun
    kinds = {}
    for d in o["tasks"]:
        if d.get("kind") == "cook":
            kinds.setdefault((d["path"], d.get("sb")), set()).add(d.get("co"))
    st["co-pairs"] = sum(1 for v in kinds.values() if len(v) > 1)
    return st


# ---------------------------------------------------------------------------- oracle on implementation traces alone

def reach_deps(graph, s, memo):
    """valid steps that `s` depends on directly (the scripts that have to be finished before s starts)"""
    return [d for d in graph[s]["deps"] if graph[d]["valid"]]


def oracle_trace(o):
    """the property's own wording on one recorded run of the real builder; returns [(signature, text)]"""
    out = []
    graph = o["graph"]
    jobs = o["case"]["jobs"]
    keep = "-k" in o["case"]["argv"]
    bypath = {}
    for i, n in enumerate(graph):
        bypath.setdefault(n["path"], []).append(i)
    finished_ok = set()
    failed_paths = set()
    started = {}
    started_keys = {}
    running = set()
    first_fail_seen = False
    held = 0            # tokens taken - tokens given back, from the acquire/release events
    events = []
    spawned_at = {}
    last_got = {}
    fail_recorded_at = None
    pos = 0
    for it in o["trace"]:
        if it["k"] == "task":
            for e in it["ev"]:
                events.append((it["t"], e, it.get("s")))
                if e[0] == "spawn":
                    spawned_at[e[1]] = pos
                if e[0] == "done" and not e[1] and fail_recorded_at is None and any(x[0] == "end" and not x[2] for x in it["ev"]):
                    fail_recorded_at = pos      # the task whose script failed has ended: __taskWrapper recorded the error
                pos += 1
    recursive = bool(o.get("recursive"))
    for pos_, (t, e, snap) in enumerate(events):
        k = e[0]
        if k == "start":
            p = e[1]
            # 1. dependencies first (of the step object the task cooks: workspace + sandbox)
            sb = (o["tasks"][t] or {}).get("sb") if t < len(o["tasks"]) else None
            cands = [s for s in bypath.get(p, []) if graph[s]["valid"] and graph[s]["sb"] == sb] or \
                    [s for s in bypath.get(p, []) if graph[s]["valid"]]
            for s in cands[:1]:
                for d in graph[s]["deps"]:
                    if graph[d]["valid"] and graph[d]["path"] not in finished_ok:
                        out.append(("step-started-before-dependency-finished",
                                    "script of %s started before its dependency %s finished successfully" % (p, graph[d]["path"])))
            # 2. once and exclusive
            if p in running:
                out.append(("workspace-executed-concurrently", "two scripts run in %s at the same time" % p))
            key = (sb, (o["tasks"][t] or {}).get("co") if t < len(o["tasks"]) else None)
            if p in finished_ok:
                out.append(("workspace-executed-twice", "workspace %s executed a second time in one invocation" % p))
            elif p in started and p not in failed_paths:
                out.append(("workspace-executed-twice", "workspace %s executed a second time in one invocation" % p))
            elif key in started_keys.get(p, ()):
                # a failed step is not cooked again for the same (workspace, sandbox, checkoutOnly): its task stays in
                # the tracker and later requesters get the same exception
                out.append(("failed-step-executed-again", "step %s (same sandbox and checkoutOnly) executed again after it failed" % p))
            started_keys.setdefault(p, set()).add(key)
            started[p] = started.get(p, 0) + 1
            running.add(p)
            # 3. bounded
            if len(running) > jobs:
                out.append(("more-scripts-than-jobs" + ("-recursive-jobserver" if recursive else ""),
                            "%d scripts running with %d jobs configured" % (len(running), jobs)))
            # 4. without keep-going a failure stops the build: a task created after the failure was recorded
            #    has to find `running` cleared before it can start a script
            if not keep and fail_recorded_at is not None and last_got.get(t, -1) > fail_recorded_at:
                out.append(("build-continued-after-failure",
                            "script of %s started by a task that obtained its job slot after a failure had been recorded (no keep-going)" % p))
        elif k == "end":
            p = e[1]
            running.discard(p)
            if e[2]:
                finished_ok.add(p)
            else:
                failed_paths.add(p)
        elif k == "got":
            held += 1
            last_got[t] = pos_
        elif k == "rel":
            if e[1] is not None:
                out.append(("release-raised" + ("-recursive-jobserver" if recursive else ""),
                            "runners.release() raised %s" % e[1]))
            else:
                held -= 1
    res = o["result"]
    if res == "deadlock":
        out.append(("scheduler-deadlock", "no task can run, no script is running, the build is not finished"))
        return out
    if res == "exception":
        out.append(("internal-exception", "cook raised %s" % o.get("slogan")))
    any_failed = bool(failed_paths)
    if res == "ok" and any_failed:
        out.append(("failure-not-reported", "a script failed but the build reported success"))
    if res == "fail" and not any_failed and "injected" not in (o.get("slogan") or ""):
        out.append(("spurious-build-failure", "build failed without a failing script: %s" % o.get("slogan")))
    if res == "ok" and not any_failed and not o["co0"]:
        for _, p in _keepgoing_incomplete(o):
            out.append(("successful-build-left-step-unbuilt", "build succeeded but reachable step %s was not executed" % p))
    # 6. tokens
    if res in ("ok", "fail"):
        if held != 0:
            out.append(("token-not-given-back" + ("-recursive-jobserver" if recursive else ""),
                        "%d job slot(s) acquired but not released at the end of a build that was not aborted" % held))
        last = None
        for it in reversed(o["trace"]):
            if it.get("s"):
                last = it["s"]
                break
        if last and "pipe" in last and "unavailable" not in last:
            if last.get("tk", 0) != 0 or last.get("a", 0) != 0:
                out.append(("token-withheld-at-end" + ("-recursive-jobserver" if recursive else ""),
                            "at the end of the build the semaphore still holds tokens=%s acquired=%s" % (last.get("tk"), last.get("a"))))
            if last["pipe"] + last.get("envheld", 0) != o["case"]["pipe0"]:
                out.append(("jobserver-pipe-content-changed" + ("-recursive-jobserver" if recursive else ""),
                            "job server pipe holds %d tokens at the end, %d at the start" % (last["pipe"], o["case"]["pipe0"])))
        if last and "v" in last and "pipe" not in last and last["v"] != 1:
            out.append(("semaphore-value-at-end", "BoundedSemaphore value %s at the end" % last["v"]))
    # 7. results equal the sequential build: every executed script saw the final results of its inputs
    exp = {}

    def value(s):
        if s in exp:
            return exp[s]
        n = graph[s]
        exp[s] = "%s(%s)" % (n["path"], ",".join(value(d) for d in n["bid"]))
        return exp[s]
    for p, content in (o.get("results") or {}).items():
        if p in finished_ok:
            s = next((i for i in bypath.get(p, []) if graph[i]["valid"]), None)
            if s is not None and content != value(s):
                out.append(("result-differs-from-sequential-build", "content of %s is %r, a sequential build gives %r" % (p, content, value(s))))
    return out


def _keepgoing_incomplete(o):
    """with keep-going: reachable steps none of whose transitive dependencies failed but that were not executed"""
    out = []
    graph = o["graph"]
    keep = "-k" in o["case"]["argv"]
    finished_ok, failed_paths = set(), set()
    for it in o["trace"]:
        if it["k"] == "task":
            for e in it["ev"]:
                if e[0] == "end":
                    (finished_ok if e[2] else failed_paths).add(e[1])
    res = o["result"]
    any_failed = bool(failed_paths)
    # 5. failure confinement: a step whose (transitive) dependency failed never starts -- follows from 1.
    #    With keep-going every reachable step none of whose transitive dependencies failed was executed.
    if res in ("ok", "fail") and (keep or not any_failed) and not o["co0"]:
        bad_paths = set(failed_paths)
        need = set()

        def visit(s, seen):
            """returns True if s or something below it failed"""
            if s in seen:
                return seen[s]
            n = graph[s]
            seen[s] = False
            if not n["valid"]:
                return False        # dependencies of an invalid step are never cooked
            below = False
            for d in n["deps"]:
                if visit(d, seen):
                    below = True
            if n["path"] in bad_paths:
                below = True
            if not below:
                need.add(n["path"])
            seen[s] = below
            return below
        seen = {}
        for t_ in o["targets"]:
            visit(t_, seen)
        for p in sorted(need):
            if p not in finished_ok:
                out.append(("keep-going-leaves-independent-step-unbuilt", p))
    return out


# ---------------------------------------------------------------------------- JobServerSemaphore alone on a real FIFO

def sem_alone_run(args):
    """k tasks on n tokens: random acquire / release orders (several commands may be issued in the same
    loop iteration, so hand-overs in flight are exercised) and a child make that takes/returns tokens, on a
    real FIFO and a real asyncio loop.  Returns the recorded ops with the semaphore's state after each."""
    repo, seed, recursive, n_tokens, k, nops = args[:6]
    script = list(args[6]) if len(args) > 6 and args[6] else []
    import asyncio
    import random
    import selectors
    import tempfile
    import shutil
    import array
    import fcntl
    import termios
    if os.path.join(repo, "pym") not in sys.path:
        sys.path.insert(0, os.path.join(repo, "pym"))
    from bob.builder import JobServerSemaphore
    r = random.Random("sem-%s" % (seed,))
    tmp = tempfile.mkdtemp(prefix="c06sem-")
    log = []          # [op, arg, result, snapshot]

    def fion(fd):
        buf = array.array('i', [0])
        fcntl.ioctl(fd, termios.FIONREAD, buf)
        return buf[0]
    try:
        fifo = os.path.join(tmp, "f")
        os.mkfifo(fifo)
        rfd = os.open(fifo, os.O_RDONLY | os.O_NONBLOCK)
        wfd = os.open(fifo, os.O_WRONLY)
        os.write(wfd, b"+" * n_tokens)
        state = {"sem": None, "env": [], "ops": nops, "cur": None}
        holding = [0] * k          # how many slots worker i owns (harness view)
        blocked = [False] * k
        cmdq = [None] * k
        finished = []

        def snap():
            sem = state["sem"]
            try:
                s = {"w": sem._JobServerSemaphore__waitersCnt, "a": sem._JobServerSemaphore__acquired,
                     "tk": len(sem._JobServerSemaphore__tokens), "pipe": fion(rfd), "envheld": len(state["env"])}
                try:
                    key = loop._selector.get_key(rfd)
                    s["rd"] = bool(key.events & selectors.EVENT_READ) and key.data[0] is not None
                except KeyError:
                    s["rd"] = False
                inner = sem._JobServerSemaphore__sem
                s["v"] = inner._value
                s["nwait"] = len(inner._waiters or ())
                return s
            except AttributeError as e:
                return {"unavailable": str(e)}

        class L(asyncio.SelectorEventLoop):
            def _run_once(self):
                while not finished and not self._ready and not self._scheduled and not self._selector.select(0):
                    idle()
                super()._run_once()

        def idle():
            while script:
                issued = False
                for c in script.pop(0).split("+"):      # commands joined by + are issued in the same loop iteration
                    if c == "take" and fion(rfd) > 0:
                        state["env"].append(os.read(rfd, 1))
                        log.append(["take", None, "ok", snap()])
                    elif c == "ret" and state["env"]:
                        os.write(wfd, state["env"].pop())
                        log.append(["ret", None, "ok", snap()])
                    elif c.startswith("acq:") and not blocked[int(c[4:])] and not holding[int(c[4:])] and not cmdq[int(c[4:])].done():
                        cmdq[int(c[4:])].set_result("acq")
                        issued = True
                    elif c.startswith("rel:") and holding[int(c[4:])] and not blocked[int(c[4:])] and not cmdq[int(c[4:])].done():
                        cmdq[int(c[4:])].set_result("rel")
                        issued = True
                if issued:
                    return
            if state["ops"] <= 0:
                # wind down: release everything that is owned, return the child's tokens
                for i in range(k):
                    if holding[i] and not blocked[i]:
                        cmdq[i].set_result("rel")
                        return
                if state["env"]:
                    os.write(wfd, state["env"].pop())
                    log.append(["ret", None, "ok", snap()])
                    return
                if not any(blocked):
                    finished.append(True)
                    for i in range(k):
                        cmdq[i].set_result("stop")
                    return
                finished.append(False)      # somebody waits for ever
                for i in range(k):
                    if not blocked[i]:
                        cmdq[i].set_result("stop")
                loop.call_soon(loop.stop)
                return
            free = [i for i in range(k) if not blocked[i]]
            n_cmd = r.choice([1, 1, 1, 2, 2, 3])
            issued = False
            r.shuffle(free)
            for i in free[:n_cmd]:
                state["ops"] -= 1
                c = r.random()
                if holding[i]:
                    cmdq[i].set_result("rel")
                elif c < 0.06 and not any(blocked) and not any(holding):
                    cmdq[i].set_result("rel")          # release while nobody owns or waits for a slot: has to raise
                else:
                    cmdq[i].set_result("acq")
                issued = True
            c = r.random()
            if c < 0.15 and fion(rfd) > 0 and len(state["env"]) < n_tokens:
                state["env"].append(os.read(rfd, 1))
                log.append(["take", None, "ok", snap()])
            elif c < 0.4 and state["env"]:
                os.write(wfd, state["env"].pop())
                log.append(["ret", None, "ok", snap()])
            elif not issued:
                state["ops"] -= 1

        async def worker(i):
            sem = state["sem"]
            while True:
                cmdq[i] = loop.create_future()
                c = await cmdq[i]
                if c == "stop":
                    return
                if c == "acq":
                    blocked[i] = True
                    entry = ["acquire", i, None, None]
                    log.append(entry)
                    # the state right after the synchronous part is recorded by the loop hook below
                    state["cur"] = entry
                    await sem.acquire()
                    blocked[i] = False
                    holding[i] += 1
                    if entry[2] is None:
                        entry[2] = "got"
                        entry[3] = snap()
                    else:
                        log.append(["resume", i, "ok", snap()])
                    state["cur"] = None
                else:
                    try:
                        sem.release()
                        if holding[i]:
                            holding[i] -= 1
                        else:
                            # released a slot that another task owns: that one has lost it
                            for j in range(k):
                                if holding[j]:
                                    holding[j] -= 1
                                    break
                        log.append(["release", i, "ok", snap()])
                    except BaseException as e:  # noqa
                        holding[i] = 0
                        log.append(["release", i, type(e).__name__, snap()])

        import asyncio.events as aev
        orig_run = aev.Handle._run

        def handle_run(self):
            cb = self._callback
            is_cb = getattr(cb, "__name__", "") == "jobavailableCallback"
            try:
                return orig_run(self)
            finally:
                cur = state.get("cur")
                if cur is not None and cur[2] is None:
                    cur[2] = "blocked"
                    cur[3] = snap()
                    state["cur"] = None
                if is_cb:
                    log.append(["callback", None, "ok", snap()])
        aev.Handle._run = handle_run
        loop = L()
        asyncio.set_event_loop(loop)
        try:
            state["sem"] = JobServerSemaphore((rfd, wfd), recursive)

            async def main():
                ws = [loop.create_task(worker(i)) for i in range(k)]
                await asyncio.wait(ws)
            try:
                loop.run_until_complete(main())
            except RuntimeError:
                pass
        finally:
            aev.Handle._run = orig_run
            for t in asyncio.all_tasks(loop):
                t.cancel()
            try:
                loop.run_until_complete(asyncio.sleep(0))
            except BaseException:  # noqa
                pass
            asyncio.set_event_loop(None)
            loop.close()
        end = {"pipe": fion(rfd), "holding": holding, "blocked": blocked, "complete": bool(finished and finished[0])}
        os.close(rfd)
        os.close(wfd)
        return {"seed": seed, "recursive": recursive, "n": n_tokens, "k": k, "log": log, "end": end,
                "script": (list(args[6]) if len(args) > 6 and args[6] else None)}
    finally:
        shutil.rmtree(tmp, ignore_errors=True)


def sem_alone_oracle(res):
    """the property on the semaphore alone: bounded, nothing lost, nothing duplicated, release without slot raises"""
    out = []
    n = res["n"]
    rec = res["recursive"]
    cap = n + (1 if rec else 0)
    owners = {}
    tag = "F-C06-1-recursive-jobserver-inflight-handover" if rec else None
    for op, i, result, s in res["log"]:
        if op in ("acquire",) and result == "got" or op == "resume":
            owners[i] = owners.get(i, 0) + 1
        if op == "release":
            total = sum(owners.values())
            if result == "ok":
                if total == 0:
                    out.append((tag or "release-without-slot-accepted", "release() succeeded although no task owns a slot"))
                elif owners.get(i, 0):
                    owners[i] -= 1
                else:
                    j = next(j for j, v in owners.items() if v)
                    owners[j] -= 1
            elif total > 0:
                out.append((tag or "release-raised", "release() raised %s although %d slot(s) are owned" % (result, total)))
        if sum(owners.values()) > cap:
            out.append((tag or "more-owners-than-slots", "%d owners of %d slots" % (sum(owners.values()), cap)))
        if s and "unavailable" not in s and s["pipe"] + s["tk"] + s["envheld"] != n:
            out.append((tag or "token-count-changed", "pipe %d + held %d + child %d != %d" % (s["pipe"], s["tk"], s["envheld"], n)))
    if res["end"]["complete"]:
        if res["end"]["pipe"] != n:
            out.append((tag or "token-not-given-back", "all slots released but the pipe holds %d of %d tokens" % (res["end"]["pipe"], n)))
    else:
        out.append((tag or "waiter-never-served", "a task waits for ever although every owner has released its slot"))
    return out


def sem_alone_requests(res):
    reqs = [{"op": "sem-init", "recursive": res["recursive"], "pipe": res["n"]}]
    for op, i, result, s in res["log"]:
        rq = {"op": {"acquire": "acquire", "resume": "resume", "release": "release", "callback": "callback",
                     "take": "take", "ret": "ret"}[op]}
        if i is not None:
            rq["t"] = i
        reqs.append(rq)
    reqs.append({"op": "sem-end"})
    return reqs


def sem_alone_compare(res, replies):
    bad = []
    for (op, i, result, s), rp in zip(res["log"], replies[1:]):
        want = {"ok": "ok", "got": "got", "blocked": "blocked"}.get(result, result)
        if rp.get("r") != want:
            bad.append({"op": op, "t": i, "impl": result, "model": rp.get("r")})
            break
        if s and "unavailable" not in s:
            d = {k: (s[k], rp.get(k)) for k in ("w", "a", "tk", "pipe", "rd", "envheld", "v", "nwait") if s.get(k) != rp.get(k)}
            if d:
                bad.append({"op": op, "t": i, "state": d})
                break
    return bad


# ---------------------------------------------------------------------------- real subprocess runs

def real_start(repo, spec, d, jobs, keep, fail):
    from gen import c06_projects as P
    roots = P.write_project(spec, d, real=True, fail=set(tuple(f) for f in fail))
    argv = [sys.executable, os.path.join(repo, "bob"), "dev"] + roots + ["-A", "--download", "no", "-j", str(jobs)]
    if keep:
        argv.append("-k")
    env = dict(os.environ, PYTHONPATH=os.path.join(repo, "pym"), PYTHONDONTWRITEBYTECODE="1")
    env.pop("MAKEFLAGS", None)
    return subprocess.Popen(argv, cwd=d, stdout=subprocess.DEVNULL, stderr=subprocess.DEVNULL, env=env)


def real_collect(d):
    log = []
    try:
        for l in open(os.path.join(d, "events.log")):
            w = l.split()
            if len(w) >= 4 and w[0] in ("start", "end"):
                log.append(w)
    except OSError:
        pass
    results = {}
    for root, dirs, files in os.walk(os.path.join(d, "dev", "dist")):
        if "result.txt" in files and root.endswith("workspace"):
            results[os.path.relpath(root, d)] = open(os.path.join(root, "result.txt")).read()
    return log, results


def real_oracle(spec, jobs, keep, fail, rc, log, d):
    out = []
    pk = {p["name"]: p for p in spec["packages"]}
    names = [p["name"] for p in spec["packages"]]
    ok_end = set()          # (pkg, what) with a successful end so far
    running = {}            # cwd -> (pkg, what)
    state = {}              # cwd -> "running" | "ok" | "fail"
    failed_any = False
    for w in log:
        if w[0] == "start":
            pkg, what, cwd = w[1], w[2], w[3]
            p = pk.get(pkg)
            need = []
            if p is not None:
                if what == "build":
                    if p["checkout"]:
                        need.append((pkg, "checkout"))
                    for j in sorted(set(p["deps"]) | set(p["buildTools"])):
                        need.append((names[j], "package"))
                elif what == "package":
                    if p["build"]:
                        need.append((pkg, "build"))
                elif what == "checkout":
                    for j in p["checkoutTools"]:
                        need.append((names[j], "package"))
            for nd in need:
                if nd not in ok_end:
                    out.append(("step-started-before-dependency-finished", "%s %s started before %s %s ended successfully" % (pkg, what, nd[0], nd[1])))
            if state.get(cwd) == "running":
                out.append(("workspace-executed-concurrently", "two scripts at once in %s" % os.path.relpath(cwd, d)))
            elif state.get(cwd) == "ok":
                out.append(("workspace-executed-twice", "%s executed a second time" % os.path.relpath(cwd, d)))
            state[cwd] = "running"
            running[cwd] = (pkg, what)
            if len(running) > jobs:
                out.append(("more-scripts-than-jobs", "%d scripts running with -j %d" % (len(running), jobs)))
        else:
            pkg, what, cwd, res = w[1], w[2], w[3], (w[4] if len(w) > 4 else "ok")
            running.pop(cwd, None)
            if res == "ok":
                state[cwd] = "ok"
                ok_end.add((pkg, what))
            else:
                state[cwd] = "fail"
                failed_any = True
    # a script that was started but never logged its end died on its own (bash error, killed): that is a failed script too
    if running:
        failed_any = True
    if rc == 0 and (failed_any or fail):
        if failed_any:
            out.append(("failure-not-reported", "a script failed but bob dev exited with 0"))
    if rc != 0 and not failed_any:
        out.append(("spurious-build-failure", "bob dev exited with %s although no script failed" % rc))
    return out


# ---------------------------------------------------------------------------- the check

_STATE = {}


SEM_SCRIPTS = [
    # the child make holds the only token, a task waits, the token comes back: the reader callback has to serve it
    (False, 1, 1, ["take", "acq:0", "ret"]),
    (False, 1, 2, ["take", "acq:0", "ret"]),
    (True, 1, 3, ["acq:0", "take", "acq:1", "ret"]),
    # two owners release in the same loop iteration while one task waits (hand-over in flight)
    (True, 1, 3, ["acq:0", "acq:1", "acq:2", "rel:0+rel:1"]),
    (False, 2, 3, ["acq:0", "acq:1", "acq:2", "rel:0+rel:1"]),
    # hand-over followed by a fresh acquire before the waiter continues
    (True, 0, 3, ["acq:0", "acq:1", "acq:2+rel:0"]),
    (True, 0, 3, ["acq:0", "acq:1", "rel:0+acq:2"]),
]


def _sem_args(ctx, i):
    r = ctx.subrng("sem", i)
    if i < len(SEM_SCRIPTS):
        rec, n, k, script = SEM_SCRIPTS[i]
        return (ctx.repo, "%d-%d" % (ctx.seed, i), rec, n, k, 12, script)
    return (ctx.repo, "%d-%d" % (ctx.seed, i), i % 2 == 1, r.randrange(1, 4), r.randrange(2, 6), 40, None)


def oracle(ctx):
    from gen import c06_projects as P
    repo = ctx.repo
    t0 = time.time()
    budget = ctx.time_left()
    # every temporary file (FIFOs of the semaphore runs, Bob's own job server FIFO in the children) below ctx.tmp
    import tempfile
    os.environ["TMPDIR"] = ctx.tmp
    tempfile.tempdir = ctx.tmp
    # (b) controlled runs of the real builder: children run while the rest goes on
    base = os.path.join(ctx.tmp, "ctl")
    os.makedirs(base)
    r = ctx.subrng("controlled")
    n_ctl = ctx.scale(40, 1500)
    tcases = targeted_cases(r, base)
    cases = tcases + [gen_controlled_case(r, base, i, 0.35) for i in range(n_ctl)]
    workers = min(8, max(2, (os.cpu_count() or 4) // 2))
    tpool = ChildPool(repo, tcases, base, 2, tag="t")
    ctl = ChildPool(repo, cases[len(tcases):], base, workers)
    # (c) real subprocess runs
    real = []
    rr = ctx.subrng("real")
    for i in range(ctx.scale(2, 24)):
        spec = P.gen_spec(rr, rr.randrange(3, 7))
        jobs = rr.choice([2, 3, 4])
        keep = rr.random() < 0.4
        fail = []
        if rr.random() < 0.4:
            p = rr.choice(spec["packages"])
            fail = [[p["name"], rr.choice(["checkout", "build", "package"])]]
        dseq = os.path.join(ctx.tmp, "real%d-seq" % i)
        dpar = os.path.join(ctx.tmp, "real%d-par" % i)
        real.append({"spec": spec, "jobs": jobs, "keep": keep, "fail": fail, "dseq": dseq, "dpar": dpar,
                     "pseq": real_start(repo, spec, dseq, 1, keep, fail), "ppar": real_start(repo, spec, dpar, jobs, keep, fail)})
    # (a) semaphore alone, in this process, for a share of the budget
    sem = []
    n_sem = ctx.scale(120, 6000)
    i = 0
    while i < n_sem and (i < 24 or (time.time() - t0 < 0.22 * budget and not ctx.out_of_time())):
        res = sem_alone_run(_sem_args(ctx, i))
        res["i"] = i
        sem.append(res)
        nontriv = any(x[0] in ("resume", "callback") or x[2] == "blocked" for x in res["log"])
        ctx.case(("sem", res["seed"], res["recursive"]), nontrivial=nontriv,
                 sample={"kind": "semaphore-alone", "recursive": res["recursive"], "tokens": res["n"], "tasks": res["k"],
                         "ops": [x[:3] for x in res["log"][:12]]})
        for x in res["log"]:
            ctx.count("sem_op", "%s:%s" % (x[0], x[2]))
        for sig, text in sem_alone_oracle(res):
            ctx.violation("semaphore alone (recursive=%s, %d tokens, %d tasks): %s" % (res["recursive"], res["n"], res["k"], text),
                          {"kind": "sem", "args": list(_sem_args(ctx, i))[1:]}, sig)
        i += 1
    # collect (b)
    ctl.wait(max(5.0, min(0.55 * budget, ctx.time_left() - 0.30 * budget)))
    tpool.wait(max(30.0, ctx.time_left() - 0.2 * budget) if ctx.tier == "quick" else 600.0)   # the targeted cases are the minimum
    results = dict(ctl.results)
    results.update(tpool.results)
    got = 0
    for c in cases:
        o = results.get(c["name"])
        if o is None:
            continue
        if o.get("result") in ("harness-error",) or not o.get("graph"):
            ctx.count("controlled", "no-trace:" + str(o.get("result")))
            continue
        got += 1
        st = trace_stats(o)
        for k, v in st.items():
            if k == "max-running":
                ctx.count("controlled_max_running", v)
            else:
                ctx.count("controlled", k, v)
        ctx.count("controlled_result", o["result"])
        ctx.case(("ctl", json.dumps(c["spec"], sort_keys=True), c["argv"], c["choices"][:8], c["fail"], c["makeflags"]),
                 nontrivial=st.get("script-start", 0) > 0,
                 sample={"kind": "controlled", "argv": c["argv"], "makeflags": c["makeflags"], "fail": c["fail"],
                         "result": o["result"], "tasks": len(o["tasks"]), "steps": len(o["trace"])})
        for sig, text in oracle_trace(o):
            ctx.violation("bob dev %s (external job server: %s): %s" % (" ".join(c["argv"]), c["makeflags"], text),
                          {"kind": "controlled", "case": {k: v for k, v in c.items() if k not in ("dir", "name")}}, sig)
        for sig, text in oracle_keepgoing(o):
            ctx.count("observation", sig)
    if got < len(cases):
        ctx.skip("controlled builder runs: %d of %d finished within the time budget" % (got, len(cases)))
    _STATE["controlled"] = [(c, results[c["name"]]) for c in cases if c["name"] in results and results[c["name"]].get("graph")]
    _STATE["sem"] = sem
    # collect (c)
    for i, e in enumerate(real):
        left = max(1.0, ctx.time_left() - 0.22 * budget)
        try:
            rc_seq = e["pseq"].wait(timeout=left)
            rc_par = e["ppar"].wait(timeout=max(1.0, ctx.time_left() - 0.22 * budget))
        except subprocess.TimeoutExpired:
            for p in (e["pseq"], e["ppar"]):
                if p.poll() is None:
                    p.kill()
                    p.wait()
            ctx.skip("real subprocess run %d did not finish within the time budget" % i)
            continue
        case = {"kind": "real", "spec": e["spec"], "jobs": e["jobs"], "keep": e["keep"], "fail": e["fail"]}
        viol = real_check(e, rc_seq, rc_par)
        ctx.case(("real", json.dumps(e["spec"], sort_keys=True), e["jobs"], e["keep"], e["fail"]),
                 sample={"kind": "real-subprocess", "jobs": e["jobs"], "keep": e["keep"], "fail": e["fail"], "rc": [rc_seq, rc_par]})
        ctx.count("real", "rc=%s" % rc_par)
        for sig, text in viol:
            ctx.violation("real run -j%d%s: %s" % (e["jobs"], " -k" if e["keep"] else "", text), case, sig)


def real_check(e, rc_seq, rc_par):
    log_s, res_s = real_collect(e["dseq"])
    log_p, res_p = real_collect(e["dpar"])
    out = []
    out += real_oracle(e["spec"], 1, e["keep"], e["fail"], rc_seq, log_s, e["dseq"])
    out += real_oracle(e["spec"], e["jobs"], e["keep"], e["fail"], rc_par, log_p, e["dpar"])
    if (rc_seq == 0) != (rc_par == 0):
        out.append(("parallel-result-differs-from-sequential", "exit status %s with -j%d, %s sequentially" % (rc_par, e["jobs"], rc_seq)))
    for k in sorted(set(res_s) & set(res_p)):
        if res_s[k] != res_p[k]:
            out.append(("parallel-result-differs-from-sequential", "%s: %r with -j%d, %r sequentially" % (k, res_p[k], e["jobs"], res_s[k])))
    if not e["fail"] and set(res_s) != set(res_p):
        out.append(("parallel-result-differs-from-sequential", "different sets of results: %s" % sorted(set(res_s) ^ set(res_p))))
    return out


def oracle_keepgoing(o):
    """observation only (DESIGN theorem 5c is refuted for model and code by the build-id pre-pass)"""
    return [x for x in _keepgoing_incomplete(o)]


class ChildPool:
    """child processes running controlled cases; a child that met a deadlock is restarted for the rest"""

    def __init__(self, repo, cases, out_dir, workers, tag=""):
        self.repo = repo
        self.env = dict(os.environ, PYTHONPATH=os.path.join(repo, "pym"), PYTHONDONTWRITEBYTECODE="1")
        self.entries = []
        self.results = {}
        chunks = [cases[i::workers] for i in range(workers)]
        for i, ch in enumerate(chunks):
            if ch:
                e = {"cases": ch, "out": os.path.join(out_dir, "child%s%d.jsonl" % (tag, i)), "p": None, "done": 0, "restarts": 0}
                self.entries.append(e)
                self._spawn(e)

    def _spawn(self, e):
        rest = e["cases"][e["done"]:]
        p = subprocess.Popen([sys.executable, CHILD], stdin=subprocess.PIPE, stdout=subprocess.DEVNULL,
                             stderr=subprocess.DEVNULL, env=self.env)
        p.stdin.write(json.dumps({"cases": [{k: v for k, v in c.items() if k != "spec"} for c in rest],
                                  "out": e["out"], "repo": self.repo}).encode())
        p.stdin.close()
        e["p"] = p

    def _read(self, e):
        got = 0
        if os.path.exists(e["out"]):
            for l in open(e["out"]).read().splitlines():
                try:
                    o = json.loads(l)
                except ValueError:
                    continue
                self.results[o.get("name")] = o
                got += 1
        e["done"] = got

    def wait(self, timeout):
        t0 = time.time()
        pending = list(self.entries)
        while pending:
            for e in list(pending):
                if e["p"].poll() is None:
                    if time.time() - t0 > timeout:
                        e["p"].kill()
                        e["p"].wait()
                        self._read(e)
                        pending.remove(e)
                    continue
                self._read(e)
                if e["done"] < len(e["cases"]) and e["p"].returncode == 3 and e["restarts"] < 20 and time.time() - t0 <= timeout:
                    e["restarts"] += 1
                    self._spawn(e)
                else:
                    pending.remove(e)
            time.sleep(0.1)


def correspond(ctx):
    ctl = _STATE.get("controlled", [])
    sem = _STATE.get("sem", [])
    reqs = []
    plan = []
    n_explore = 0
    for c, o in ctl:
        rq, ex = model_requests(o)
        # a few random schedules of the model on the same project, all invariants evaluated at every step
        extra = []
        if n_explore < ctx.scale(12, 120) and ctx.time_left() > 0.1 * ctx.budget:
            n_explore += 1
            extra = [{"op": "explore", "seed": ctx.seed * 7919 + len(plan), "runs": ctx.scale(6, 40), "maxsteps": 3000,
                      "failmod": fm, "takes": 3} for fm in (0, 3)]
        plan.append(("ctl", c, o, rq, ex, len(rq), len(extra)))
        reqs += rq + extra
    for res in sem:
        rq = sem_alone_requests(res)
        plan.append(("sem", res, None, rq, None, len(rq), 0))
        reqs += rq
    if not reqs:
        ctx.skip("correspondence: no implementation trace available")
        return
    import subprocess as _sp
    try:
        replies = ctx.lean(DRIVER, reqs, timeout=max(900, ctx.time_left() + 600))
    except _sp.TimeoutExpired:
        # a slow machine is not a verdict about the property
        ctx.skip("correspondence: model driver did not finish in time (%d requests)" % len(reqs))
        return
    pos = 0
    for kind, c, o, rq, ex, n, nx in plan:
        rp = replies[pos:pos + n]
        xp = replies[pos + n:pos + n + nx]
        pos += n + nx
        if kind == "ctl":
            bad = compare(o, rq, ex, rp)
            ctx.trace_validated(1)
            ctx.count("correspond", "controlled-steps", n)
            if bad:
                ctx.disagree("LocalBuilder.cook trace == Model.Sched (events and state after every task step)",
                             {"kind": "controlled", "case": {k: v for k, v in c.items() if k not in ("dir", "name")}},
                             bad[0].get("impl", bad[0].get("diff")), bad[0].get("model", bad[0]))
            for x in xp:
                ctx.count("correspond", "explored-model-steps", x.get("steps", 0))
                ctx.count("correspond", "explored-terminal-runs", x.get("terminal", 0))
                if x.get("violation"):
                    ctx.disagree("executable invariants of Props/C06 hold on random schedules of the model",
                                 {"kind": "controlled", "case": {k: v for k, v in c.items() if k not in ("dir", "name")}},
                                 None, x["violation"])
        else:
            bad = sem_alone_compare(c, rp)
            ctx.trace_validated(1)
            ctx.count("correspond", "semaphore-ops", n)
            if bad:
                ctx.disagree("JobServerSemaphore on a real FIFO == Model.JobSem (result and state after every operation)",
                             {"kind": "sem", "args": [c["seed"], c["recursive"], c["n"], c["k"], 40, c.get("script")]}, bad[0], None)


def replay(ctx, case):
    import tempfile
    os.environ["TMPDIR"] = ctx.tmp
    tempfile.tempdir = ctx.tmp
    k = case.get("kind")
    if k == "sem":
        res = sem_alone_run(tuple([ctx.repo] + list(case["args"])))
        for sig, text in sem_alone_oracle(res):
            ctx.violation(text, case, sig)
    elif k == "controlled":
        from gen import c06_projects as P
        c = dict(case["case"])
        d = os.path.join(ctx.tmp, "replay")
        if c["spec"].get("sandbox-project"):
            P.write_sandbox_project(d)
        else:
            P.write_project(c["spec"], d)
        c["dir"] = d
        c["name"] = "replay"
        pool = ChildPool(ctx.repo, [c], ctx.tmp, 1)
        pool.wait(300)
        o = pool.results.get("replay")
        if o and o.get("graph"):
            for sig, text in oracle_trace(o):
                ctx.violation(text, case, sig)
    elif k == "real":
        e = dict(case)
        e["dseq"] = os.path.join(ctx.tmp, "rseq")
        e["dpar"] = os.path.join(ctx.tmp, "rpar")
        ps = real_start(ctx.repo, e["spec"], e["dseq"], 1, e["keep"], e["fail"])
        pp = real_start(ctx.repo, e["spec"], e["dpar"], e["jobs"], e["keep"], e["fail"])
        rc_s = ps.wait(timeout=600)
        rc_p = pp.wait(timeout=600)
        for sig, text in real_check(e, rc_s, rc_p):
            ctx.violation(text, case, sig)


MANIFEST = {
    "text": "Proved in Lean (Props/C06.lean), for all projects (any step lists: shared nodes, shared workspaces, sandbox and "
            "checkoutOnly variants), all job counts, all schedules (any interleaving of task operations, script ends with success "
            "or failure, reader callbacks, child-make token traffic), with and without keep-going, about a hand-written model of "
            "LocalBuilder.cook's cooperative scheduler, JobServerSemaphore (internal and external job server), BoundedSemaphore "
            "and asyncio.Lock: tokens_conserved (pipe + held + child = n; held = owners incl. hand-overs in flight; waiter "
            "accounting), tokens_returned (terminal configurations give every token back), release_never_raises, "
            "release_without_token_raises, no_lost_wakeup (safety form + callback progress), running_le_jobs, owners_le_jobs, "
            "exclusive (never two scripts in one workspace), scripts_only_under_lock, lock_holders_le_one, lock_accounting, "
            "unlock_never_raises, no_internal_error, failure_stops_build / check_fails_when_stopped (no keep-going), "
            "keep_going_never_stops, events_of_a_step, wasrun_lookup_exact / cook_filter_exact (under PathVid), once (under PathVid, "
            "by the invariant OnceInv over Reach: per workspace script starts and ends alternate and a workspace is started again "
            "only after a failed execution), deps_first (under PathVid, at full strength: parallel and sequential -j1 scheduler, by "
            "the invariant Full.DepsInv over Reach: along every continuation each operation that leads to a script start is "
            "preceded by the _cook / spawn / gather resp. spawnSeq / waitOnly / results of its dependencies; "
            "deps_first_partial is the earlier parallel-only version), schedule_independent_fixed (the dataflow theorem with "
            "the added hypothesis ReadsDeps: what a script reads, bidDeps, is among the valid deps of its step; all modes; "
            "schedule_independent_partial / _partial_par are earlier conditional versions). schedule_independent as originally "
            "stated is REFUTED for the model by a kernel-checked witness (schedule_independent_refuted: the statement lacks "
            "ReadsDeps; the witness is not a Bob project, getAllDepSteps contains arguments and tools). The executable forms "
            "depsFirst / onceLegal / valueInv are still evaluated on every replayed and explored schedule. "
            "keepgoing_complete (DESIGN 5c) is refuted by implementation traces. The model is tied to the current source by "
            "replaying, event by event and state by state, the schedules that the REAL cook (bob dev in-process on a real asyncio "
            "loop with harness-controlled script completion) and the real JobServerSemaphore on a real FIFO took; the property "
            "oracle runs on the implementation traces and on real subprocess builds (-j1 vs -jN).",
    "note": "trusted: Lean kernel, harness/props/c06.py + harness/gen/c06_child.py + harness/gen/c06_projects.py, CPython 3.12 "
            "asyncio (cooperative contract, Semaphore/Lock semantics as modelled and validated differentially); not covered: "
            "SIGINT/cancellation, restart round of live build-ids, downloads, shared packages, fingerprint scripts, audit, real time",
    "technique": "Lean 4 proof over hand-written model + schedule-replay correspondence + trace oracle",
}
