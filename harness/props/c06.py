"""C06 - parallel builds are schedule independent and bounded.   (work in progress)
"""
import json
import os
import subprocess
import sys

DRIVER = "drv_c06"
RULE = "tbd"
ASSUMPTIONS = []

HERE = os.path.dirname(os.path.abspath(__file__))
CHILD = os.path.join(os.path.dirname(HERE), "gen", "c06_child.py")
MOD = 2305843009213693951


def run_fn(s, ins):
    a = s + 7
    for v in ins:
        a = (a * 1000003 + v + 1) % MOD
    return a


# ---------------------------------------------------------------------------- impl trace -> model requests

class Interner:
    def __init__(self):
        self.m = {}

    def __call__(self, x):
        if x is None:
            return None
        if x not in self.m:
            self.m[x] = len(self.m)
        return self.m[x]


def model_requests(o):
    """requests for drv_c06 that replay the schedule the implementation took, and what is expected back"""
    graph = o["graph"]
    pid, vid = Interner(), Interner()
    for n in graph:
        pid(n["path"])
    steps = [{"kind": n["kind"], "path": pid(n["path"]), "vid": vid(n["vid"]), "sb": (vid(n["sb"]) if n["sb"] else None),
              "valid": n["valid"], "deps": n["deps"], "bid": n["bid"]} for n in graph]
    argv = o["case"]["argv"]
    jobs = o["case"]["jobs"]
    if o["sem"] == "job":
        runners = {"kind": "job", "recursive": bool(o["recursive"]), "pipe": o["case"]["pipe0"]}
    else:
        runners = {"kind": "bounded", "n": 1}
    cfg = {"par": jobs > 1, "keepGoing": ("-k" in argv), "co0": bool(o["co0"]), "targets": o["targets"]}
    reqs = [{"op": "init", "steps": steps, "cfg": cfg, "runners": runners, "n": (o["case"]["pipe0"] if o["sem"] == "job" else 1)}]
    expect = [None]
    first_stray = True
    for it in o["trace"]:
        k = it["k"]
        if k == "stray":
            if first_stray and len(it["ev"]) == 1 and it["ev"][0][:3] == ["spawn", 0, "disp"]:
                first_stray = False
                continue
            reqs.append({"op": "stray"})
            expect.append(("stray", it))
        elif k == "task":
            reqs.append({"op": "task", "t": it["t"]})
            expect.append(("task", [canon_impl_ev(e, pid) for e in it["ev"]], canon_impl_snap(it["s"], pid)))
        elif k == "cb":
            reqs.append({"op": "cb"})
            expect.append(("env", canon_impl_snap(it["s"], pid)))
        elif k == "env":
            if it["op"] == "fin":
                reqs.append({"op": "fin", "t": it["t"], "ok": it["ok"]})
                expect.append(("env", None))
            else:
                reqs.append({"op": it["op"]})
                expect.append(("env", canon_impl_snap(it["s"], pid)))
        elif k == "other":
            reqs.append({"op": "stray"})
            expect.append(("stray", it))
    reqs.append({"op": "final"})
    expect.append(("final", pid))
    return reqs, expect


def canon_impl_ev(e, pid):
    k = e[0]
    if k == "spawn":
        return ["spawn", e[1], e[2], pid(e[3]), e[4] if e[2] == "cook" else None]
    if k == "rel":
        return ["rel", e[1] is None]
    if k == "start":
        return ["start", pid(e[1])]
    if k == "end":
        return ["end", pid(e[1]), bool(e[2])]
    if k == "setrun":
        return ["setrun", pid(e[1]), bool(e[2])]
    return e


def canon_impl_snap(s, pid):
    if s is None or "unavailable" in s:
        return None
    out = {k: v for k, v in s.items() if k in ("w", "a", "tk", "pipe", "rd", "envheld", "v", "run", "err", "ncook", "nbid")}
    out["locks"] = sorted(pid(p) for p in s["locks"])
    out["wasrun"] = sorted([pid(p), sk] for p, sk in s["wasrun"])
    return out


def canon_model_ev(e, steps):
    k = e[0]
    if k == "spawn":
        return ["spawn", e[1], e[2], (steps[e[3]]["path"] if e[3] is not None else None), e[4]]
    if k in ("start",):
        return ["start", steps[e[1]]["path"]]
    if k == "end":
        return ["end", steps[e[1]]["path"], e[2]]
    if k == "setrun":
        return ["setrun", steps[e[1]]["path"], e[2]]
    return e


def compare(o, reqs, expect, replies, verbose=False):
    steps = reqs[0]["steps"]
    bad = []
    for i, (rq, ex, rp) in enumerate(zip(reqs, expect, replies)):
        if ex is None:
            continue
        if ex[0] == "stray":
            bad.append({"at": i, "why": "event outside a task step", "impl": ex[1]})
            continue
        if rp.get("inv"):
            bad.append({"at": i, "req": rq, "why": "model invariant", "inv": rp["inv"]})
            break
        if ex[0] == "task":
            mev = [canon_model_ev(e, steps) for e in rp.get("ev", []) if e[0] not in ("pass", "failrec")]
            msnap = rp.get("s")
            if verbose:
                print(i, rq, "impl", json.dumps(ex[1]), "model", json.dumps(mev))
            if mev != ex[1]:
                bad.append({"at": i, "req": rq, "why": "events", "impl": ex[1], "model": mev})
                break
            d = snap_diff(ex[2], msnap)
            if d:
                bad.append({"at": i, "req": rq, "why": "state", "diff": d})
                break
        elif ex[0] == "env":
            if not rp.get("ok", False):
                bad.append({"at": i, "req": rq, "why": "environment event not enabled in the model"})
                break
            d = snap_diff(ex[1], rp.get("s")) if ex[1] else None
            if d:
                bad.append({"at": i, "req": rq, "why": "state", "diff": d})
                break
        elif ex[0] == "final":
            pass
    return bad


def snap_diff(impl, model):
    if impl is None:
        return None
    d = {}
    for k, v in impl.items():
        mv = model.get(k)
        if k == "wasrun":
            mv = [list(x) for x in mv]
        if mv != v:
            d[k] = {"impl": v, "model": mv}
    return d or None


# ---------------------------------------------------------------------------- controlled runs of the real builder

def gen_controlled_case(r, base, idx, recursive_share=0.0):
    """one project + invocation + schedule; everything drawn from r"""
    from gen import c06_projects as P
    spec = P.gen_spec(r)
    d = os.path.join(base, "c%04d" % idx)
    roots = P.write_project(spec, d)
    jobs = r.choice([1, 2, 2, 3, 3, 4, 6])
    argv = list(roots) + ["-A", "--download", "no"]
    mf = None
    if jobs > 1 and r.random() < recursive_share:
        mf = {"jobs": jobs, "tokens": jobs - 1}
    else:
        argv += ["-j", str(jobs)]
    if r.random() < 0.4:
        argv.append("-k")
    if r.random() < 0.2:
        argv.append("-B")
    # injected failures: workspace paths are dev/<src|build|dist>/<pkg>/1/workspace in a fresh project
    fail = []
    if r.random() < 0.45:
        for _ in range(r.choice([1, 1, 2])):
            p = r.choice(spec["packages"])
            kind = r.choice(["src", "build", "dist"])
            fail.append("dev/%s/%s/1/workspace" % (kind, p["name"]))
    case = {"name": "c%04d" % idx, "dir": d, "argv": argv, "choices": [r.randrange(1 << 20) for _ in range(80)],
            "fail": sorted(set(fail)), "env_takes": r.choice([0, 0, 1, 3]), "makeflags": mf, "spec": spec}
    return case


def run_children(repo, cases, out_dir, workers=8, timeout=120):
    """spread the cases over child processes; returns {name: result}"""
    chunks = [cases[i::workers] for i in range(workers)]
    procs = []
    env = dict(os.environ, PYTHONPATH=os.path.join(repo, "pym"), PYTHONDONTWRITEBYTECODE="1")
    py = sys.executable
    for i, ch in enumerate(chunks):
        if not ch:
            continue
        outp = os.path.join(out_dir, "child%d.jsonl" % i)
        procs.append([ch, outp, None, 0])
    results = {}

    def spawn(entry):
        ch, outp, _, done = entry
        rest = ch[done:]
        p = subprocess.Popen([py, CHILD], stdin=subprocess.PIPE, stdout=subprocess.DEVNULL, stderr=subprocess.DEVNULL, env=env)
        p.stdin.write(json.dumps({"cases": [{k: v for k, v in c.items() if k != "spec"} for c in rest], "out": outp, "repo": repo}).encode())
        p.stdin.close()
        entry[2] = p
    for e in procs:
        spawn(e)
    import time
    t0 = time.time()
    pending = list(procs)
    while pending:
        for e in list(pending):
            ch, outp, p, done = e
            try:
                p.wait(timeout=0.2)
            except subprocess.TimeoutExpired:
                if time.time() - t0 > timeout:
                    p.kill()
                    p.wait()
                else:
                    continue
            lines = open(outp).read().splitlines() if os.path.exists(outp) else []
            got = 0
            for l in lines:
                try:
                    o = json.loads(l)
                except ValueError:
                    continue
                results[o.get("name")] = o
                got += 1
            e[3] = got
            if got < len(ch) and p.returncode == 3 and time.time() - t0 <= timeout:
                spawn(e)       # the child gave up after a poisoned case: continue with the rest
            else:
                pending.remove(e)
    return results


def trace_stats(o):
    """branches of the scheduler a controlled run went through"""
    st = {}

    def inc(k, n=1):
        st[k] = st.get(k, 0) + n
    running = 0
    maxrun = 0
    for it in o["trace"]:
        if it["k"] == "cb":
            inc("reader-callback")
        elif it["k"] == "env":
            inc("env-" + it["op"])
        elif it["k"] == "task":
            ev = it["ev"]
            for i, e in enumerate(ev):
                if e[0] == "acq" and (i + 1 >= len(ev) or ev[i + 1][0] != "got"):
                    inc("acquire-blocked")
                elif e[0] == "acq":
                    inc("acquire-immediate")
                elif e[0] == "rel":
                    inc("release" if e[1] is None else "release-raised")
                elif e[0] == "start":
                    running += 1
                    maxrun = max(maxrun, running)
                    inc("script-start")
                elif e[0] == "end":
                    running -= 1
                    inc("script-ok" if e[2] else "script-failed")
                elif e[0] == "done":
                    inc("task-ok" if e[1] else "task-failed")
                elif e[0] == "spawn":
                    inc("spawn-" + str(e[2]))
            if it["ev"] and it["ev"][0][0] == "got":
                inc("resumed-after-wait")
    st["max-running"] = maxrun
    kinds = {}
    for d in o["tasks"]:
        if d.get("kind") == "cook":
            kinds.setdefault((d["path"], d.get("sb")), set()).add(d.get("co"))
    st["co-pairs"] = sum(1 for v in kinds.values() if len(v) > 1)
    return st


# ---------------------------------------------------------------------------- oracle on implementation traces alone

def reach_deps(graph, s, memo):
    """valid steps that `s` depends on directly (the scripts that have to be finished before s starts)"""
    return [d for d in graph[s]["deps"] if graph[d]["valid"]]


def oracle_trace(o):
    """the property's own wording on one recorded run of the real builder; returns [(signature, text)]"""
    out = []
    graph = o["graph"]
    jobs = o["case"]["jobs"]
    keep = "-k" in o["case"]["argv"]
    bypath = {}
    for i, n in enumerate(graph):
        bypath.setdefault(n["path"], []).append(i)
    finished_ok = set()
    failed_paths = set()
    started = {}
    running = set()
    first_fail_seen = False
    held = 0            # tokens taken - tokens given back, from the acquire/release events
    events = []
    for it in o["trace"]:
        if it["k"] == "task":
            for e in it["ev"]:
                events.append((it["t"], e, it.get("s")))
    recursive = bool(o.get("recursive"))
    for t, e, snap in events:
        k = e[0]
        if k == "start":
            p = e[1]
            # 1. dependencies first
            for s in bypath.get(p, []):
                if graph[s]["valid"]:
                    for d in graph[s]["deps"]:
                        if graph[d]["valid"] and graph[d]["path"] not in finished_ok:
                            out.append(("step-started-before-dependency-finished",
                                        "script of %s started before its dependency %s finished successfully" % (p, graph[d]["path"])))
                    break
            # 2. once and exclusive
            if p in running:
                out.append(("workspace-executed-concurrently", "two scripts run in %s at the same time" % p))
            if p in finished_ok:
                out.append(("workspace-executed-twice", "workspace %s executed a second time in one invocation" % p))
            elif p in started and p not in failed_paths:
                out.append(("workspace-executed-twice", "workspace %s executed a second time in one invocation" % p))
            started[p] = started.get(p, 0) + 1
            running.add(p)
            # 3. bounded
            if len(running) > jobs:
                out.append(("more-scripts-than-jobs" + ("-recursive-jobserver" if recursive else ""),
                            "%d scripts running with %d jobs configured" % (len(running), jobs)))
            # 4. failure stops the build
            if first_fail_seen and not keep:
                pass  # scripts of tasks that passed the check before the failure may still start; see `running` check below
        elif k == "end":
            p = e[1]
            running.discard(p)
            if e[2]:
                finished_ok.add(p)
            else:
                failed_paths.add(p)
        elif k == "got":
            held += 1
        elif k == "rel":
            if e[1] is not None:
                out.append(("release-raised" + ("-recursive-jobserver" if recursive else ""),
                            "runners.release() raised %s" % e[1]))
            else:
                held -= 1
    res = o["result"]
    if res == "deadlock":
        out.append(("scheduler-deadlock", "no task can run, no script is running, the build is not finished"))
        return out
    if res == "exception":
        out.append(("internal-exception", "cook raised %s" % o.get("slogan")))
    any_failed = bool(failed_paths)
    if res == "ok" and any_failed:
        out.append(("failure-not-reported", "a script failed but the build reported success"))
    if res == "fail" and not any_failed and "injected" not in (o.get("slogan") or ""):
        out.append(("spurious-build-failure", "build failed without a failing script: %s" % o.get("slogan")))
    # 5. failure confinement: a step whose (transitive) dependency failed never starts -- follows from 1.
    #    With keep-going every reachable step none of whose transitive dependencies failed was executed.
    if res in ("ok", "fail") and (keep or not any_failed) and not o["co0"]:
        bad_paths = set(failed_paths)
        need = set()

        def visit(s, seen):
            """returns True if s or something below it failed"""
            if s in seen:
                return seen[s]
            n = graph[s]
            seen[s] = False
            if not n["valid"]:
                return False        # dependencies of an invalid step are never cooked
            below = False
            for d in n["deps"]:
                if visit(d, seen):
                    below = True
            if n["path"] in bad_paths:
                below = True
            if not below:
                need.add(n["path"])
            seen[s] = below
            return below
        seen = {}
        for t_ in o["targets"]:
            visit(t_, seen)
        for p in sorted(need):
            if p not in finished_ok:
                out.append(("independent-step-not-built", "step %s has no failed dependency but was not executed (keep-going=%s)" % (p, keep)))
    # 6. tokens
    if res in ("ok", "fail"):
        if held != 0:
            out.append(("token-not-given-back" + ("-recursive-jobserver" if recursive else ""),
                        "%d job slot(s) acquired but not released at the end of a build that was not aborted" % held))
        last = None
        for it in reversed(o["trace"]):
            if it.get("s"):
                last = it["s"]
                break
        if last and "pipe" in last and "unavailable" not in last:
            if last.get("tk", 0) != 0 or last.get("a", 0) != 0:
                out.append(("token-withheld-at-end" + ("-recursive-jobserver" if recursive else ""),
                            "at the end of the build the semaphore still holds tokens=%s acquired=%s" % (last.get("tk"), last.get("a"))))
            if last["pipe"] + last.get("envheld", 0) != o["case"]["pipe0"]:
                out.append(("jobserver-pipe-content-changed" + ("-recursive-jobserver" if recursive else ""),
                            "job server pipe holds %d tokens at the end, %d at the start" % (last["pipe"], o["case"]["pipe0"])))
        if last and "v" in last and "pipe" not in last and last["v"] != 1:
            out.append(("semaphore-value-at-end", "BoundedSemaphore value %s at the end" % last["v"]))
    # 7. results equal the sequential build: every executed script saw the final results of its inputs
    exp = {}

    def value(s):
        if s in exp:
            return exp[s]
        n = graph[s]
        exp[s] = "%s(%s)" % (n["path"], ",".join(value(d) for d in n["deps"] if graph[d]["valid"]))
        return exp[s]
    for p, content in (o.get("results") or {}).items():
        if p in finished_ok:
            s = next((i for i in bypath.get(p, []) if graph[i]["valid"]), None)
            if s is not None and content != value(s):
                out.append(("result-differs-from-sequential-build", "content of %s is %r, a sequential build gives %r" % (p, content, value(s))))
    return out


# ---------------------------------------------------------------------------- JobServerSemaphore alone on a real FIFO

def sem_alone_run(args):
    """k tasks on n tokens: random acquire / release orders (several commands may be issued in the same
    loop iteration, so hand-overs in flight are exercised) and a child make that takes/returns tokens, on a
    real FIFO and a real asyncio loop.  Returns the recorded ops with the semaphore's state after each."""
    repo, seed, recursive, n_tokens, k, nops = args
    import asyncio
    import random
    import selectors
    import tempfile
    import shutil
    import array
    import fcntl
    import termios
    if os.path.join(repo, "pym") not in sys.path:
        sys.path.insert(0, os.path.join(repo, "pym"))
    from bob.builder import JobServerSemaphore
    r = random.Random("sem-%s" % (seed,))
    tmp = tempfile.mkdtemp(prefix="c06sem-")
    log = []          # [op, arg, result, snapshot]

    def fion(fd):
        buf = array.array('i', [0])
        fcntl.ioctl(fd, termios.FIONREAD, buf)
        return buf[0]
    try:
        fifo = os.path.join(tmp, "f")
        os.mkfifo(fifo)
        rfd = os.open(fifo, os.O_RDONLY | os.O_NONBLOCK)
        wfd = os.open(fifo, os.O_WRONLY)
        os.write(wfd, b"+" * n_tokens)
        state = {"sem": None, "env": [], "ops": nops, "cur": None}
        holding = [0] * k          # how many slots worker i owns (harness view)
        blocked = [False] * k
        cmdq = [None] * k
        finished = []

        def snap():
            sem = state["sem"]
            try:
                s = {"w": sem._JobServerSemaphore__waitersCnt, "a": sem._JobServerSemaphore__acquired,
                     "tk": len(sem._JobServerSemaphore__tokens), "pipe": fion(rfd), "envheld": len(state["env"])}
                try:
                    key = loop._selector.get_key(rfd)
                    s["rd"] = bool(key.events & selectors.EVENT_READ) and key.data[0] is not None
                except KeyError:
                    s["rd"] = False
                inner = sem._JobServerSemaphore__sem
                s["v"] = inner._value
                s["nwait"] = len(inner._waiters or ())
                return s
            except AttributeError as e:
                return {"unavailable": str(e)}

        class L(asyncio.SelectorEventLoop):
            def _run_once(self):
                while not finished and not self._ready and not self._scheduled and not self._selector.select(0):
                    idle()
                super()._run_once()

        def idle():
            if state["ops"] <= 0:
                # wind down: release everything that is owned, return the child's tokens
                for i in range(k):
                    if holding[i] and not blocked[i]:
                        cmdq[i].set_result("rel")
                        return
                if state["env"]:
                    os.write(wfd, state["env"].pop())
                    log.append(["ret", None, "ok", snap()])
                    return
                if not any(blocked):
                    finished.append(True)
                    for i in range(k):
                        cmdq[i].set_result("stop")
                    return
                finished.append(False)      # somebody waits for ever
                for i in range(k):
                    if not blocked[i]:
                        cmdq[i].set_result("stop")
                loop.call_soon(loop.stop)
                return
            free = [i for i in range(k) if not blocked[i]]
            n_cmd = r.choice([1, 1, 1, 2, 2, 3])
            issued = False
            r.shuffle(free)
            for i in free[:n_cmd]:
                state["ops"] -= 1
                c = r.random()
                if holding[i]:
                    cmdq[i].set_result("rel")
                elif c < 0.06 and not any(blocked) and not any(holding):
                    cmdq[i].set_result("rel")          # release while nobody owns or waits for a slot: has to raise
                else:
                    cmdq[i].set_result("acq")
                issued = True
            c = r.random()
            if c < 0.15 and fion(rfd) > 0 and len(state["env"]) < n_tokens:
                state["env"].append(os.read(rfd, 1))
                log.append(["take", None, "ok", snap()])
            elif c < 0.4 and state["env"]:
                os.write(wfd, state["env"].pop())
                log.append(["ret", None, "ok", snap()])
            elif not issued:
                state["ops"] -= 1

        async def worker(i):
            sem = state["sem"]
            while True:
                cmdq[i] = loop.create_future()
                c = await cmdq[i]
                if c == "stop":
                    return
                if c == "acq":
                    blocked[i] = True
                    entry = ["acquire", i, None, None]
                    log.append(entry)
                    # the state right after the synchronous part is recorded by the loop hook below
                    state["cur"] = entry
                    await sem.acquire()
                    blocked[i] = False
                    holding[i] += 1
                    if entry[2] is None:
                        entry[2] = "got"
                        entry[3] = snap()
                    else:
                        log.append(["resume", i, "ok", snap()])
                    state["cur"] = None
                else:
                    try:
                        sem.release()
                        if holding[i]:
                            holding[i] -= 1
                        else:
                            # released a slot that another task owns: that one has lost it
                            for j in range(k):
                                if holding[j]:
                                    holding[j] -= 1
                                    break
                        log.append(["release", i, "ok", snap()])
                    except BaseException as e:  # noqa
                        holding[i] = 0
                        log.append(["release", i, type(e).__name__, snap()])

        import asyncio.events as aev
        orig_run = aev.Handle._run

        def handle_run(self):
            cb = self._callback
            is_cb = getattr(cb, "__name__", "") == "jobavailableCallback"
            try:
                return orig_run(self)
            finally:
                cur = state.get("cur")
                if cur is not None and cur[2] is None:
                    cur[2] = "blocked"
                    cur[3] = snap()
                    state["cur"] = None
                if is_cb:
                    log.append(["callback", None, "ok", snap()])
        aev.Handle._run = handle_run
        loop = L()
        asyncio.set_event_loop(loop)
        try:
            state["sem"] = JobServerSemaphore((rfd, wfd), recursive)

            async def main():
                ws = [loop.create_task(worker(i)) for i in range(k)]
                await asyncio.wait(ws)
            try:
                loop.run_until_complete(main())
            except RuntimeError:
                pass
        finally:
            aev.Handle._run = orig_run
            for t in asyncio.all_tasks(loop):
                t.cancel()
            try:
                loop.run_until_complete(asyncio.sleep(0))
            except BaseException:  # noqa
                pass
            asyncio.set_event_loop(None)
            loop.close()
        end = {"pipe": fion(rfd), "holding": holding, "blocked": blocked, "complete": bool(finished and finished[0])}
        os.close(rfd)
        os.close(wfd)
        return {"seed": seed, "recursive": recursive, "n": n_tokens, "k": k, "log": log, "end": end}
    finally:
        shutil.rmtree(tmp, ignore_errors=True)


def sem_alone_oracle(res):
    """the property on the semaphore alone: bounded, nothing lost, nothing duplicated, release without slot raises"""
    out = []
    n = res["n"]
    rec = res["recursive"]
    cap = n + (1 if rec else 0)
    owners = {}
    tag = "F-C06-1-recursive-jobserver-inflight-handover" if rec else None
    for op, i, result, s in res["log"]:
        if op in ("acquire",) and result == "got" or op == "resume":
            owners[i] = owners.get(i, 0) + 1
        if op == "release":
            total = sum(owners.values())
            if result == "ok":
                if total == 0:
                    out.append((tag or "release-without-slot-accepted", "release() succeeded although no task owns a slot"))
                elif owners.get(i, 0):
                    owners[i] -= 1
                else:
                    j = next(j for j, v in owners.items() if v)
                    owners[j] -= 1
            elif total > 0:
                out.append((tag or "release-raised", "release() raised %s although %d slot(s) are owned" % (result, total)))
        if sum(owners.values()) > cap:
            out.append((tag or "more-owners-than-slots", "%d owners of %d slots" % (sum(owners.values()), cap)))
        if s and "unavailable" not in s and s["pipe"] + s["tk"] + s["envheld"] != n:
            out.append((tag or "token-count-changed", "pipe %d + held %d + child %d != %d" % (s["pipe"], s["tk"], s["envheld"], n)))
    if res["end"]["complete"]:
        if res["end"]["pipe"] != n:
            out.append((tag or "token-not-given-back", "all slots released but the pipe holds %d of %d tokens" % (res["end"]["pipe"], n)))
    else:
        out.append((tag or "waiter-never-served", "a task waits for ever although every owner has released its slot"))
    return out


def sem_alone_requests(res):
    reqs = [{"op": "sem-init", "recursive": res["recursive"], "pipe": res["n"]}]
    for op, i, result, s in res["log"]:
        rq = {"op": {"acquire": "acquire", "resume": "resume", "release": "release", "callback": "callback",
                     "take": "take", "ret": "ret"}[op]}
        if i is not None:
            rq["t"] = i
        reqs.append(rq)
    reqs.append({"op": "sem-end"})
    return reqs


def sem_alone_compare(res, replies):
    bad = []
    for (op, i, result, s), rp in zip(res["log"], replies[1:]):
        want = {"ok": "ok", "got": "got", "blocked": "blocked"}.get(result, result)
        if rp.get("r") != want:
            bad.append({"op": op, "t": i, "impl": result, "model": rp.get("r")})
            break
        if s and "unavailable" not in s:
            d = {k: (s[k], rp.get(k)) for k in ("w", "a", "tk", "pipe", "rd", "envheld", "v", "nwait") if s.get(k) != rp.get(k)}
            if d:
                bad.append({"op": op, "t": i, "state": d})
                break
    return bad
