"""C01 - incremental build equals clean build.

oracle:      generated real projects + edit histories; after each history the incremental workspace A is
             compared with a from-scratch build B of the final project state (all dist workspaces equal); an
             immediately repeated invocation must run no build / package step and no deterministic checkout.
correspond:  the same real invocations (micro-op log recorded by wrapping the `_BobState` mutators,
             `_runShell`, `_constructDir`, `emptyDirectory` from outside) against the Lean builder model
             `drv_c01`: micro-op list in order, persisted state, workspace contents, success flag.
"""
import json
import os
import random
import shutil
import time

DRIVER = "drv_c01"
RULE = ("a case is one real `bob dev`/`bob build` invocation inside an edit history over a generated project (2-4 recipes, "
        "import-SCM sources, checkout/build/package scripts writing canonical manifests, variables, provided variables, "
        "tools, classes, -D defines, build/package scripts that clamp the mtime of their output; edits: script text, variable values, variable lists, dependency add/remove, provided "
        "variables, tool use/path, source file add/modify/delete/same-size modify in a dependency, import url, class edits, reverts); distinct by (project "
        "state, mode, flags, state before); non-trivial if at least one step was executed or pruned")
ASSUMPTIONS = [
    "step scripts are deterministic functions of (digested script+environment, input workspace contents) and, in develop "
    "mode, do not depend on stale workspace content (hypotheses `Deterministic`/`Oblivious` of the theorems)",
    "the directory hash is injective on the occurring contents (hypothesis H_inj)",
    "variant ids are an injective function of (own digest data, dependency ids) (C02); workspace paths identify steps (C16)",
    "no binary archive, no shared packages, no sandbox, no fingerprint scripts (C07/C15/C13 cover those); "
    "--build-only, --resume, --no-deps, --checkout-only, --clean-checkout leave stale state by request and are outside the theorems",
    "import SCMs use prune (without it deleted source files stay in the workspace, documented behaviour)",
    "SCM in-place switch, nested SCM directories: C12",
    "-j > 1 is exercised by the oracle only (schedule independence is C06)",
]

_CACHE = {}


def _mk_history(r, n_edits, kinds=None, npkgs=None, require=None, clamp=False):
    from gen import buildsim as bs

    def gen():
        proj = bs.gen_project(r, npkgs)
        return bs.add_clamps(proj) if clamp else proj    # (no rng draw: the streams are those without clamps)
    proj = gen()
    for _ in range(200):
        if not require or proj.get(require):
            break
        proj = gen()
    hist = [proj]
    edits = [["initial"]]
    for _ in range(n_edits):
        p, e = bs.edit(r, hist[-1], hist[:-1], kinds)
        hist.append(p)
        edits.append(e)
    return hist, edits


def _argv(proj, jobs, force):
    from gen import buildsim as bs
    a = ["p0"] + bs.defines_argv(proj)
    if jobs > 1:
        a += ["-j", str(jobs)]
    if force:
        a += ["-f"]
    return a


def run_history(job):
    """worker: runs one edit history on the implementation (module level for ctx.parallel)"""
    from gen import buildsim as bs
    r = random.Random(job["key"])
    rec = {"key": job["key"], "invs": [], "truncated": False, "develop": None, "n_edits": job["n_edits"],
           "j1": bool(job.get("j1")), "kinds": job.get("kinds"), "failrevert": bool(job.get("failrevert")),
           "force_dev": bool(job.get("force_dev")), "features": job.get("features"), "fault_kind": job.get("fault_kind")}
    if time.time() > job["deadline"]:
        rec["truncated"] = True
        return rec
    hist, edits = _mk_history(r, job["n_edits"], job.get("kinds"), job.get("npkgs"), job.get("require"), clamp=True)
    develop = r.random() < 0.7 or bool(job.get("force_dev"))
    jobs = 1 if (job.get("j1") or r.random() < 0.75) else r.choice([2, 4])
    rec.update(develop=develop, jobs=jobs, edits=edits, npkgs=job.get("npkgs"), require=job.get("require"))
    base = os.path.join(job["tmp"], "h-" + "".join(c if c.isalnum() else "_" for c in job["key"]))
    shutil.rmtree(base, ignore_errors=True)
    simA = bs.Sim(os.path.join(base, "a"), job["repo"], job["deadline"] + 5)
    rec["root"] = simA.root
    known = set()
    nclean = [0]

    def against_clean(proj, argv, res):
        """from-scratch build of `proj` in an empty directory; package results that differ from the incremental ones"""
        nclean[0] += 1
        simB = bs.Sim(os.path.join(base, "b%d" % nclean[0]), job["repo"], job["deadline"] + 5)
        bs.render(proj, simB.root)
        resB = simB.invoke(develop, argv)
        out = {"rcB": resB["rc"], "errB": resB["error"], "diffs": None}
        if res["rc"] == 0 and resB["rc"] == 0 and res["dump"] and resB["dump"]:
            keyA = {(d["pkg"], d["kind"]): p for p, d in res["dump"]["steps"].items()}
            diffs = []
            for p, d in sorted(resB["dump"]["steps"].items()):
                if d["kind"] != "package":
                    continue
                pa = keyA.get((d["pkg"], d["kind"]))
                sa = bs.snapshot(os.path.join(simA.root, pa)) if pa else None
                sb = bs.snapshot(os.path.join(simB.root, p))
                if sa != sb:
                    diffs.append({"package": d["pkg"], "incremental": sa, "clean": sb, "pathA": pa, "pathB": p})
            out["diffs"] = diffs
        elif resB["rc"] != 0:
            out["tailB"] = resB["stdout"][-1500:]
        simB.destroy()
        return out

    try:
        last = None
        for i, proj in enumerate(hist):
            if time.time() > job["deadline"] and i > 0:
                rec["truncated"] = True
                hist = hist[:i]
                break
            if i > 0 and (r.random() < 0.25 or (job.get("failrevert") and i == 1)):
                # edit -> build in which a step script dies after half of its output -> REVERT to the byte-identical
                # previous project -> build.  (Then the edit is applied again and built normally.)
                e = edits[i]
                names = list(proj["pkgs"])
                tgt = e[1] if len(e) > 1 and e[1] in names else r.choice(names)
                kind = r.choice(["build", "build", "package"])
                mode = r.choice(["exit", "kill", "term"])
                kind = job.get("fault_kind") or kind
                bs.render(proj, simA.root)
                simA.clear_faults()
                simA.set_fault(kind, tgt, mode)
                argvf = _argv(proj, jobs, False)
                resf = simA.invoke(develop, argvf)
                fired = simA.fired()
                simA.clear_faults()
                obsf = bs.observe(simA, resf, known)
                known |= set(obsf["state"])
                invf = {"i": i - 0.7, "proj": proj, "argv": argvf, "force": False, "rc": resf["rc"], "error": resf["error"],
                        "log": resf["log"], "obs": obsf, "tail": "", "abort": ["fault", kind, tgt, mode], "fired": fired}
                invf["model"] = bs.model_params(invf)
                rec["invs"].append(invf)
                if fired and resf["rc"] == 0:
                    rec.setdefault("death_ignored", []).append({"i": i, "fault": [kind, tgt, mode]})
                if not isinstance(resf["rc"], int):
                    break
                bs.render(hist[i - 1], simA.root)
                argvr = _argv(hist[i - 1], jobs, False)
                resr = simA.invoke(develop, argvr)
                obsr = bs.observe(simA, resr, known)
                known |= set(obsr["state"])
                rec["invs"].append({"i": i - 0.6, "proj": hist[i - 1], "argv": argvr, "force": False, "rc": resr["rc"],
                                    "error": resr["error"], "log": resr["log"], "obs": obsr,
                                    "tail": resr["stdout"][-1500:] if resr["rc"] != 0 else "", "revert_after_fault": True})
                if resr["rc"] != 0:
                    last = (hist[i - 1], argvr, resr, obsr)
                    hist = hist[:i]
                    break
                if r.random() < 0.5:
                    # stop here: the final state of the history is the reverted project
                    last = (hist[i - 1], argvr, resr, obsr)
                    hist = hist[:i]
                    break
                # otherwise the history goes on: the reverted state is compared with its clean build right here
                cp = against_clean(hist[i - 1], argvr, resr)
                cp["i"] = i - 0.6
                rec.setdefault("checkpoints", []).append(cp)
            bs.render(proj, simA.root)
            if i > 0 and r.random() < 0.2:
                # an invocation that leaves stale state by request (--no-deps / --checkout-only) in between
                flag = r.choice(["-n", "-B"])
                argvx = _argv(proj, jobs, False) + [flag]
                resx = simA.invoke(develop, argvx)
                obsx = bs.observe(simA, resx, known)
                known |= set(obsx["state"])
                rec["invs"].append({"i": i - 0.5, "proj": proj, "argv": argvx, "force": False, "rc": resx["rc"],
                                    "error": resx["error"], "log": resx["log"], "obs": obsx, "tail": "",
                                    "flags": {"noDeps": flag == "-n", "checkoutOnly": flag == "-B"}})
            force = r.random() < 0.06 and i > 0
            argv = _argv(proj, jobs, force)
            res = simA.invoke(develop, argv)
            obs = bs.observe(simA, res, known)
            known |= set(obs["state"])
            rec["invs"].append({"i": i, "proj": proj, "argv": argv, "force": force, "rc": res["rc"], "error": res["error"],
                                "log": res["log"], "obs": obs, "tail": res["stdout"][-1500:] if res["rc"] != 0 else ""})
            last = (proj, argv, res, obs)
            if res["rc"] != 0:
                break
        if last is not None and not rec["truncated"]:
            proj, argv, res, obs = last
            final = {"proj": proj, "argv": [a for a in argv if a != "-f"]}
            # from-scratch build of the final project state in an empty copy
            cmpB = against_clean(proj, final["argv"], res)
            final["rcA"], final["rcB"] = res["rc"], cmpB["rcB"]
            final["errA"], final["errB"] = res["error"], cmpB["errB"]
            if cmpB["diffs"] is not None:
                final["diffs"] = cmpB["diffs"]
                # immediately repeated build of the unchanged project
                res2 = simA.invoke(develop, final["argv"])
                det = {p: d for p, d in res["dump"]["steps"].items()}
                rerun = [e for e in res2["log"] if e[0] in ("run", "emptyDir") and
                         (det.get(e[1], {}).get("kind") != "checkout" or det.get(e[1], {}).get("det"))]
                final["rc2"] = res2["rc"]
                final["rerun"] = rerun
                obs2 = bs.observe(simA, res2, known)
                rec["invs"].append({"i": len(hist), "proj": proj, "argv": final["argv"], "force": False, "rc": res2["rc"],
                                    "error": res2["error"], "log": res2["log"], "obs": obs2, "tail": "", "repeat": True})
            elif cmpB["rcB"] != 0:
                final["tailB"] = cmpB.get("tailB")
            rec["final"] = final
    except bs.OutOfTime:
        rec["truncated"] = True
    finally:
        bs.shutdown_servers()
        if not job.get("keep"):
            shutil.rmtree(base, ignore_errors=True)
    return rec


def _jobs(ctx, n, n_edits, tag, **kw):
    deadline = time.time() + max(5.0, ctx.time_left() * kw.pop("share", 0.5))
    # history lengths 1..n_edits: the short ones complete under any machine load
    return [dict(repo=ctx.repo, tmp=ctx.tmp, key="%s-%d-%s-%d" % (ctx.prop, ctx.seed, tag, i), n_edits=1 + (i * 7) % n_edits,
                 deadline=deadline, **kw) for i in range(n)]


def judge_history(ctx, rec):
    """the property's own statement on one recorded history"""
    case = {"key": rec["key"], "n_edits": rec.get("n_edits"), "j1": rec.get("j1"), "kinds": rec.get("kinds"),
            "failrevert": rec.get("failrevert"), "force_dev": rec.get("force_dev"), "npkgs": rec.get("npkgs"),
            "require": rec.get("require"), "fault_kind": rec.get("fault_kind"),
            "develop": rec.get("develop"), "jobs": rec.get("jobs"), "edits": rec.get("edits")}
    for inv in rec["invs"]:
        nontrivial = any(e[0] in ("run", "emptyDir") for e in inv["log"])
        ctx.case((rec["key"], inv["i"]), nontrivial=nontrivial,
                 sample={"key": rec["key"], "edit": (rec.get("edits") or [None] * 99)[min(int(inv["i"] + 0.5), len(rec.get("edits") or []) - 1)],
                         "argv": inv["argv"], "micro_ops": len(inv["log"]), "rc": inv["rc"]})
        ctx.count("micro_ops_per_invocation", min(len(inv["log"]) // 10 * 10, 100))
        for e in inv["log"]:
            ctx.count("micro_op", e[0])
    if rec.get("edits"):
        for e in rec["edits"]:
            ctx.count("edit_kind", e[0])
    for d in rec.get("death_ignored", []):
        ctx.violation("the script of a step died from a signal / failed (%s) but the invocation exits 0 and goes on"
                      % d["fault"], dict(case, fault=d), "script-death-ignored")
    for cp in rec.get("checkpoints", []):
        if cp["rcB"] == 0 and cp["diffs"]:
            d = cp["diffs"][0]
            ctx.violation("after 'edit, failing build, revert, build' the package result of %s differs from the from-scratch "
                          "build of the reverted project" % d["package"], dict(case, diff=d, at=cp["i"]),
                          "incremental-differs-from-clean")
    fin = rec.get("final")
    if not fin:
        if rec["truncated"]:
            ctx.count("history", "truncated-by-budget")
        return
    if not isinstance(fin["rcA"], int) or not isinstance(fin["rcB"], int) or not isinstance(fin.get("rc2", 0), int):
        ctx.count("history", "no-verdict:timeout")
        ctx.skip("an invocation timed out or the harness failed")
        return
    if fin["rcB"] != 0:
        # the generated project does not build from scratch either: a generator problem, not a verdict
        ctx.count("history", "clean-build-fails")
        ctx.skip("generated project does not build from scratch (%s)" % fin.get("errB"))
        return
    if fin["rcA"] != 0:
        ctx.violation("incremental build of the final project state fails (%s) although the from-scratch build succeeds"
                      % fin.get("errA"), case, "incremental-build-fails")
        return
    ctx.count("history", "compared")
    if fin.get("diffs"):
        d = fin["diffs"][0]
        ctx.violation("package result of %s differs between incremental and from-scratch build" % d["package"],
                      dict(case, diff=d), "incremental-differs-from-clean")
    if fin.get("rc2") not in (0, None):
        ctx.violation("repeated invocation of an unchanged project fails", case, "repeat-fails")
    if fin.get("rerun"):
        ctx.violation("repeated invocation of an unchanged project re-executes %r" % fin["rerun"][:3], case,
                      "repeat-reexecutes")


def oblivious_expectation(job):
    """`Oblivious_needed` (Props/C01.lean) replayed on the implementation: a develop-mode build script that
    depends on stale workspace content makes the incremental result differ from the clean one.  This is the
    documented meaning of incremental build directories - a labelled expectation, not a finding."""
    from gen import buildsim as bs
    base = os.path.join(job["tmp"], "oblivious")
    shutil.rmtree(base, ignore_errors=True)
    try:
        def write(root, src):
            os.makedirs(os.path.join(root, "recipes"), exist_ok=True)
            os.makedirs(os.path.join(root, "src"), exist_ok=True)
            open(os.path.join(root, "config.yaml"), "w").write('{"bobMinimumVersion": "0.24"}')
            open(os.path.join(root, "src", "a.txt"), "w").write(src)
            open(os.path.join(root, "recipes", "p0.yaml"), "w").write(json.dumps({
                "root": True, "checkoutSCM": {"scm": "import", "url": "src", "prune": True},
                "buildScript": "cat $1/a.txt >> acc\ncp acc m\n", "packageScript": "cp $1/m m\n"}))
        a, b = bs.Sim(os.path.join(base, "a"), job["repo"]), bs.Sim(os.path.join(base, "b"), job["repo"])
        write(a.root, "one\n")
        r1 = a.invoke(True, ["p0"])
        write(a.root, "two\n")
        r2 = a.invoke(True, ["p0"])
        write(b.root, "two\n")
        r3 = b.invoke(True, ["p0"])
        if not (r1["rc"] == r2["rc"] == r3["rc"] == 0):
            return "not-run"
        sa = bs.snapshot(os.path.join(a.root, "dev/dist/p0/1/workspace"))
        sb = bs.snapshot(os.path.join(b.root, "dev/dist/p0/1/workspace"))
        return "confirmed" if sa != sb else "not-confirmed"
    except bs.OutOfTime:
        return "not-run"
    finally:
        bs.shutdown_servers()
        shutil.rmtree(base, ignore_errors=True)


def oracle(ctx):
    n = ctx.scale(48, 600)
    jobs = _jobs(ctx, n, ctx.scale(6, 12), "hist", share=0.45)
    # a guaranteed minimum, whatever the machine load: short histories that are not cut by the deadline -
    # recipes built in several variants (develop mode), and "edit -> failing build -> revert -> build"
    far = time.time() + 3600
    must = []
    for k in range(ctx.scale(4, 12)):
        must.append(dict(repo=ctx.repo, tmp=ctx.tmp, key="%s-%d-must-mv-%d" % (ctx.prop, ctx.seed, k), n_edits=2,
                         deadline=far, npkgs=3, require="multivariant", force_dev=True, kinds=["xenv"], j1=True))
    for k in range(ctx.scale(4, 12)):
        must.append(dict(repo=ctx.repo, tmp=ctx.tmp, key="%s-%d-must-fr-%d" % (ctx.prop, ctx.seed, k), n_edits=1,
                         deadline=far, npkgs=2, failrevert=True, kinds=["src-modify", "src-add"], j1=True,
                         fault_kind=("build" if k % 2 == 0 else None)))
    # time stamps clamped by the scripts (reproducible builds) + a source edit of a dependency that keeps all sizes: the
    # manifests are rewritten in place with the same size, inode and mtime - only the content (and the ctime) differs
    for k in range(ctx.scale(4, 12)):
        must.append(dict(repo=ctx.repo, tmp=ctx.tmp, key="%s-%d-must-cl-%d" % (ctx.prop, ctx.seed, k), n_edits=1 + k % 2,
                         deadline=far, npkgs=2 + k % 2, require="clamp", force_dev=(k % 4 != 3), kinds=["src-samesize"], j1=True))
    recs = ctx.parallel(run_history, must + jobs)
    _CACHE["recs"] = recs
    for rec in recs:
        judge_history(ctx, rec)
    done = sum(1 for r in recs if r.get("final"))
    ctx.notes["histories_completed"] = done
    if ctx.time_left() > 40:
        ctx.count("oblivious_needed_on_implementation",
                  oblivious_expectation(dict(repo=ctx.repo, tmp=ctx.tmp)))
    if done == 0:
        ctx.skip("no history completed within the time budget")


def model_requests(rec):
    """Lean driver requests replaying one recorded history"""
    from gen import buildsim as bs
    reqs = [{"op": "reset"}]
    idx = []
    paths = set()
    for inv in rec["invs"]:
        obs = inv["obs"]
        if not obs["steps"] or not obs["roots"] or obs["unsupported"]:
            break
        if inv["rc"] in ("timeout", "harness-error") or (isinstance(inv["rc"], str) and inv["rc"].startswith("exit:")):
            break   # the invocation was given up by the harness (deadline): its log is incomplete, no verdict
        paths |= set(obs["state"])
        fl = inv.get("flags", {})
        req = {"op": "invoke", "cfg": {"force": inv["force"], "cleanBuild": not rec["develop"],
                                        "checkoutOnly": bool(fl.get("checkoutOnly")), "noDeps": bool(fl.get("noDeps")),
                                        "attic": True},
               "steps": obs["steps"], "root": obs["roots"][0], "fuel": None, "junk": "", "fail": {},
               "stateful": [], "paths": sorted(paths)}
        if inv.get("model"):
            req.update(inv["model"])
        reqs.append(req)
        idx.append(inv)
    return reqs, idx


def correspond_history(ctx, rec, replies, relation="builder micro-op log == Model.Builder.cook"):
    """compare the recorded invocations with the model replies (first difference per history)"""
    from gen import buildsim as bs
    if rec.get("jobs", 1) != 1:
        return
    reqs, idx = rec["_reqs"], rec["_idx"]
    M = bs.Matcher("")
    for inv, rep in zip(idx, replies[1:]):
        tag = "%s invocation %d" % (rec["key"], inv["i"])
        if "error" in rep or "proto_error" in rep:
            ctx.disagree(relation, {"key": rec["key"], "i": inv["i"]}, "ok", rep)
            return
        M.root = inv.get("root") or rec.get("root", "")
        ok = bs.compare_logs(M, inv["log"], rep["log"], tag)
        if ok and (inv["rc"] == 0) != rep["ok"]:
            ok = M.fail("%s: exit status %r, model success %r" % (tag, inv["rc"], rep["ok"]))
        ok = ok and bs.compare_state(M, inv["obs"], rep["state"], tag)
        ctx.trace_validated(1)
        ctx.count("corr_invocations", "agree" if ok else "disagree")
        if not ok:
            ctx.disagree(relation, {"key": rec["key"], "i": inv["i"], "argv": inv["argv"], "edits": rec.get("edits")},
                         M.err, "see message")
            return


def correspond(ctx):
    recs = _CACHE.get("recs")
    if recs is None:
        recs = ctx.parallel(run_history, _jobs(ctx, ctx.scale(16, 300), ctx.scale(5, 12), "hist", share=0.8))
    # extra histories run strictly with -j1 and more flags for the model comparison
    if ctx.time_left() > 30:
        recs = recs + ctx.parallel(run_history, _jobs(ctx, ctx.scale(16, 300), ctx.scale(4, 10), "corr", share=0.5, j1=True))
    allreqs = []
    spans = []
    for rec in recs:
        if rec.get("jobs", 1) != 1 or not rec["invs"]:
            continue
        reqs, idx = model_requests(rec)
        rec["_reqs"], rec["_idx"] = reqs, idx
        spans.append((rec, len(allreqs), len(reqs)))
        allreqs += reqs
    if not allreqs:
        ctx.skip("correspondence: no history available")
        return
    replies = ctx.lean(DRIVER, allreqs)
    for rec, a, n in spans:
        correspond_history(ctx, rec, replies[a:a + n])
    for rec in recs:
        if rec.get("edits") and "corr" in rec["key"]:
            judge_history(ctx, rec)


def replay(ctx, case):
    job = dict(repo=ctx.repo, tmp=ctx.tmp, key=case["key"], n_edits=case.get("n_edits") or 5, j1=case.get("j1"),
               kinds=case.get("kinds"), failrevert=case.get("failrevert"), force_dev=case.get("force_dev"),
               npkgs=case.get("npkgs"), require=case.get("require"), fault_kind=case.get("fault_kind"),
               deadline=time.time() + 900)
    rec = run_history(job)
    judge_history(ctx, rec)


MANIFEST = {
    "text": "Proved in Lean over a hand-written model of LocalBuilder (Model/Builder.lean: the cook functions as micro-operation "
            "programs in source order, un-hashed Merkle variant ids, persistent state as _BobState keeps it): cook preserves the "
            "invariant Truthful for every flag set; a successful cook from any Truthful state leaves the data-flow solution in "
            "every reachable workspace (cook_result_is_dataflow); hence incremental_eq_clean for every finite history of arbitrary "
            "project states and flags; rebuild_is_noop (a repeated invocation starts no script but those of indeterministic "
            "checkouts, prunes and creates nothing); oblivious_needed shows the develop-mode hypothesis is necessary. Hypotheses: "
            "injective directory hash, deterministic/oblivious scripts (SemHyp), workspace paths identify steps, stable SCM layout "
            "per checkout path, no --no-deps/--checkout-only in the final invocation. The model is tied to the current source by "
            "constants regenerated from it (call order of the cook functions, invalidate-before-prune/switch) and by a differential "
            "run of real bob dev/build invocations (micro-op order, persisted state, workspace contents, exit status, also for "
            "--no-deps/--checkout-only/--force). The oracle compares incremental workspaces with from-scratch builds after generated "
            "edit histories and checks that a repeated build re-executes nothing.",
    "note": "trusted: Lean kernel, harness/props/c01.py, harness/gen/buildsim*.py, tools/consts/c01.py, bash; not covered: "
            "archives/shared packages (C07/C15), sandbox, fingerprint scripts, --build-only/--resume, SCM switch and nested SCM "
            "directories (C12), -j>1 scheduling (C06; exercised by the oracle only)",
    "technique": "Lean 4 proof over hand-written model + differential correspondence + end-to-end oracle",
}
