"""C18 - package path queries return their declarative meaning.

oracle:      generated package DAGs are presented to the REAL `PackageSet` through duck-typed package
             objects; every query of the generated stream is also evaluated by this file's own naive
             evaluator (step by step over real edges, `descendant` = all nodes on all downward paths,
             predicates evaluated forwards per package, a path in a predicate = exists test).  Checked on
             the implementation alone:
               (a) the set of reported packages equals the step-by-step set,
               (b) every reported stack is a real path from the root that passes through the
                   intermediate steps of the query in order (axis, name test, predicate at each hop),
               (c) queryAll=False reports every result once, queryAll=True reports no stack twice,
               (d) queryPackagePath returns the packages at the stacks queryTreePath reports,
               (e) the three empty modes raise exactly as prescribed,
               (f) the persisted parent table is the inverse of the child table,
               (g) only BobError leaves the API, queries terminate (a malformed query stream is run as well:
                   outcomes are counted, an internal exception there is recorded in the evidence notes only).
correspond:  the same cases through the Lean model `drv_c18` (the AST is sent, not the text): result lists
             in order, error kind per mode, children/parents tables of `.bob-tree.sqlite3`.
"""
import json
import os
import random
import re
import signal

DRIVER = "drv_c18"
RULE = ("graphs: DAGs with 5-40 packages, topologically numbered, names from a pool with common prefixes (several packages may "
        "share a name), 1-3 direct parents per package (unique names among the direct dependencies of one parent), indirect "
        "(provided) edges that may be shadowed by a direct or an earlier indirect dependency of the same name, random dependency "
        "order, per package environment; at most 1500 root paths. queries: location paths from the grammar (all seven axes, "
        "abbreviations . and //, absolute/relative, exact names, missing names, wildcards derived from existing names, nested "
        "predicates with !, &&, ||, relative and absolute paths, string comparisons and string leaves in boolean context, function "
        "calls, aliases, trailing slashes), 60% of them guided along an existing root path; rendered with full or minimal "
        "parentheses. A case is one (graph, query text, aliases) and is counted distinct by that triple; it is non-trivial if the "
        "query has at least one step. 10% of the queries and 14% of the generated predicates carry ABSOLUTE paths whose final wildcard step has a nested predicate, several of them combined with !, && and ||; 6 x 16 such predicate heavy cases are always run. malformed stream: one-character mutations of rendered queries.")
ASSUMPTIONS = ["pyparsing's text->AST step is validated by the differential run only (the model receives the AST)",
               "string leaves of predicates are pre-evaluated per package by the harness with the real bob.stringparser "
               "(C17's subject); the model treats them as given strings",
               "the direct dependencies of one package have distinct names (enforced by Recipe.prepare: 'Duplicate dependency')",
               "package ids are a function of the package (same id => same name, dependencies and environment)",
               "the package graph is acyclic (Bob rejects recursive recipes); the completeness theorem and the fuel of the two "
               "recursive walks need it",
               "matchScm and plugin string functions are not covered"]

AXES = ["child", "descendant", "descendant-or-self", "direct-child", "direct-descendant", "direct-descendant-or-self", "self"]
DESC_AXES = {"descendant": True, "descendant-or-self": True, "direct-descendant": False, "direct-descendant-or-self": False}
NAME_POOL = ["a", "ab", "abc", "a-dev", "ab-dev", "lib", "liba", "libb", "libc", "libc-dev", "b", "b1", "b2", "foo", "foo.bar",
             "foo+x", "n:1", "T_1", "x", "xa", "ax", "tools", "tgt-a", "tgt-b", "z9", "self", "child", "a-tgt", "lib-dev"]
CMP_OPS = ["<", "<=", ">", ">=", "==", "!="]
MODES = ["nullset", "nullglob", "nullfail"]
MAX_PATHS = 1500

LEAVES = [("dq", "$V"), ("dq", "${T}"), ("dq", "${L:-none}"), ("sq", "a"), ("sq", "b"), ("dq", "b"), ("sq", ""),
          ("dq", "$(eq,$V,a)"), ("call", "strip", [("dq", " $V ")]), ("call", "eq", [("dq", "$V"), ("sq", "a")]),
          ("call", "not", [("dq", "$T")]), ("dq", "x$V"), ("sq", "$V"), ("dq", "0"), ("dq", "false"),
          ("call", "if-then-else", [("dq", "$T"), ("sq", "yes"), ("sq", "")]), ("dq", "it''s"),
          ("call", "subst", [("sq", "a"), ("sq", "b"), ("dq", "$V$V")]), ("call", "match", [("dq", "$V"), ("sq", "^[ab]$")]),
          ("dq", "${L:+lic}"), ("call", "ne", [("dq", "$L"), ("dq", "GPL")]), ("dq", " FALSE "), ("dq", "$N"),
          ("call", "or", [("dq", "$T"), ("call", "eq", [("dq", "$L"), ("sq", "MIT")])])]


# leaves whose values coincide for some packages: "$V" ~ 'a' / 'b' / "b", '' ~ "${T}", ...
TWINS = {0: [3, 4, 5, 0, 8], 3: [0, 8], 4: [0, 5], 5: [0, 4], 1: [6, 13, 14], 6: [1, 19], 13: [1], 14: [1], 2: [2], 11: [11],
         7: [9, 14], 9: [7, 14], 22: [3, 4], 19: [6]}


class Timeout(BaseException):
    pass


def _alarm(signum, frame):
    raise Timeout()


# ------------------------------------------------------------------ graphs

def gen_graph(r, n=None):
    n = n or r.choice([5, 5, 6, 7, 8, 8, 10, 10, 12, 12, 15, 15, 20, 20, 25, 30, 40])
    multi = r.choice([0.15, 0.3, 0.45])
    pind = r.choice([0.0, 0.2, 0.35, 0.5])
    for attempt in range(20):
        names = [""] + [r.choice(NAME_POOL) for _ in range(n - 1)]
        direct = [[] for _ in range(n)]
        indirect = [[] for _ in range(n)]
        window = r.choice([2, 3, 5, n])
        for i in range(1, n):
            k = 1 + (r.random() < multi) + (r.random() < multi / 2)
            cands = list(range(max(0, i - window), i))
            r.shuffle(cands)
            if r.random() < 0.3:
                cands += r.sample(range(0, i), min(i, 2))
            placed = 0
            for p in cands:
                if placed >= k:
                    break
                if i in direct[p] or names[i] in [names[c] for c in direct[p]]:
                    continue
                direct[p].append(i)
                placed += 1
            if placed == 0:
                names[i] = names[i] + "-" + str(i)
                direct[r.choice(cands)].append(i)
        for i in range(1, n):
            while r.random() < pind:
                p = r.randrange(0, i)
                indirect[p].append(i)
                if r.random() < 0.5:
                    break
        for p in range(n):
            r.shuffle(direct[p])
            r.shuffle(indirect[p])
        env = []
        for i in range(n):
            e = {}
            if r.random() < 0.8:
                e["V"] = r.choice(["a", "b", "c", "", "a b"])
            if r.random() < 0.6:
                e["T"] = r.choice(["1", "0", "true", "false", "", " no "])
            if r.random() < 0.5:
                e["L"] = r.choice(["GPL", "MIT", ""])
            if r.random() < 0.3:
                e["N"] = names[i]
            env.append(e)
        G = {"n": n, "names": names, "direct": direct, "indirect": indirect, "env": env}
        if count_paths(G) <= MAX_PATHS:
            return G
        multi *= 0.7
        pind *= 0.7
    return gen_graph(r, max(5, n // 2))


def eff_children(G, i):
    """the dependencies of package i as the documentation describes them: direct dependencies first, a
    provided dependency only if no dependency of that name exists yet.  (name, child, direct) in order."""
    out = {}
    for c in G["direct"][i]:
        out[G["names"][c]] = (c, True)
    for c in G["indirect"][i]:
        out.setdefault(G["names"][c], (c, False))
    return [(nm, c, d) for nm, (c, d) in out.items()]


def count_paths(G):
    n = G["n"]
    cnt = [0] * n
    cnt[0] = 1
    for i in range(n):              # topological numbering: children have larger indices
        for (_, c, _) in eff_children(G, i):
            cnt[c] += cnt[i]
    return sum(cnt)


def remove_node(G, x):
    """G without node x (x != 0); nodes that become unreachable are kept out as well"""
    keep = [i for i in range(G["n"]) if i != x]
    # reachability over direct edges and indirect edges from the root
    reach, todo = {0}, [0]
    while todo:
        i = todo.pop()
        for c in G["direct"][i] + G["indirect"][i]:
            if c != x and c not in reach:
                reach.add(c)
                todo.append(c)
    keep = [i for i in keep if i in reach]
    ren = {o: k for k, o in enumerate(keep)}
    return {"n": len(keep), "names": [G["names"][o] for o in keep],
            "direct": [[ren[c] for c in G["direct"][o] if c in ren] for o in keep],
            "indirect": [[ren[c] for c in G["indirect"][o] if c in ren] for o in keep],
            "env": [G["env"][o] for o in keep]}


# ------------------------------------------------------------------ string leaves (pre-evaluated per package)

def eval_leaf(leaf, env):
    """value of a string expression for a package with environment `env`, by the real bob.stringparser"""
    from bob.stringparser import Env, DEFAULT_STRING_FUNS
    if leaf[0] == "sq":
        return leaf[1]
    e = Env(env)
    e.setFunArgs({"package": None, "recipe": None, "sandbox": False, "__tools": {}, "states": {}})
    e.setFuns(DEFAULT_STRING_FUNS)
    if leaf[0] == "dq":
        return e.substitute(leaf[1], leaf[1], False)
    args = [eval_leaf(a, env) for a in leaf[2]]
    return DEFAULT_STRING_FUNS[leaf[1]](args, env=e, package=None, recipe=None, sandbox=False, __tools={})


def render_leaf(leaf):
    if leaf[0] == "sq":
        return "'" + leaf[1] + "'"
    if leaf[0] == "dq":
        return '"' + leaf[1] + '"'
    return leaf[1] + "(" + ", ".join(render_leaf(a) for a in leaf[2]) + ")"


def leaf_values(G):
    return [[eval_leaf(l, G["env"][i]) for i in range(G["n"])] for l in LEAVES]


# ------------------------------------------------------------------ queries

def gen_test(r, G):
    names = G["names"][1:]
    k = r.random()
    if k < 0.5:
        return r.choice(names)
    if k < 0.57:
        return r.choice(["nope", "zz", "a", "lib"])
    if k < 0.7:
        return "*"
    nm = r.choice(names)
    f = r.randrange(6)
    i = r.randrange(0, len(nm) + 1)
    j = r.randrange(i, len(nm) + 1)
    if f == 0:
        return nm[:i] + "*"
    if f == 1:
        return "*" + nm[i:]
    if f == 2:
        return nm[:i] + "*" + nm[j:]
    if f == 3:
        return "*" + nm[i:j] + "*"
    if f == 4:
        return nm[:i] + "**" + nm[j:]
    return nm[:i] + "*" + nm[i:j] + "*"


def gen_step(r, G, depth, test=None, axis="?"):
    if test is None and r.random() < 0.07:
        return {"dot": True}
    if axis == "?":
        axis = None if r.random() < 0.45 else r.choice(AXES + ["direct-child", "direct-descendant", "direct-child"])
    st = {"axis": axis, "test": test if test is not None else gen_test(r, G), "pred": None}
    if depth > 0 and r.random() < 0.3:
        st["pred"] = gen_pred(r, G, depth - 1)
    return st


def gen_path(r, G, depth, top):
    k = r.random()
    if top:
        lead = None if k < 0.55 else "/" if k < 0.85 else "//"
    else:
        lead = None if k < 0.7 else "/" if k < 0.85 else "//"
    steps, seps = [], []
    k = r.random()
    if k < 0.14:
        # search queries: a descendant step with a wildcard derived from the names (matches nest below each other)
        nm = r.choice(G["names"][1:])
        pat = r.choice([nm[:1] + "*", nm[:2] + "*", "*" + nm[-1:], "*" + nm[-3:], nm.split("-")[0] + "*", "*", nm])
        if r.random() < 0.5:
            steps.append(gen_step(r, G, 0))
            seps.append(r.choice(["//", "/"]))
        ax = None if (seps and seps[-1] == "//") or (not seps and lead == "//") else r.choice(list(DESC_AXES))
        st = gen_step(r, G, depth, pat, ax)
        steps.append(st)
        if r.random() < 0.3:
            seps.append("/")
            steps.append(gen_step(r, G, 0))
        return {"lead": lead, "steps": steps, "seps": seps}
    if k < 0.26 and (top or lead):
        # prune then search: a wildcard step, an exact step that drops most of its results again, then a search below
        ch0 = [(nm, c, d) for (nm, c, d) in eff_children(G, 0) if eff_children(G, c)]
        if ch0:
            (nm1, c1, d1) = r.choice(ch0)
            (nm2, c2, d2) = r.choice(eff_children(G, c1))
            steps.append(gen_step(r, G, 0, r.choice(["*", nm1[:1] + "*", "*"]), None))
            seps.append("/")
            steps.append(gen_step(r, G, 0, nm2, None))
            node = c2
            hops = 0
            while eff_children(G, node) and (hops == 0 or r.random() < 0.6):
                (nm3, node, _) = r.choice(eff_children(G, node))
                hops += 1
            if hops:
                seps.append(r.choice(["//", "//", "/"]))
                steps.append(gen_step(r, G, depth, nm3 if r.random() < 0.8 else "*",
                                      None if seps[-1] == "//" else r.choice(["descendant", "descendant-or-self"])))
            return {"lead": lead, "steps": steps, "seps": seps}
    if k < 0.65:
        # guided along an existing path, from the root for top level / absolute paths, else from anywhere
        node = 0 if (top or lead) else r.randrange(G["n"])
        first = True
        while True:
            ch = eff_children(G, node)
            if not ch or (steps and r.random() < 0.3) or len(steps) >= 5:
                break
            (nm, c, d) = r.choice(ch)
            skipped = False
            while r.random() < 0.3 and eff_children(G, c):
                (nm, c, d) = r.choice(eff_children(G, c))
                skipped = True
            k = r.random()
            test = nm if k < 0.75 else "*" if k < 0.85 else None
            if skipped:
                if r.random() < 0.5 and (steps or lead is None):
                    sep, axis = "//", (None if r.random() < 0.7 else "child")
                else:
                    sep, axis = "/", r.choice(["descendant", "descendant-or-self", "descendant"])
                if first and lead == "//":
                    sep, axis = "/", None
            else:
                sep = "/"
                axis = "?" if r.random() < 0.25 else (None if r.random() < 0.7 else r.choice(["child", "direct-child" if d else "child"]))
            if not first:
                seps.append(sep)
            elif sep == "//" and lead is None:
                steps.append({"dot": True})
                seps.append("//")
            steps.append(gen_step(r, G, depth, test, axis))
            first = False
            node = c
    if not steps:
        for i in range(r.choice([1, 1, 2, 2, 3, 4])):
            if i:
                seps.append("/" if r.random() < 0.8 else "//")
            steps.append(gen_step(r, G, depth))
    return {"lead": lead, "steps": steps, "seps": seps}


def gen_inner_pred(r, G, node=None):
    """a small predicate without absolute paths: comparison, truth value, relative path, negation of these"""
    k = r.random()
    if k < 0.4:
        a = r.randrange(len(LEAVES))
        P = ("cmp", r.choice(CMP_OPS), a, r.choice(TWINS.get(a, [a])) if r.random() < 0.4 else r.randrange(len(LEAVES)))
    elif k < 0.55:
        P = ("truth", r.randrange(len(LEAVES)))
    else:
        names = [nm for (nm, _, _) in eff_children(G, node)] if node is not None and eff_children(G, node) else G["names"][1:]
        P = ("path", {"lead": None, "steps": [{"axis": r.choice([None, None, "child", "descendant", "direct-child"]),
                                               "test": r.choice(names), "pred": None}], "seps": []})
    return ("not", P) if r.random() < 0.2 else P


def gen_abs_pred(r, G):
    """an ABSOLUTE location path as predicate (a context independent exists test), along existing edges from the
    root, whose final step is a wildcard that carries its own nested predicate"""
    lead = r.choice(["/", "/", "/", "//"])
    steps, seps, node = [], [], 0
    for _ in range(r.choice([0, 1, 1, 1, 2])):
        ch = [x for x in eff_children(G, node) if eff_children(G, x[1])]
        if not ch:
            break
        (nm, node, _) = r.choice(ch)
        steps.append({"axis": None, "test": nm if r.random() < 0.8 else "*", "pred": None})
        seps.append("/")
    ch = eff_children(G, node)
    k = r.random()
    nm = r.choice(ch)[0] if ch else "x"
    test = "*" if k < 0.7 else (nm[:1] + "*") if k < 0.85 else nm
    axis = r.choice([None, None, None, "child", "descendant", "descendant-or-self", "direct-child"])
    steps.append({"axis": axis, "test": test, "pred": gen_inner_pred(r, G, node)})
    return ("path", {"lead": lead, "steps": steps, "seps": seps[:len(steps) - 1]})


def gen_heavy_pred(r, G, n=None):
    """several absolute-path predicates combined with !, && and || (evaluations that share sets show up here)"""
    n = n or r.choice([1, 2, 2, 3])
    P = None
    for i in range(n):
        Q = gen_abs_pred(r, G) if (i == 0 or r.random() < 0.7) else gen_inner_pred(r, G)
        if r.random() < 0.3:
            Q = ("not", Q)
        P = Q if P is None else (r.choice(["and", "or"]), P, Q)
    return ("not", P) if r.random() < 0.15 else P


def gen_heavy_query(r, G):
    """a query whose steps carry predicates with absolute paths"""
    k = r.random()
    steps, seps = [], []
    if k < 0.45:
        lead = "//"
        steps.append({"axis": None, "test": r.choice(["*", "*", r.choice(G["names"][1:])]), "pred": gen_heavy_pred(r, G)})
    else:
        lead = r.choice([None, "/"])
        node = 0
        for i in range(r.choice([1, 2, 2, 3])):
            ch = eff_children(G, node)
            if not ch:
                break
            (nm, node, _) = r.choice(ch)
            if i:
                seps.append("/")
            steps.append({"axis": None, "test": nm if r.random() < 0.6 else "*",
                          "pred": gen_heavy_pred(r, G, r.choice([1, 1, 2])) if (i == 0 or r.random() < 0.6) else None})
    p = {"lead": lead, "steps": steps, "seps": seps}
    minimal = r.random() < 0.8
    return {"text": render_path(p, minimal, r.choice([" ", " ", ""])) + r.choice(["", "", "/"]), "aliases": {}, "path": p}


def gen_pred(r, G, depth):
    k = r.random()
    if k < 0.14:
        return gen_abs_pred(r, G) if r.random() < 0.6 else gen_heavy_pred(r, G, 2)
    if depth <= 0:
        k = 0.45 + k * 0.55
    if k < 0.15:
        return ("not", gen_pred(r, G, depth - 1))
    if k < 0.3:
        return ("and", gen_pred(r, G, depth - 1), gen_pred(r, G, 0))
    if k < 0.42:
        return ("or", gen_pred(r, G, depth - 1), gen_pred(r, G, 0))
    if k < 0.72:
        return ("path", gen_path(r, G, depth, False))
    if k < 0.9:
        a = r.randrange(len(LEAVES))
        # one third of the comparisons have sides that are equal for some packages (<= vs <, == vs !=)
        b = r.choice(TWINS.get(a, [a])) if r.random() < 0.35 else r.randrange(len(LEAVES))
        return ("cmp", r.choice(CMP_OPS), a, b)
    return ("truth", r.randrange(len(LEAVES)))


PREC_CMP = {"<": 8, "<=": 7, ">": 6, ">=": 5, "==": 4, "!=": 3}


def prec(P):
    return {"not": 9, "and": 2, "or": 1}.get(P[0]) or (PREC_CMP[P[1]] if P[0] == "cmp" else 1000)


def render_pred(P, minimal, sp):
    def sub(Q, need):
        s = render_pred(Q, minimal, sp)
        return "(" + s + ")" if need else s
    k = P[0]
    if k == "not":
        return "!" + sub(P[1], prec(P[1]) < 9 if minimal else prec(P[1]) < 1000)
    if k in ("and", "or"):
        me = prec(P)
        op = "&&" if k == "and" else "||"
        l = sub(P[1], prec(P[1]) < me if minimal else prec(P[1]) < 1000)
        rr = sub(P[2], prec(P[2]) <= me if minimal else prec(P[2]) < 1000)
        return l + sp + op + sp + rr
    if k == "path":
        return render_path(P[1], minimal, sp)
    if k == "cmp":
        return render_leaf(LEAVES[P[2]]) + sp + P[1] + sp + render_leaf(LEAVES[P[3]])
    return render_leaf(LEAVES[P[1]])


def render_step(st, minimal, sp):
    if st.get("dot"):
        return "."
    s = (st["axis"] + "@" if st["axis"] else "") + st["test"]
    if st["pred"] is not None:
        s += "[" + render_pred(st["pred"], minimal, sp) + "]"
    return s


def render_path(p, minimal=False, sp=" "):
    s = p["lead"] or ""
    for i, st in enumerate(p["steps"]):
        if i:
            s += p["seps"][i - 1]
        s += render_step(st, minimal, sp)
    return s


def path_tokens(p):
    """the token list as the grammar delivers it to LocationPath (for the model)"""
    toks = [p["lead"]] if p["lead"] else []
    for i, st in enumerate(p["steps"]):
        if i:
            toks.append(p["seps"][i - 1])
        if st.get("dot"):
            toks.append({"axis": "self", "test": "*", "pred": None})
        else:
            toks.append({"axis": st["axis"] or "child", "test": st["test"],
                         "pred": None if st["pred"] is None else pred_json(st["pred"])})
    return toks


def pred_json(P):
    k = P[0]
    if k == "not":
        return {"not": pred_json(P[1])}
    if k in ("and", "or"):
        return {k: [pred_json(P[1]), pred_json(P[2])]}
    if k == "path":
        return {"path": path_tokens(P[1])}
    if k == "cmp":
        return {"cmp": P[1], "l": P[2], "r": P[3]}
    return {"truth": P[1]}


def raw_steps(p):
    """the steps of the path with the abbreviations written out: // = descendant-or-self@*, . = self@*"""
    out = []
    if p["lead"] == "//":
        out.append({"axis": "descendant-or-self", "test": "*", "pred": None, "abbrev": True})
    for i, st in enumerate(p["steps"]):
        if i and p["seps"][i - 1] == "//":
            out.append({"axis": "descendant-or-self", "test": "*", "pred": None, "abbrev": True})
        if st.get("dot"):
            out.append({"axis": "self", "test": "*", "pred": None, "abbrev": True})
        else:
            out.append({"axis": st["axis"] or "child", "test": st["test"], "pred": st["pred"]})
    return out


def gen_query(r, G):
    """-> dict(text, aliases, path (the meaning after alias substitution), trail)"""
    if r.random() < 0.015:
        # the root itself
        return {"text": r.choice(["", "/", "//", "///"]), "aliases": {}, "path": {"lead": None, "steps": [], "seps": []}}
    if r.random() < 0.1:
        return gen_heavy_query(r, G)
    p = gen_path(r, G, r.choice([0, 0, 0, 1, 1, 1, 1, 2, 2]), True)
    minimal = r.random() < 0.8
    sp = r.choice([" ", " ", "", "  "])
    aliases = {}
    text = render_path(p, minimal, sp)
    k = r.random()
    if k < 0.12 and p["lead"] is None and len(p["steps"]) >= 2 and all("/" not in render_step(s, minimal, sp) for s in p["steps"][:1]):
        # the first one or two steps become an alias
        cut = 1 if (len(p["steps"]) == 2 or r.random() < 0.6 or "/" in render_step(p["steps"][1], minimal, sp)) else 2
        head = {"lead": None, "steps": p["steps"][:cut], "seps": p["seps"][:cut - 1]}
        tail = {"lead": None, "steps": p["steps"][cut:], "seps": p["seps"][cut:]}
        an = r.choice(["al", "my-alias", "x", G["names"][1], "a"])
        aliases[an] = render_path(head, minimal, sp)
        text = an + p["seps"][cut - 1] + render_path(tail, minimal, sp)
    elif k < 0.16:
        # an alias that must NOT be applied: absolute path, or not the first step
        aliases[r.choice([s["test"] for s in p["steps"] if "test" in s] or ["a"])] = "nope/nope"
        if p["lead"] is None:
            p = dict(p, lead="/")
            text = render_path(p, minimal, sp)
    elif k < 0.2:
        aliases["unused-alias"] = "a/b"
    trail = r.choice(["", "", "", "", "/", "//", "///"])
    return {"text": text + trail, "aliases": aliases, "path": p}


def mutate(r, s):
    alpha = "/@*[]!&|\"'()<>=. a$-"
    i = r.randrange(len(s) + 1)
    k = r.random()
    if k < 0.4 and s:
        i = min(i, len(s) - 1)
        return s[:i] + s[i + 1:]
    if k < 0.8:
        return s[:i] + r.choice(alpha) + s[i:]
    i = min(i, max(0, len(s) - 1))
    return s[:i] + r.choice(alpha) + s[i + 1:]


# ------------------------------------------------------------------ the property's own wording, executed naively

def glob_ok(test, name):
    if test == "*":
        return True
    if "*" in test:
        return re.fullmatch(".*".join(re.escape(x) for x in test.split("*")), name, re.S) is not None
    return name == test


def norm_steps(steps):
    """what LocationPath.__init__ keeps (only used to attribute a lost result to finding F-C18-1)"""
    st = [x for x in steps if not (x["axis"] == "self" and x["test"] == "*" and x["pred"] is None)]
    out, i = [], 0
    while i < len(st):
        x = st[i]
        if i + 1 < len(st) and x["axis"] == "descendant-or-self" and x["test"] == "*" and x["pred"] is None \
                and st[i + 1]["axis"] == "child":
            x = dict(st[i + 1], axis="descendant")
            i += 1
        out.append(x)
        i += 1
    return out


def lost_below_other_match(sem, steps, lost):
    """F-C18-1: is every lost package a match of a descendant step that can only be reached through another match of
    the same step (or a package below such a match)?"""
    ns = norm_steps(steps)
    sets = sem.eval(ns, 0)
    cut = set()
    for i, st in enumerate(ns):
        if st["axis"] not in DESC_AXES:
            continue
        qi = DESC_AXES[st["axis"]]
        O, N = sets[i], sets[i + 1]
        if O >= N:
            continue
        reach, todo = set(), [o for o in O if o not in N]
        seen = set(todo)
        while todo:
            u = todo.pop()
            for (_, c, d) in sem.ch[u]:
                if not (qi or d):
                    continue
                if c in N:
                    reach.add(c)
                elif c not in seen:
                    seen.add(c)
                    todo.append(c)
        cut |= N - O - reach
    return bool(cut) and all(x in cut or any(x in sem.desc(t, False) for t in cut) for x in lost)


class Sem:
    def __init__(self, G, svals):
        self.G = G
        self.sv = svals
        self.ch = [eff_children(G, i) for i in range(G["n"])]
        self._desc = {}

    def desc(self, a, donly):
        """all packages on all downward paths from a (a itself excluded)"""
        key = (a, donly)
        if key not in self._desc:
            out = set()
            for (_, c, d) in self.ch[a]:
                if d or not donly:
                    out.add(c)
                    out |= self.desc(c, donly)
            self._desc[key] = out
        return self._desc[key]

    def axis(self, ax, a):
        if ax == "self":
            return {a}
        if ax == "child":
            return {c for (_, c, _) in self.ch[a]}
        if ax == "direct-child":
            return {c for (_, c, d) in self.ch[a] if d}
        s = set(self.desc(a, not DESC_AXES[ax]))
        if ax.endswith("-or-self"):
            s.add(a)
        return s

    def node_ok(self, st, c):
        return glob_ok(st["test"], self.G["names"][c]) and (st["pred"] is None or self.holds(st["pred"], c))

    def holds(self, P, n):
        from bob.stringparser import isTrue
        k = P[0]
        if k == "not":
            return not self.holds(P[1], n)
        if k == "and":
            return self.holds(P[1], n) and self.holds(P[2], n)
        if k == "or":
            return self.holds(P[1], n) or self.holds(P[2], n)
        if k == "path":
            p = P[1]
            return bool(self.eval(raw_steps(p), 0 if p["lead"] else n)[-1])
        if k == "cmp":
            l, rr = self.sv[P[2]][n], self.sv[P[3]][n]
            return {"<": l < rr, "<=": l <= rr, ">": l > rr, ">=": l >= rr, "==": l == rr, "!=": l != rr}[P[1]]
        return bool(isTrue(self.sv[P[1]][n]))

    def eval(self, steps, ctx):
        sets = [{ctx}]
        for st in steps:
            nxt = set()
            for a in sets[-1]:
                for c in self.axis(st["axis"], a):
                    if self.node_ok(st, c):
                        nxt.add(c)
            sets.append(nxt)
        return sets

    @staticmethod
    def is_complex(st):
        if st.get("abbrev") and st["axis"] == "self":
            return False           # `.`
        if st["axis"] == "self" and st["test"] == "*" and st["pred"] is None:
            return False           # self@* written out is the same trivial step
        return ("*" in st["test"]) or st["pred"] is not None or st["axis"] in DESC_AXES

    def expected_error(self, steps, sets, mode):
        """None | 'notFound' | 'noMatch' according to the documented query modes"""
        if mode == "nullset":
            return None
        cplx = False
        for i, st in enumerate(steps):
            cplx = cplx or self.is_complex(st)
            if not sets[i + 1]:
                if not cplx:
                    return "notFound"
                return "noMatch" if mode == "nullfail" else None
        return None

    def walk(self, stack):
        """the nodes along the names of `stack` from the root, with the direct flag of every hop"""
        seq, flags, node = [0], [], 0
        for nm in stack:
            hit = [(c, d) for (n2, c, d) in self.ch[node] if n2 == nm]
            if not hit:
                return None, None
            node = hit[0][0]
            seq.append(node)
            flags.append(hit[0][1])
        return seq, flags

    def passes_through(self, steps, seq, flags):
        """does the path visit a witness of every step, in order, ending at its last node?"""
        S = {0}
        for st in steps:
            nxt = set()
            ax = st["axis"]
            for j0 in S:
                if ax == "self":
                    cand = [j0]
                elif ax in ("child", "direct-child"):
                    cand = [j0 + 1] if j0 + 1 < len(seq) and (ax == "child" or flags[j0]) else []
                else:
                    cand = [j0] if ax.endswith("-or-self") else []
                    j = j0
                    while j + 1 < len(seq) and (DESC_AXES[ax] or flags[j]):
                        j += 1
                        cand.append(j)
                for j in cand:
                    if self.node_ok(st, seq[j]):
                        nxt.add(j)
            S = nxt
        return (len(seq) - 1) in S


# ------------------------------------------------------------------ implementation access

class FakeStep:
    def __init__(self, pkg):
        self.pkg = pkg

    def getPackage(self):
        return self.pkg

    def getEnv(self):
        return self.pkg.G["env"][self.pkg.i]

    def getTools(self):
        return {}


class FakePkg:
    def __init__(self, G, i, stack):
        self.G, self.i, self.stack = G, i, stack

    def getName(self):
        return self.G["names"][self.i]

    def _getId(self):
        return self.i

    def getStack(self):
        return self.stack

    def getDirectDepSteps(self):
        return [FakeStep(FakePkg(self.G, c, self.stack + [self.G["names"][c]])) for c in self.G["direct"][self.i]]

    def getIndirectDepSteps(self):
        return [FakeStep(FakePkg(self.G, c, self.stack + [self.G["names"][c]])) for c in self.G["indirect"][self.i]]

    def getPackageStep(self):
        return FakeStep(self)

    def getMetaEnv(self):
        return {}

    def getRecipe(self):
        return None

    def _getSandboxRaw(self):
        return None

    def getPluginStates(self):
        return {}


def classify(e):
    s = str(e.slogan)
    if s.startswith("Package '") and s.endswith("not found"):
        return "notFound"
    if s.startswith("Query '") and s.endswith("matched no packages"):
        return "noMatch"
    if s.startswith("Invalid syntax") or s.startswith("Bad syntax"):
        return "syntax"
    return "other:" + s[:60]


def impl_query(ps, text, kind, query_all):
    """a query that exceeds 10 s of CPU time is repeated once with 40 s before it is called a hang
    (the slowest generated queries need about 2 s, nearly all of it in pyparsing)"""
    got = impl_query1(ps, text, kind, query_all, 10.0)
    if got[0] == "hang":
        got = impl_query1(ps, text, kind, query_all, 40.0)
    return got


def impl_query1(ps, text, kind, query_all, limit):
    from bob.errors import BobError
    # CPU time of this process, so that a loaded machine does not look like a hang
    old = signal.signal(signal.SIGPROF, _alarm)
    signal.setitimer(signal.ITIMER_PROF, limit)
    try:
        if kind == "tree":
            return ["ok", [[list(s), n.key()] for (s, n) in ps.queryTreePath(text, query_all)]]
        return ["ok", [[list(p.getStack()[1:]), p._getId()] for p in ps.queryPackagePath(text, query_all)]]
    except BobError as e:
        return ["err", classify(e)]
    except Timeout:
        return ["hang", None]
    except RecursionError:
        return ["err", "recursion"]
    except Exception as e:  # noqa
        return ["internal", "%s: %s" % (type(e).__name__, e)]
    finally:
        signal.setitimer(signal.ITIMER_PROF, 0)
        signal.signal(signal.SIGPROF, old)


class Impl:
    """one generated graph behind real PackageSets (one per query mode, sharing .bob-tree.sqlite3)"""

    def __init__(self, G, workdir):
        self.G = G
        self.dir = workdir
        os.makedirs(workdir, exist_ok=True)
        self.sets = {}

    def get(self, mode, aliases):
        from bob.pathspec import PackageSet
        from bob.stringparser import DEFAULT_STRING_FUNS
        key = (mode, json.dumps(aliases, sort_keys=True))
        if key not in self.sets:
            G = self.G
            self.sets[key] = PackageSet(b"c18", dict(aliases), DEFAULT_STRING_FUNS, lambda: FakePkg(G, 0, [""]), mode)
        return self.sets[key]

    def query(self, mode, aliases, text, kind, query_all):
        cwd = os.getcwd()
        os.chdir(self.dir)
        try:
            return impl_query(self.get(mode, aliases), text, kind, query_all)
        finally:
            os.chdir(cwd)

    def tables(self):
        """children / parents tables of the persisted graph, read from the sqlite file"""
        import pickle
        import sqlite3
        con = sqlite3.connect(os.path.join(self.dir, ".bob-tree.sqlite3"))
        try:
            rows = con.execute("SELECT key, node FROM graph").fetchall()
            root = con.execute("SELECT value FROM meta WHERE key='root'").fetchone()[0]
        finally:
            con.close()
        out = {}
        for key, blob in rows:
            (name, parents, childs) = pickle.loads(blob)
            out[key] = {"name": name, "parents": sorted([p, bool(d)] for p, d in parents.items()),
                        "children": [[nm, v[0], bool(v[1])] for nm, v in childs.items()]}
        return root, out

    def close(self):
        for ps in self.sets.values():
            try:
                ps.close()
            except Exception:  # noqa
                pass
        self.sets = {}


# ------------------------------------------------------------------ one case = one (graph, query)

def check_case(G, svals, sem, impl, q, extra_mode, want_all, full=True):
    """run the query on the implementation and apply the oracle.
    -> (record for the correspondence, [ (what, signature) ])
    Parsing a query with predicates costs 10-500 ms in pyparsing; with full=False such a query is run in all three
    modes only if its expected result is empty, and only one of the three other observables is taken."""
    viol = []
    steps = raw_steps(q["path"])
    sets = sem.eval(steps, 0)
    expect_nodes = sorted(sets[-1])
    rec = {"text": q["text"], "aliases": q["aliases"], "tokens": path_tokens(q["path"]), "modes": {}, "extra_mode": extra_mode,
           "expect": expect_nodes}

    def bad(what, sig):
        viol.append((what, sig))

    def check_result(kind, qa, res):
        got = sorted(set(n for (_, n) in res))
        want = expect_nodes if kind == "tree" else [n for n in expect_nodes if n != 0]
        if got != want:
            lost, extra = sorted(set(want) - set(got)), sorted(set(got) - set(want))
            sig = "result-set-mismatch"
            if lost and not extra and lost_below_other_match(sem, steps, lost):
                sig = "F-C18-1-nested-match-lost"
            bad("%s(%r, queryAll=%s) returns packages %s, step by step evaluation gives %s (lost %s, extra %s)"
                % ("queryTreePath" if kind == "tree" else "queryPackagePath", q["text"], qa, got, want, lost, extra), sig)
        seen = set()
        for (stack, node) in res:
            seq, flags = sem.walk(stack)
            if seq is None or seq[-1] != node:
                bad("reported stack %r is not a real path to package %s" % (stack, node), "stack-not-a-real-path")
                continue
            if node in sets[-1] and not sem.passes_through(steps, seq, flags):
                bad("%r (queryAll=%s): result %r is reported at path /%s which does not pass through the steps of the query"
                    % (q["text"], qa, G["names"][node], "/".join(stack)), "F-C18-2-path-bypasses-intermediate-step")
            if tuple(stack) in seen:
                bad("stack %r reported twice" % (stack,), "stack-reported-twice")
            seen.add(tuple(stack))
        if not qa:
            nodes = [n for (_, n) in res]
            if len(nodes) != len(set(nodes)):
                bad("queryAll=False reports a package more than once: %r" % (res,), "result-reported-twice")

    first_ok = None
    cheap = full or "[" not in q["text"]
    for mode in (MODES if (cheap or not expect_nodes) else [extra_mode]):
        got = impl.query(mode, q["aliases"], q["text"], "tree", False)
        rec["modes"][mode] = got
        want_err = sem.expected_error(steps, sets, mode)
        if got[0] == "hang":
            bad("query %r did not terminate within 40 s of CPU time on a graph of %d packages" % (q["text"], G["n"]), "query-hang")
            return rec, viol
        elif got[0] == "internal":
            bad("internal exception from queryTreePath(%r): %s" % (q["text"], got[1]), "internal-exception")
        elif got == ["err", "recursion"]:
            rec["skip"] = "RecursionError in the parser"
        elif got[0] == "err":
            if got[1] != want_err:
                bad("mode %s: query %r raised %s, the documented mode prescribes %s" % (mode, q["text"], got[1], want_err or "a result"),
                    "empty-mode-" + mode)
        else:
            if want_err:
                bad("mode %s: query %r returned %d packages, the documented mode prescribes error %s"
                    % (mode, q["text"], len(got[1]), want_err), "empty-mode-" + mode)
            if first_ok is None:
                first_ok = got[1]
                check_result("tree", False, got[1])
            elif got[1] != first_ok:
                bad("query %r: mode %s changes the result: %r vs %r" % (q["text"], mode, got[1], first_ok), "mode-changes-result")
    base = rec["modes"][extra_mode]
    pick = None if cheap else ("pkg0" if not want_all else "tree1" if len(q["text"]) % 2 else "pkg1")
    if base[0] == "ok" and pick in (None, "pkg0"):
        rec["pkg0"] = impl.query(extra_mode, q["aliases"], q["text"], "pkg", False)
        if rec["pkg0"][0] == "ok":
            check_result("pkg", False, rec["pkg0"][1])
            if rec["pkg0"][1] != [x for x in base[1] if x[0]]:
                bad("queryPackagePath(%r) returns %r, queryTreePath %r" % (q["text"], rec["pkg0"][1], base[1]), "package-vs-tree")
        else:
            bad("queryPackagePath(%r) fails (%r) where queryTreePath succeeds" % (q["text"], rec["pkg0"]), "package-vs-tree")
    if base[0] == "ok" and want_all:
        for kind in ("tree1", "pkg1"):
            if pick in (None, kind):
                rec[kind] = impl.query(extra_mode, q["aliases"], q["text"], kind[:-1], True)
        for kind in ("tree1", "pkg1"):
            if kind not in rec:
                continue
            if rec[kind][0] != "ok":
                bad("queryAll=True fails (%r) where queryAll=False succeeds: %r" % (rec[kind], q["text"]), "queryall-vs-first")
            else:
                check_result(kind[:-1], True, rec[kind][1])
        if "tree1" in rec and "pkg1" in rec and rec["tree1"][0] == "ok" and rec["pkg1"][0] == "ok" \
                and rec["pkg1"][1] != [x for x in rec["tree1"][1] if x[0]]:
            bad("queryPackagePath(%r, True) differs from queryTreePath" % q["text"], "package-vs-tree")
    return rec, viol


def check_tables(G, impl):
    """(f): the persisted parents are the inverse of the persisted children; children as documented"""
    viol = []
    try:
        root, tab = impl.tables()
    except Exception as e:  # noqa
        return None, [("the persisted graph cannot be read: %s: %s" % (type(e).__name__, e), "graph-db-unreadable")]
    if root != 0 or sorted(tab) != list(range(G["n"])):
        viol.append(("persisted graph has keys %s root %s for %d packages" % (sorted(tab), root, G["n"]), "graph-db-nodes"))
        return tab, viol
    for i in range(G["n"]):
        want = [[nm, c, d] for (nm, c, d) in eff_children(G, i)]
        if tab[i]["children"] != want or tab[i]["name"] != G["names"][i]:
            viol.append(("children of package %d persisted as %r, dependencies are %r" % (i, tab[i]["children"], want), "graph-db-children"))
    for x in range(G["n"]):
        want = sorted([p, d] for p in range(G["n"]) for (nm, c, d) in eff_children(G, p) if c == x)
        if tab[x]["parents"] != want:
            viol.append(("parents of package %d persisted as %r, inverse of the children is %r" % (x, tab[x]["parents"], want),
                         "graph-db-parents-not-inverse"))
    return tab, viol


# ------------------------------------------------------------------ fixed corpus: directed cases, always run first

def _S(test, axis=None, pred=None):
    return {"dot": True} if test == "." else {"axis": axis, "test": test, "pred": pred}


def _P(lead, *steps_and_seps):
    """_P(lead, step, sep, step, ...)"""
    return {"lead": lead, "steps": list(steps_and_seps[0::2]), "seps": list(steps_and_seps[1::2])}


def _Q(path, aliases=None, trail="", text=None, minimal=True):
    return {"text": (text if text is not None else render_path(path, minimal, " ")) + trail, "aliases": aliases or {}, "path": path}


def corpus():
    """one graph with nested matches, a pruned branch that reaches a later search region, direct vs provided edges,
    shadowed provided dependencies; queries that need exactly these features"""
    G = {"n": 10,
         "names": ["", "a1", "b", "a2", "w", "c", "z", "x", "x", "lib"],
         "direct": [[1, 4, 9], [2], [3, 5], [], [6], [6], [7], [], [], [8]],
         "indirect": [[2], [7, 8], [], [], [], [], [], [], [], [7]],
         "env": [{}, {"V": "a", "T": "1"}, {"V": "b", "T": "0"}, {"V": "a"}, {"V": "c", "L": "GPL"}, {"V": "a b"}, {"T": ""},
                 {"V": "a", "L": "MIT"}, {"V": "b"}, {"V": "", "N": "lib"}]}
    V, A, B = 0, 3, 4          # leaves "$V", 'a', 'b'
    path_x = ("path", _P(None, _S("x", "direct-child")))
    abs_b = ("path", _P("/", _S("a1"), "/", _S("*", None, ("cmp", "==", V, B))))          # /a1/*["$V" == 'b']  (matches b)
    abs_none = ("path", _P("/", _S("a1"), "/", _S("*", None, ("cmp", "==", V, 6))))       # /a1/*["$V" == '']  (matches nothing)
    qs = [
        _Q(_P("//", _S("a*"))), _Q(_P(None, _S("a1"), "/", _S("a*", "descendant-or-self"))), _Q(_P("/", _S("a*", "descendant"))),
        _Q(_P(None, _S("*"), "/", _S("c"), "//", _S("x"))), _Q(_P(None, _S("*"), "/", _S("b"), "/", _S("x", "descendant"))),
        _Q(_P("//", _S("*", None, path_x))), _Q(_P("//", _S("*", None, ("path", _P(None, _S("x", "direct-descendant")))))),
        _Q(_P("//", _S("*", None, ("path", _P(None, _S("x", "child")))))), _Q(_P(None, _S("a1"), "/", _S("x", "direct-child"))),
        _Q(_P(None, _S("a1"), "/", _S("x", "direct-descendant"))), _Q(_P(None, _S("a1", "direct-child"), "/", _S("b", "direct-descendant-or-self"))),
        _Q(_P("//", _S("*", None, ("cmp", "<=", V, A)))), _Q(_P("//", _S("*", None, ("cmp", "<=", A, V)))),
        _Q(_P("//", _S("*", None, ("cmp", "<", V, A)))), _Q(_P("//", _S("*", None, ("cmp", ">=", V, B)))),
        _Q(_P("//", _S("*", None, ("cmp", ">", B, V)))), _Q(_P("//", _S("*", None, ("cmp", "==", V, A)))),
        _Q(_P("//", _S("*", None, ("cmp", "!=", V, A)))), _Q(_P("//", _S("*", None, ("truth", 1)))),
        _Q(_P("//", _S("*", None, ("not", ("truth", 1))))), _Q(_P(None, _S("a1")), trail="/"), _Q(_P(None, _S("a1")), trail="//"),
        _Q(_P("//", _S("x")), trail="///"), _Q(_P("//", _S("*", None, ("path", _P("/", _S("a1")))))),
        _Q(_P("//", _S("*", None, ("path", _P("/", _S("nope")))))), _Q(_P("//", _S("*", None, ("path", _P(None, _S("a2")))))),
        _Q(_P("//", _S("*", None, ("path", _P("//", _S("a2")))))), _Q(_P(None, _S("lib"), "/", _S("x"))), _Q(_P(None, _S("a1"), "/", _S("x"))),
        _Q(_P(None, _S("a1"), "/", _S("b"), "/", _S("a2")), aliases={"al": "a1/b"}, text="al/a2"),
        _Q(_P("/", _S("al")), aliases={"al": "a1/b"}), _Q(_P(None, _S("nope"))), _Q(_P(None, _S("a1"), "/", _S("nope"))),
        _Q(_P("//", _S("nope"))), _Q(_P(None, _S("n*"))), _Q(_P(None, _S("a1"), "/", _S("nope", None, ("truth", 1)))),
        _Q(_P(None, _S("."))), _Q(_P(None, _S("."), "/", _S("a1"))), _Q(_P(None, _S("a1", "self"))), _Q(_P(None, _S("a1"), "/", _S("*", "self"))),
        _Q(_P(None, _S("a1"), "/", _S("."))), _Q(_P(None, _S("."), "//", _S("x"))), _Q(_P("/", _S("*", "descendant-or-self"), "/", _S("x", "child"))),
        _Q(_P(None, _S("b"), "//", _S("x"))), _Q(_P("//", _S("b"), "/", _S("*"))),
        _Q(_P("//", _S("*", None, ("and", ("path", _P(None, _S("x"))), ("or", ("cmp", "==", V, A), ("not", ("path", _P(None, _S("z"))))))))),
        # absolute paths in predicates whose final wildcard step has its own predicate: true for every package or for none
        _Q(_P("//", _S("*", None, abs_b))), _Q(_P("//", _S("*", None, ("not", abs_b)))), _Q(_P("//", _S("*", None, abs_none))),
        _Q(_P("//", _S("*", None, ("not", abs_none)))), _Q(_P("//", _S("*", None, ("path", _P("/", _S("*"), "/", _S("*", None, ("path", _P(None, _S("a2"))))))))),
        _Q(_P("//", _S("*", None, ("path", _P("//", _S("*", None, ("cmp", "==", V, B))))))),
        _Q(_P(None, _S("a1", None, abs_b))), _Q(_P(None, _S("*", None, abs_b), "/", _S("*", None, abs_b))),
        _Q(_P("//", _S("*", None, ("and", ("cmp", "==", V, A), abs_b)))), _Q(_P("//", _S("*", None, ("or", abs_none, abs_b)))),
        _Q(_P("//", _S("*", None, ("and", abs_b, ("not", abs_none))))), _Q(_P("//", _S("x", None, ("and", abs_b, abs_b)))),
        _Q(_P("//", _S("*", None, abs_b), "/", _S("*", None, ("not", abs_b)))),
        _Q(_P("//", _S("*", None, ("path", _P("/", _S("a1"), "/", _S("*", "descendant", ("cmp", "==", V, A))))))),
        _Q(_P("//", _S("*", None, ("path", _P("/", _S("*", "descendant-or-self", ("truth", 1))))))),
    ]
    return G, qs


def run_graph(job):
    """worker: one graph, its queries, implementation results and oracle verdicts"""
    (key, nq, nmal, tmp, want_all_share) = job
    r = random.Random(key)
    fixed = None
    if "-corpus" in key:
        G, fixed = corpus()
        fixed = fixed[int(key[-1])::3]          # three slices, run in parallel
        nq, nmal, want_all_share = len(fixed), 0, 1.0
    elif "-heavy" in key:
        # predicate heavy cases: every query carries predicates with absolute paths
        G = gen_graph(r, r.choice([6, 8, 10, 12]))
        fixed = [gen_heavy_query(r, G) for _ in range(nq)]
        nmal = 0
    else:
        G = gen_graph(r)
    svals = leaf_values(G)
    sem = Sem(G, svals)
    impl = Impl(G, os.path.join(tmp, "g-" + re.sub(r"\W", "_", key)))
    out = {"key": key, "G": G, "svals": svals, "cases": [], "viol": [], "malformed": [], "tables": None}
    try:
        for qi in range(nq):
            q = fixed[qi] if fixed else gen_query(r, G)
            extra_mode = r.choice(MODES)
            rec, viol = check_case(G, svals, sem, impl, q, extra_mode, r.random() < want_all_share,
                                   full="-corpus" in key)
            if any(sig == "query-hang" for (_, sig) in viol):
                out["cases"].append(rec)
                out["viol"] += [{"what": what, "signature": sig, "q": q, "extra_mode": extra_mode} for (what, sig) in viol]
                out["hang"] = True
                break
            if qi == 0:
                impl.query("nullset", {}, "", "tree", False)      # the root itself: makes sure the graph is persisted
                tab, tv = check_tables(G, impl)
                out["tables"] = tab
                viol = viol + tv
            if qi == nq // 2:
                impl.close()        # the second half runs on the warm .bob-tree.sqlite3
            out["cases"].append(rec)
            for (what, sig) in viol:
                out["viol"].append({"what": what, "signature": sig, "q": q, "extra_mode": extra_mode})
        for mi in range(0 if out.get("hang") else nmal):
            q = gen_query(r, G)
            text = mutate(r, q["text"])
            if r.random() < 0.3:
                text = mutate(r, text)
            got = impl.query("nullset", q["aliases"], text, "tree", False)
            out["malformed"].append([text, got[0], got[1] if got[0] != "ok" else len(got[1])])
            if got[0] == "hang":
                out["viol"].append({"what": "malformed query %r: %s %s" % (text, got[0], got[1]), "signature": "query-hang",
                                    "q": {"text": text, "aliases": q["aliases"], "path": None}, "extra_mode": "nullset"})
    finally:
        impl.close()
    return out


_RUN = {"graphs": []}


def _case(g, v):
    return {"graph": g["G"], "query": v["q"], "mode": v["extra_mode"], "signature": v["signature"], "key": g["key"]}


def shrink(ctx, G, q, sig, tmp):
    """greedy: drop packages while the same failure persists"""
    if q.get("path") is None:
        return G
    budget = 60
    changed = True
    while changed and budget > 0:
        changed = False
        for x in range(G["n"] - 1, 0, -1):
            budget -= 1
            if budget <= 0:
                break
            H = remove_node(G, x)
            if H["n"] < 2:
                continue
            if sig in fails(H, q, os.path.join(tmp, "shrink-%d" % budget)):
                G = H
                changed = True
                break
    return G


def fails(G, q, workdir):
    """signatures of the oracle failures of query q on graph G"""
    try:
        svals = leaf_values(G)
    except Exception:  # noqa
        return set()
    impl = Impl(G, workdir)
    try:
        if q.get("path") is None:
            got = impl.query("nullset", q["aliases"], q["text"], "tree", False)
            return {"internal-exception"} if got[0] == "internal" else {"query-hang"} if got[0] == "hang" else set()
        _, viol = check_case(G, svals, Sem(G, svals), impl, q, "nullset", True)
        _, tv = check_tables(G, impl)
        return {s for (_, s) in viol + tv}
    finally:
        impl.close()


def oracle(ctx):
    n_graphs = ctx.scale(150, 4000)
    nq = ctx.scale(24, 40)
    nmal = ctx.scale(6, 10)
    reserve = ctx.scale(35.0, 300.0)            # time kept for the correspondence
    done = 0
    _RUN["graphs"] = []
    shrunk = set()
    persig = {}
    hang = False
    last = 0.0
    import time
    # the first batch always runs: a build that ate the budget must not turn the check into a no-op
    while done < n_graphs and (done == 0 or ctx.time_left() - reserve > 1.3 * last) and not hang:
        t0 = time.time()
        # a small first batch calibrates the time per batch on a loaded machine
        batch = [("%s-%d-g%d" % (ctx.prop, ctx.seed, done + i), nq, nmal, ctx.tmp, 0.5)
                 for i in range(min(8 if done == 0 else 16, n_graphs - done))]
        if done == 0:
            # always run, however loaded the machine is: the directed corpus and 6 x 16 predicate heavy cases
            batch = [("%s-corpus%d" % (ctx.prop, i), 0, 0, ctx.tmp, 1.0) for i in range(3)] + \
                    [("%s-%d-heavy%d" % (ctx.prop, ctx.seed, i), 16, 0, ctx.tmp, 0.5) for i in range(6)] + batch
        done += len(batch)
        for g in ctx.parallel(run_graph, batch):
            _RUN["graphs"].append(g)
            hang = hang or bool(g.get("hang"))
            ctx.count("graph_size", (g["G"]["n"] // 5) * 5)
            for c in g["cases"]:
                ctx.case((g["key"], c["text"], c["aliases"]), nontrivial=bool(c["tokens"]),
                         sample={"packages": g["G"]["n"], "query": c["text"], "aliases": c["aliases"], "result": c["modes"]})
                for m in c["modes"]:
                    ctx.count("outcome_" + m, c["modes"][m][0] if c["modes"][m][0] != "err" else "err:" + c["modes"][m][1])
                ctx.count("result_size", min(len(c["expect"]), 10))
                for ax in set(re.findall(r"([a-z-]+)@", c["text"])):
                    ctx.count("axis", ax)
                ctx.count("features", "pred" if "[" in c["text"] else "plain")
                if "//" in c["text"]:
                    ctx.count("features", "//")
                if c["aliases"]:
                    ctx.count("features", "alias")
            for (text, k, detail) in g["malformed"]:
                ctx.case((g["key"], text, "malformed"))
                ctx.count("malformed_outcome", k)
                if k == "internal":
                    # a malformed text is not a path query: recorded, not a verdict about the property
                    ctx.notes.setdefault("malformed_internal_exception", "%r: %s" % (text, detail))
            for v in g["viol"]:
                # the core keeps 50 violations: a frequent (known) signature must not crowd out a rare one
                persig[v["signature"]] = persig.get(v["signature"], 0) + 1
                ctx.count("oracle_failures", v["signature"])
                if persig[v["signature"]] > 3:
                    continue
                case = _case(g, v)
                if v["signature"] not in shrunk and len(shrunk) < 6:
                    shrunk.add(v["signature"])
                    try:
                        case["graph"] = shrink(ctx, g["G"], v["q"], v["signature"], ctx.tmp)
                    except Exception as e:  # noqa
                        ctx.notes["shrink_failed"] = "%s: %s" % (type(e).__name__, e)
                ctx.violation(v["what"], case, v["signature"])
        last = time.time() - t0
    if done < n_graphs:
        ctx.notes["graphs_cut_by_time"] = "%d of %d" % (done, n_graphs)


def _norm_tree(x):
    return [[list(s), n] for (s, n) in x]


def correspond(ctx):
    graphs = _RUN["graphs"]
    reqs, index = [], []
    for gi, g in enumerate(graphs):
        G = g["G"]
        reqs.append({"op": "graph", "size": G["n"], "root": 0, "names": G["names"], "direct": G["direct"],
                     "indirect": G["indirect"], "svals": g["svals"]})
        index.append(("graph", gi, None))
        for ci, c in enumerate(g["cases"]):
            for m in c["modes"]:
                reqs.append({"op": "query", "path": c["tokens"], "mode": m,
                             "all": (m == c["extra_mode"] and ("tree1" in c or "pkg1" in c))})
                index.append(("query", gi, (ci, m)))
    if not reqs:
        ctx.skip("correspondence: no graph was evaluated")
        return
    out = ctx.lean(DRIVER, reqs)
    n_cmp = 0
    for (kind, gi, arg), m in zip(index, out):
        g = graphs[gi]
        if kind == "graph":
            tab = g["tables"]
            if tab is None:
                continue
            impl_ch = [tab[i]["children"] if i in tab else None for i in range(g["G"]["n"])]
            impl_pa = [tab[i]["parents"] if i in tab else None for i in range(g["G"]["n"])]
            if impl_ch != m["children"] or impl_pa != [sorted(x) for x in m["parents"]]:
                ctx.disagree(".bob-tree.sqlite3 (children, parents) == Model.convChildren / preds", {"graph": g["G"]},
                             {"children": impl_ch, "parents": impl_pa}, m)
            n_cmp += 1
            continue
        ci, mode = arg
        c = g["cases"][ci]
        got = c["modes"][mode]
        case = {"graph": g["G"], "text": c["text"], "aliases": c["aliases"], "tokens": c["tokens"], "mode": mode, "key": g["key"]}
        n_cmp += 1
        if c.get("skip"):
            ctx.skip("correspondence of a query: " + c["skip"])
            continue
        if got[0] in ("hang", "internal"):
            ctx.disagree("queryTreePath terminates with a result or BobError", case, got, m)
            continue
        if "err" in m:
            if got != ["err", m["err"]]:
                ctx.disagree("error kind of queryTreePath per empty mode == Model.evalForward", case, got, m)
            continue
        if got[0] != "ok":
            ctx.disagree("error kind of queryTreePath per empty mode == Model.evalForward", case, got, {"nodes": m["nodes"]})
            continue
        sens = m["sensitive"]
        ctx.count("order_sensitive", sens)

        def same(impl_res, model_res, pk):
            if sens:
                a = sorted(n for (_, n) in impl_res)
                b = sorted(n for (_, n) in model_res)
                return (sorted(set(a)) == sorted(set(b))) and (pk.endswith("1") or a == b)
            return _norm_tree(impl_res) == _norm_tree(model_res)
        if not same(got[1], m["tree0"], "tree0"):
            ctx.disagree("queryTreePath(q, False) == Model.queryTree (stacks in order)", case, got[1], {"tree0": m["tree0"], "nodes": m["nodes"], "sensitive": sens})
            continue
        if mode == c["extra_mode"]:
            for pk in ("pkg0", "tree1", "pkg1"):
                if pk in c and pk in m:
                    if c[pk][0] != "ok" or not same(c[pk][1], m[pk], pk):
                        ctx.disagree("query%sPath(q, %s) == Model (stacks in order)" % ("Tree" if pk[0] == "t" else "Package", pk.endswith("1")),
                                     case, c[pk], {pk: m[pk], "sensitive": sens})
                        break
    ctx.trace_validated(n_cmp)
    # text level preparation (alias substitution, trailing slashes): the model's prepared text, queried without
    # aliases, must give what the implementation gives for the original text with aliases
    prep, where = [], []
    for gi, g in enumerate(graphs[:ctx.scale(40, 400)]):
        for ci, c in enumerate(g["cases"]):
            if (c["aliases"] or c["text"].endswith("/")) and c["extra_mode"] in c["modes"]:
                prep.append({"op": "prep", "aliases": c["aliases"], "path": c["text"]})
                where.append((gi, ci))
    if prep:
        texts = ctx.lean(DRIVER, prep)
        for (gi, ci), t in zip(where, texts):
            g, c = graphs[gi], graphs[gi]["cases"][ci]
            mode = c["extra_mode"]
            impl = Impl(g["G"], os.path.join(ctx.tmp, "prep-%d" % gi))
            try:
                got = impl.query(mode, {}, t["text"], "tree", False)
            finally:
                impl.close()
            ctx.case((g["key"], c["text"], "prep"))
            if got != c["modes"][mode]:
                ctx.disagree("query(text, aliases) == query(Model.prepareQuery(aliases, text), no aliases)",
                             {"graph": g["G"], "text": c["text"], "aliases": c["aliases"], "prepared": t["text"]}, c["modes"][mode], got)
        ctx.trace_validated(len(prep))


def replay(ctx, case):
    G, q = case["graph"], case["query"]
    sigs = fails(G, q, os.path.join(ctx.tmp, "replay"))
    if case.get("signature") in sigs or (sigs and not case.get("signature")):
        ctx.violation("the recorded failure still occurs: %s" % sorted(sigs), case, case.get("signature"))


MANIFEST = {
    "text": "Proved in Lean for every finite graph and every query (Props/C18.lean): the two worklist loops compute exactly the "
            "transitive closure of the (direct) child / parent relation and never exhaust their fuel; the parent table is the inverse "
            "of the child table and the converted package tree is well formed; backward evaluation of predicates is equivalent to "
            "their forward meaning; the node set of the forward evaluation is the step-by-step set; the empty-mode decision table; "
            "reported stacks are real paths inside `valid` and `valid` lies on root-to-result paths; on acyclic graphs every selected "
            "package is reported (queryAll False and True; memoised search, reachable-subset loop and result walk are complete and "
            "their fuel suffices), so the returned set is the declarative set; the constructor rewrites preserve the meaning. "
            "The model is a hand-written transliteration of pathspec.py; it is tied to the current source by a differential run "
            "through the real PackageSet on generated DAGs (result stacks in order, error kind per mode, persisted tables), by "
            "constants regenerated from the source, and an independent naive evaluator is the property oracle. Known finding "
            "F-C18-2: a reported path may bypass an intermediate step (the model reproduces it: theorem bypass_witness).",
    "note": "trusted: Lean kernel, harness/props/c18.py, tools/consts/c18.py, pyparsing text->AST (differentially validated), "
            "bob.stringparser for the string leaves (C17), CPython set/dict/sqlite3/pickle",
    "technique": "Lean 4 proof over hand-written model + differential correspondence + independent naive evaluator as oracle",
}
