"""C04 - package graph caches are transparent.

oracle:      the property itself, on the implementation: generated projects rich in shared sub-recipes, edit
             histories (recipes, classes, included files, default.yaml, -c files, optional includes, -D, --sandbox);
             after every edit the full package tree dump is computed
               W   warm      - persistent project directory with every on-disk cache of the history, normal Bob
               C   cold      - fresh copy without any cache file, fresh process, normal Bob (in-memory memo active)
               U1  no lookup - fresh copy, fresh process, PackageMatcher.matches disabled from the outside
               U2  no memo   - additionally Recipe.__corePackagesById never deduplicates
             W == C (on-disk caches), C == U1 including internal ids (memo by touched keys), U1 == U2 up to ids
             (deduplication by result id; its known observables are classified by signature). Errors by kind.
correspond:  (i)  random op sequences on real `stringparser.Env` objects vs the TrackedEnv model (values, touched
                  stacks, sharing by identity);
             (ii) real PackageMatcher (init / matches / touch, front-to-back search) following the protocol of
                  Recipe.prepare on real Env objects vs the model matcher over TEnv;
             (iii) real YamlCache sessions (controlled stat) vs the model cache, digest of the loaded files;
             (iv) the package cache key of the real generated projects vs the model's key over (BOB_INPUT_HASH, loaded
                  files, root environment, sandbox flag), bit exact.
"""
import hashlib
import json
import os
import random
import shutil
import subprocess
import sys
import time

DRIVER = "drv_c04"
RULE = ("oracle: projects = layered DAG of tool providers, sandbox providers, leaves, middle recipes and roots (gen/c04_projects.py); "
        "the roots reach the same recipes under environments/tools/sandboxes that differ in exactly one key; histories of "
        "random edits over 20 kinds; a case is one (project state, invocation) with its W/C/U1(/U2) comparison, distinct by the hash "
        "of its files + invocation, non-trivial if the run without memo lookup computed some recipe more often than the memoised "
        "one (a memo hit happened) or the state follows an edit (an on-disk cache was in play). correspondence: op sequences on Env pools (2-5 envs, 12-40 ops), "
        "matcher cases over 6 variables x 3 tools, YAML cache sessions over 4 files with colliding and changing stats, cache "
        "keys of the generated projects; distinct by content.")
ASSUMPTIONS = [
    "StatChanges: a modified file changes at least one of (ctime, mtime, dev, ino, mode, size); the harness gives every write its own mtime",
    "collision freedom of SHA-1 on the hashed inputs that occur (theorem hypothesis NoCollision)",
    "Recipe.prepare reads its input environment/tools only through tracked accessors: NOT proved, guarded by the source-shape "
    "check in tools/consts/c04.py (allow-list of untracked accesses) and by the W/C/U oracle",
    "theorem hypothesis `Function.Injective rid` (the result id identifies the core package) is NOT met by the implementation for "
    "meta environment, fingerprint mask, weak variables and dependencies of script-less steps: known findings F-C04-2..",
    "plugin states' __eq__ / copy, layers, the Jenkins and project generators' own caches are outside the model",
    "the package graph depends only on BOB_INPUT_HASH, the loaded files, the root environment and the sandbox flag "
    "(persisted_transparent's hkey); other process inputs (platform, whitelist) are fixed in the harness",
    "PYTHONHASHSEED is fixed for the Bob child processes (set/dict order independence is not checked here)",
]

HERE = os.path.dirname(os.path.abspath(__file__))
HELPER = os.path.join(os.path.dirname(HERE), "gen", "c04_bobquery.py")


# ---------------------------------------------------------------------------------- Bob child processes

class BobServer:
    """client of the zygote helper: every query is answered by a freshly forked process"""

    def __init__(self, repo, tmp):
        env = dict(os.environ)
        env["PYTHONPATH"] = os.path.join(repo, "pym")
        env["PYTHONDONTWRITEBYTECODE"] = "1"
        env["PYTHONHASHSEED"] = "0"
        env.pop("BOB_VERIF_REPO", None)
        self.tmp = tmp
        self.n = 0
        self.p = subprocess.Popen(["/venv/bin/python", HELPER, "--serve"], stdin=subprocess.PIPE, stdout=subprocess.PIPE,
                                  stderr=subprocess.DEVNULL, env=env, cwd=tmp)

    def query(self, req, timeout=600):
        import select
        self.n += 1
        reply = os.path.join(self.tmp, "reply-%d-%d.json" % (os.getpid(), self.n))
        req = dict(req, home=os.path.join(self.tmp, "home"))
        try:
            self.p.stdin.write((json.dumps({"req": req, "reply": reply}) + "\n").encode())
            self.p.stdin.flush()
            ready, _, _ = select.select([self.p.stdout], [], [], timeout)
            line = self.p.stdout.readline() if ready else b""
        except OSError:
            line = b""
        if not line:
            # the helper died or hangs: not a verdict about the property
            self.p.kill()
            return {"error": ["helper-failure", "no answer"]}
        try:
            with open(reply) as f:
                rep = json.load(f)
            os.unlink(reply)
        except (OSError, ValueError):
            rep = {"error": ["helper-failure", line.decode().strip()]}
        return rep

    def close(self):
        try:
            self.p.stdin.close()
            self.p.wait(timeout=10)
        except Exception:  # noqa
            self.p.kill()


def view(rep, ids=True):
    """what is compared: the dump, or the error kind.  `ids=False` drops the internal package ids: they number the
    CorePackage objects, and without memo every occurrence is an object of its own (documented: "there can be
    identical packages with different ids")."""
    if "error" in rep:
        k = rep["error"][0]
        # ParseErrors are compared by class only (texts name stacks, orders of sets)
        return {"error": k}
    if ids:
        return rep["dump"]
    d = dict(rep["dump"])
    d["packages"] = {k: {a: b for a, b in v.items() if a != "id"} for k, v in d["packages"].items()}
    # a query without alternates returns one path per graph node, and nodes are keyed by these ids
    d["queries"] = {k: v for k, v in d["queries"].items() if k.endswith("(tree)")}
    return d


def first_diff(a, b, path=""):
    if type(a) != type(b):
        return path, a, b
    if isinstance(a, dict):
        for k in sorted(set(a) | set(b)):
            if k not in a or k not in b:
                return path + "/" + str(k), a.get(k, "<absent>"), b.get(k, "<absent>")
            d = first_diff(a[k], b[k], path + "/" + str(k))
            if d:
                return d
        return None
    if isinstance(a, list):
        if len(a) != len(b):
            return path + "/len", len(a), len(b)
        for i, (x, y) in enumerate(zip(a, b)):
            d = first_diff(x, y, "%s[%d]" % (path, i))
            if d:
                return d
        return None
    return None if a == b else (path, a, b)


def short(x, n=300):
    s = json.dumps(x, sort_keys=True, default=repr)
    return s if len(s) <= n else s[:n] + "..."


# ---------------------------------------------------------------------------------- one history

def state_key(files, inv):
    h = hashlib.sha1()
    h.update(json.dumps([sorted(files.items()), inv], sort_keys=True).encode())
    return h.hexdigest()


def has_inherit_false(p):
    for rec in p["recipes"].values():
        for d in rec.get("depends", []):
            if isinstance(d, dict) and d.get("inherit") is False:
                return True
    return False


def strip_inherit_false(p):
    import copy
    q = copy.deepcopy(p)
    for rec in q["recipes"].values():
        for d in rec.get("depends", []):
            if isinstance(d, dict) and d.get("inherit") is False:
                del d["inherit"]
    return q


def fresh_query(bob, base, tag, files, inv, mode):
    from gen import c04_projects as G
    d = os.path.join(base, tag)
    shutil.rmtree(d, ignore_errors=True)
    os.makedirs(d)
    G.sync_dir(d, files, {}, G.Clock())
    rep = bob.query(dict(inv, dir=d, mode=mode))
    shutil.rmtree(d, ignore_errors=True)
    return rep


def all_diffs(a, b, path="", out=None, limit=400):
    """every differing leaf as (path, a, b)"""
    out = [] if out is None else out
    if len(out) >= limit:
        return out
    if type(a) != type(b):
        out.append((path, a, b))
    elif isinstance(a, dict):
        for k in sorted(set(a) | set(b)):
            if k not in a or k not in b:
                out.append((path + "/" + str(k), a.get(k, "<absent>"), b.get(k, "<absent>")))
            else:
                all_diffs(a[k], b[k], path + "/" + str(k), out, limit)
    elif isinstance(a, list):
        if len(a) != len(b):
            out.append((path + "/len", a, b))
        else:
            for i, (x, y) in enumerate(zip(a, b)):
                all_diffs(x, y, "%s[%d]" % (path, i), out, limit)
    elif a != b:
        out.append((path, a, b))
    return out


def weak_vars(p):
    """recipe -> variables declared weak (documented not to take part in the variant: which of several values a
    shared variant sees is unspecified)"""
    out = {}
    for n, rec in p["recipes"].items():
        w = set()
        for k in ("packageVarsWeak", "buildVarsWeak", "checkoutVarsWeak"):
            w.update(rec.get(k, []))
        out[n] = w
    return out


def pkg_of(path, dump):
    """longest package (stack path) that owns a diff path /packages/<stack path>/<field...>; returns (package, field path)"""
    if not path.startswith("/packages/"):
        return None, path
    parts = path[len("/packages/"):].split("/")
    pk = dump.get("packages", {})
    for n in range(len(parts), -1, -1):
        cand = "/".join(parts[:n])
        if cand in pk:
            return cand, "/".join(parts[n:])
    return None, path


STRUCT_FIELDS = ("direct", "indirect", "all", "build/args", "build/allDeps", "build/vid", "dist/args", "dist/allDeps",
                 "build/provDeps", "dist/provDeps")


def unconsumed_checkout(pkg):
    """the package step's ids do not cover the checkout step: script-less build step, checkout not an argument of dist"""
    return not pkg["build"]["valid"] and not any(a[1] == "src" for a in pkg["dist"]["args"])


def categorize(diffs, p, da, db):
    """split the differences between two tree dumps (da: dedup by result id active, db: disabled) by observable"""
    weak = weak_vars(p)
    both = {"packages": dict(da.get("packages", {}))}
    both["packages"].update(db.get("packages", {}))
    scriptless = set(k for d in (da, db) for k, v in d.get("packages", {}).items() if not v["build"]["valid"])
    # dependencies of a package with a script-less build step that only one side has, or that are another variant
    surplus = set()
    for q in scriptless:
        if q in da.get("packages", {}) and q in db.get("packages", {}):
            for f in ("direct", "indirect"):
                na = {x[0]: x[2] for x in da["packages"][q][f]}
                nb = {x[0]: x[2] for x in db["packages"][q][f]}
                surplus |= set(k for k in set(na) | set(nb) if na.get(k) != nb.get(k))
    cats = {}
    for d in diffs:
        path = d[0]
        cat = "other"
        pkg, field = pkg_of(path, both)
        if path == "" or path.startswith("/error"):
            cat = "error"
        elif path.startswith("/queries/"):
            la, lb = (d[1], d[2]) if isinstance(d[1], list) and isinstance(d[2], list) else ([], [None])
            extra = set(la) ^ set(lb)
            if extra and all(any(x == s or x.startswith(s + "/") for s in surplus) for x in extra):
                cat = "scriptless-deps"
        elif pkg is not None and any(pkg == s or pkg.startswith(s + "/") for s in surplus):
            cat = "scriptless-deps"              # a package that hangs on a surplus / differing dependency
        elif pkg is not None and field.split("/")[0] == "meta":
            cat = "meta"
        elif pkg is not None and field.endswith("/fp"):
            cat = "fingerprint"
        elif pkg is not None and "/env/" in "/" + field and field.split("/")[-1] in weak.get(both["packages"][pkg].get("recipe"), ()):
            cat = "weak-env"
        elif pkg in scriptless and field.startswith("checkout/") and unconsumed_checkout(both["packages"][pkg]):
            cat = "unconsumed-checkout"          # the checkout step feeds only the script-less build step
        elif pkg in scriptless and any(field == f or field.startswith(f + "/") or field.startswith(f + "[") for f in STRUCT_FIELDS):
            cat = "scriptless-deps"
        cats.setdefault(cat, []).append(d)
    return cats


DEDUP_SIGNATURES = {
    "meta": ("dedup-by-resultid-merges-metaenv",
             "Recipe.__corePackagesById.setdefault(resultId, p) reuses a package of the same result id whose metaEnvironment differs"),
    "fingerprint": ("dedup-by-resultid-merges-fingerprint-mask",
                    "a package of the same result id but with a different fingerprintIf outcome is reused"),
    "weak-env": ("dedup-by-resultid-merges-weak-env",
                 "a package of the same result id but with a different value of a weakly consumed variable is reused"),
    "unconsumed-checkout": ("dedup-by-resultid-merges-unconsumed-checkout",
                            "a package of the same result id is reused although the checkout step of a dependency, which feeds only "
                            "a script-less build step, is another variant"),
    "scriptless-deps": ("dedup-by-resultid-merges-scriptless-deps",
                        "a package of the same result id is reused although a dependency that feeds only a script-less step differs"),
}


def recipes_of(files):
    import yaml
    return {"recipes": {os.path.basename(n)[:-5]: yaml.safe_load(t) for n, t in files.items() if n.startswith("recipes/")}}


def memo_check(c, u1, case):
    """C (normal) vs U1 (memo lookup disabled): must be identical, internal ids included"""
    vc, vu = view(c), view(u1)
    if vc == vu:
        return []
    d = first_diff(vc, vu)
    note = " [%s]" % c["error"][1] if "error" in c else ""
    return [{"what": "package tree with the memo of Recipe.prepare differs from the tree computed with the memo lookup disabled at "
                     "%s: memoised %s, uncached %s%s" % (d[0] or "/", short(d[1]), short(d[2]), note),
             "case": dict(case, check="memo", category="other"), "signature": "memo-vs-uncached-differs"}]


def dedup_check(files, u1, u2, case):
    """U1 (dedup by result id active) vs U2 (disabled): known observables are classified, the rest is fresh"""
    va, vb = view(u1, False), view(u2, False)
    if va == vb:
        return []
    if "error" in va or "error" in vb:
        cats = {"error": [("/error", va.get("error"), vb.get("error"))]}
    else:
        cats = categorize(all_diffs(va, vb), recipes_of(files), va, vb)
    out = []
    for cat, ds in sorted(cats.items()):
        d = ds[0]
        if cat in DEDUP_SIGNATURES:
            sig, why = DEDUP_SIGNATURES[cat]
            out.append({"what": "%s: at %s with dedup %s, without %s" % (why, d[0], short(d[1]), short(d[2])),
                        "case": dict(case, check="dedup", category=cat), "signature": sig})
        else:
            out.append({"what": "package tree with the deduplication by result id differs from the tree without it at %s: with %s, "
                                "without %s" % (d[0] or "/", short(d[1]), short(d[2])),
                        "case": dict(case, check="dedup", category=cat), "signature": "dedup-by-resultid-merges-other"})
    return out


def run_history(args):
    """worker: one project, one edit history; returns counters and violations"""
    repo, tmp, key, n_edits, opts = args
    deadline = opts.get("deadline")
    min_steps = opts.get("min_steps", 0)         # work that is done even when the machine is overloaded
    if deadline and time.time() > deadline and not min_steps:
        return {"cases": [], "violations": [], "hist": {}, "skipped": ["time budget: history not started"]}
    sys.path.insert(0, os.path.dirname(HERE))
    from gen import c04_projects as G
    r = random.Random(key)
    base = os.path.join(tmp, "h-" + hashlib.sha1(key.encode()).hexdigest()[:10])
    os.makedirs(os.path.join(base, "home"), exist_ok=True)
    wdir = os.path.join(base, "w")
    os.makedirs(wdir)
    out = {"cases": [], "violations": [], "hist": {}, "skipped": []}

    def count(h, k, n=1):
        out["hist"].setdefault(h, {})
        out["hist"][h][k] = out["hist"][h].get(k, 0) + n

    bob = BobServer(repo, base)
    try:
        p = G.gen_project(r, inherit_false=opts.get("inherit_false", 0.06))
        inv = G.gen_invocation(r)
        files, clock = {}, G.Clock()
        kinds = []
        for step in range(n_edits + 1):
            if deadline and time.time() > deadline and step >= min_steps:
                out["skipped"].append("time budget: history cut short")
                break
            if step:
                kind, p, inv = G.edit(r, p, inv)
            else:
                kind = "initial"
            kinds.append(kind)
            new_files = G.files_of(p)
            G.sync_dir(wdir, new_files, files, clock, r)
            files = new_files
            w = bob.query(dict(inv, dir=wdir, mode="normal"))
            w2 = bob.query(dict(inv, dir=wdir, mode="normal")) if r.random() < 0.3 else None
            c = fresh_query(bob, base, "c", files, inv, "normal")
            u1 = fresh_query(bob, base, "u1", files, inv, "nomatch")
            # the dedup-by-result-id comparison (known findings live there) is made on every third state only
            u = fresh_query(bob, base, "u", files, inv, "nomemo") if step % 3 == 0 else u1
            if any(rep.get("error", [""])[0] == "helper-failure" for rep in (w, c, u1, u)):
                out["skipped"].append("helper failure")
                if bob.p.poll() is not None:
                    break
                continue
            vw, vc, vu = view(w), view(c), view(u, False)
            hits = 0
            if "memo" in c and "memo" in u1:
                hits = sum(u1["memo"].values()) - sum(c["memo"].values())
            count("edit_kind", kind)
            count("outcome", "error:" + vu["error"] if "error" in vu else "tree")
            if "packages" in vu:
                count("tree_size", min(len(vu["packages"]) // 10 * 10, 200))
            count("memo_hits", "0" if hits <= 0 else "1-9" if hits < 10 else "10+")
            out["cases"].append({"key": state_key(files, inv), "nontrivial": hits > 0 or step > 0,
                                 "sample": {"edit": kind, "inv": inv, "packages": len(vu.get("packages", [])),
                                            "memo_hits": hits, "outcome": "error" if "error" in vu else "ok"}})
            case = {"kind": "history", "key": key, "n_edits": n_edits,
                    "opts": {k: v for k, v in opts.items() if k not in ("deadline", "min_steps")}, "step": step, "edits": list(kinds),
                    "files": files, "inv": inv}
            out["violations"].extend(memo_check(c, u1, case))
            if u is not u1:
                out["violations"].extend(dedup_check(files, u1, u, case))
            if vw != vc:
                d = first_diff(vw, vc)
                out["violations"].append({
                    "what": "package tree from the warm project directory (on-disk caches of the history, edits %s) differs from "
                            "the cold one at %s: warm %s, cold %s" % (kinds[-3:], d[0], short(d[1]), short(d[2])),
                    "case": dict(case, check="disk"), "signature": "warm-vs-cold-differs"})
            if w2 is not None and view(w2) != vw:
                d = first_diff(view(w2), vw)
                out["violations"].append({
                    "what": "a repeated query in the warm directory (package/tree caches hit) differs from the first at %s: "
                            "second %s, first %s" % (d[0], short(d[1]), short(d[2])),
                    "case": dict(case, check="requery"), "signature": "warm-requery-differs"})
            if w2 is not None:
                count("requery", "same-key" if w2.get("key") == w.get("key") else "key-changed")
            out.setdefault("keys", []).append({"rep": {k: c.get(k) for k in ("key", "inputHash", "files", "rootEnv")},
                                               "files": files, "sandbox": inv["sandbox"]} if "key" in c and step % 3 == 0 else None)
    finally:
        bob.close()
        shutil.rmtree(base, ignore_errors=True)
    return out


def merge(ctx, res):
    for c in res["cases"]:
        ctx.case(c["key"], sample=c["sample"], nontrivial=c["nontrivial"])
    for h, d in res["hist"].items():
        for k, n in d.items():
            ctx.count(h, k, n)
    for v in res["violations"]:
        ctx.violation(v["what"], v["case"], v["signature"])
    for s in res["skipped"]:
        ctx.skip(s)
        ctx.count("skipped", s)


_KEYS = []


def oracle(ctx):
    n_hist = ctx.scale(32, 600)
    n_edits = ctx.scale(10, 25)
    del _KEYS[:]
    # leave room for the correspondence runs
    deadline = time.time() + max(20.0, ctx.time_left() - ctx.scale(70, 240))
    opts = {"inherit_false": 0.06, "deadline": deadline}
    workers = max(2, min(12, (os.cpu_count() or 4) * 3 // 4))
    # the first wave of histories always reaches its 4th state, however slow the machine is
    todo = [(ctx.repo, ctx.tmp, "%s-%d-hist-%d" % (ctx.prop, ctx.seed, i), n_edits,
             dict(opts, min_steps=4 if i < workers else 0)) for i in range(n_hist)]
    t = time.time()
    for res in ctx.parallel(run_history, todo, workers=workers):
        merge(ctx, res)
        _KEYS.extend(k for k in res.get("keys", []) if k)
    ctx.notes["t_oracle"] = round(time.time() - t, 1)


# ---------------------------------------------------------------------------------- correspondence

def sized(ctx, quick, thorough):
    """case count, reduced when the machine is so loaded that the budget is nearly used up"""
    n = ctx.scale(quick, thorough)
    left = ctx.time_left()
    if left < ctx.scale(15, 120):
        n = max(20, n // 6)
    elif left < ctx.scale(40, 300):
        n = max(20, n // 2)
    return n


KEYS = ["A", "B", "C", "D", "E", "F"]
VALS = ["", "1", "x", "y z"]


def gen_env_ops(r, n):
    """op sequence over a growing pool of environments; indices refer to creation order"""
    ops = [{"op": "new", "data": [[k, r.choice(VALS)] for k in r.sample(KEYS, r.randrange(0, 5))]}]
    n_env = 1
    for _ in range(n):
        e = r.randrange(n_env)
        k = r.random()
        key = r.choice(KEYS)
        if k < 0.06:
            ops.append({"op": "new", "data": [[x, r.choice(VALS)] for x in r.sample(KEYS, r.randrange(0, 4))]}); n_env += 1
        elif k < 0.22:
            ops.append({"op": "get", "e": e, "k": key})
        elif k < 0.30:
            ops.append({"op": "getitem", "e": e, "k": key})
        elif k < 0.40:
            ops.append({"op": "contains", "e": e, "k": key})
        elif k < 0.46:
            ops.append({"op": "set", "e": e, "k": key, "v": r.choice(VALS)})
        elif k < 0.50:
            ops.append({"op": "del", "e": e, "k": key})
        elif k < 0.54:
            ops.append({"op": "update", "e": e, "data": [[x, r.choice(VALS)] for x in r.sample(KEYS, r.randrange(0, 3))]})
        elif k < 0.56:
            ops.append({"op": "clear", "e": e})
        elif k < 0.62:
            ops.append({"op": "copy", "e": e}); n_env += 1
        elif k < 0.72:
            ops.append({"op": "derive", "e": e, "data": [[x, r.choice(VALS)] for x in r.sample(KEYS, r.randrange(0, 3))]}); n_env += 1
        elif k < 0.77:
            ops.append({"op": "prune", "e": e, "allowed": None if r.random() < 0.3 else r.sample(KEYS, r.randrange(0, 4))}); n_env += 1
        elif k < 0.82:
            al = None if r.random() < 0.3 else [[r.random() < 0.3, r.choice(KEYS)] for _ in range(r.randrange(0, 4))]
            ops.append({"op": "filter", "e": e, "allowed": al}); n_env += 1
        elif k < 0.90:
            ops.append({"op": "touchReset", "e": e})
        elif k < 0.95:
            ops.append({"op": "touch", "e": e, "keys": r.sample(KEYS, r.randrange(0, 3))})
        elif k < 0.98:
            ops.append({"op": "touchedKeys", "e": e})
        else:
            ops.append({"op": r.choice(["detach", "len"]), "e": e})
    ops.append({"op": "dump"})
    return ops


class EnvPool:
    """the real Env objects of one case, and the identity of every touched set"""

    class Tool:
        def __init__(self, rid):
            self.resultId = rid

    def __init__(self):
        self.envs = []
        self.sets = []          # strong references, index = allocation order
        self.ids = {}

    @staticmethod
    def val(v):
        return v if isinstance(v, str) else v.resultId.hex()

    def register(self):
        # strong references are kept, so id() stays unique for registered sets
        for e in self.envs:
            for s in e.touched:
                if id(s) not in self.ids:
                    self.ids[id(s)] = len(self.sets)
                    self.sets.append(s)

    def dump(self):
        return {"envs": [{"data": [[k, self.val(v)] for k, v in sorted(e.inspect().items())],
                          "touched": [self.ids[id(s)] for s in e.touched]}
                         for e in self.envs],
                "sets": [sorted(s) for s in self.sets]}

    def apply(self, op):
        from bob.stringparser import Env
        from bob.input import maybeGlob
        o = op["op"]
        e = self.envs[op["e"]] if "e" in op else None
        res = {"ok": True}
        if o == "new":
            data = dict(op["data"])
            if op.get("tools"):
                data = {k: self.Tool(bytes.fromhex(v)) for k, v in data.items()}
            self.envs.append(Env(data)); res = {"id": len(self.envs) - 1}
        elif o == "get":
            v = e.get(op["k"])
            res = {"v": None if v is None else self.val(v)}
        elif o == "getitem":
            try:
                res = {"v": self.val(e[op["k"]])}
            except KeyError:
                res = {"v": None}
        elif o == "contains":
            res = {"v": op["k"] in e}
        elif o == "set":
            e[op["k"]] = op["v"]
        elif o == "del":
            try:
                del e[op["k"]]
            except KeyError:
                res = {"ok": False}
        elif o == "update":
            e.update(dict(op["data"]))
        elif o == "clear":
            e.clear()
        elif o == "copy":
            self.envs.append(e.copy()); res = {"id": len(self.envs) - 1}
        elif o == "derive":
            self.envs.append(e.derive(dict(op["data"]))); res = {"id": len(self.envs) - 1}
        elif o == "prune":
            self.envs.append(e.prune(None if op["allowed"] is None else set(op["allowed"]))); res = {"id": len(self.envs) - 1}
        elif o == "filter":
            al = None if op["allowed"] is None else maybeGlob([("!" if neg else "") + n for neg, n in op["allowed"]])
            self.envs.append(e.filter(al)); res = {"id": len(self.envs) - 1}
        elif o == "touchReset":
            e.touchReset()
        elif o == "touch":
            e.touch(op["keys"])
        elif o == "touchedKeys":
            res = {"keys": sorted(e.touchedKeys())}
        elif o == "detach":
            res = {"data": [[k, v] for k, v in sorted(e.detach().items())]}
        elif o == "len":
            res = {"v": len(e)}
        elif o == "dump":
            self.register()
            return self.dump()
        self.register()
        return res


def model_req(op):
    """the driver has one op for Env.get and Env.__getitem__"""
    if op["op"] == "getitem":
        return dict(op, op="get")
    return op


def corr_env(ctx):
    r = ctx.subrng("corr-env")
    reqs, want, cases = [], [], []
    for i in range(sized(ctx, 1200, 12000)):
        ops = gen_env_ops(r, r.randrange(12, 40))
        pool = EnvPool()
        reqs.append({"op": "reset"}); want.append(None)
        for op in ops:
            want.append(pool.apply(op))
            reqs.append(model_req(op))
        cases.append((len(reqs) - len(ops), ops))
    got = ctx.lean(DRIVER, reqs)
    for start, ops in cases:
        bad = None
        for j, op in enumerate(ops):
            if got[start + j] != want[start + j]:
                bad = j
                break
        ctx.case(("env", json.dumps(ops)), nontrivial=any(o["op"] == "touchReset" for o in ops),
                 sample={"ops": len(ops), "sets": len(want[start + len(ops) - 1]["sets"])} if start < 200 else None)
        for o in ops:
            ctx.count("env_op", o["op"])
        if bad is not None:
            ctx.disagree("stringparser.Env op sequence == Model.TEnv (values, touched stacks, sharing)",
                         {"ops": ops[:bad + 1]}, want[start + bad], got[start + bad])
    ctx.trace_validated(len(cases))


class Mirror:
    """executes every op on the real objects and records the model request with the expected reply"""

    def __init__(self):
        self.pool = EnvPool()
        self.reqs = [{"op": "reset"}]
        self.want = [None]

    def do(self, op):
        res = self.pool.apply(op)
        self.reqs.append(model_req({k: v for k, v in op.items() if k != "tools"}))
        self.want.append(res)
        return res

    def new(self, op):
        """an op that creates an environment; returns its pool index"""
        return self.do(op)["id"]

    def raw(self, req, want):
        self.reqs.append(req)
        self.want.append(want)


def corr_matcher(ctx):
    """real PackageMatcher over real Env objects, following the protocol of Recipe.prepare: the parent's frame
    (touchReset), the derived objects handed to the dependency, lookup front to back, on a hit `m.touch`, on a miss
    the dependency's own frame with tracked reads, `tools.touch(used)`, a new matcher inserted at the front"""
    import bob.input as I

    class State(I.PluginState):
        def __init__(self, v):
            self.v = v

    r = ctx.subrng("corr-matcher")
    tools_pool = ["t0", "t1", "t2"]
    rids = ["aa", "bb", "cc"]
    mirrors = []

    def xkey(sandbox, states, name):
        return json.dumps([sandbox, sorted(states.items()), name])

    def rand_input():
        env = {k: r.choice(VALS) for k in r.sample(KEYS, r.randrange(0, 6))}
        tools = {t: r.choice(rids) for t in r.sample(tools_pool, r.randrange(0, 4))}
        return [env, tools, r.choice([None, None, "s1", "s2"]), {"S": r.choice([0, 0, 1])} if r.random() < 0.7 else {},
                r.choice([None, None, None, "alias"])]

    for i in range(sized(ctx, 600, 6000)):
        mi = Mirror()
        table, mtable = [], []          # real matchers / model matcher ids, front first
        base = rand_input()
        for j in range(r.randrange(1, 6)):
            env, tools, sandbox, states, name = [dict(x) if isinstance(x, dict) else x for x in base]
            for _ in range(r.choice([0, 1, 1, 1, 2])):      # mostly exactly one difference
                w = r.random()
                if w < 0.45:
                    k = r.choice(KEYS)
                    if k in env and r.random() < 0.4:
                        del env[k]
                    else:
                        env[k] = r.choice(VALS)
                elif w < 0.75:
                    t = r.choice(tools_pool)
                    if t in tools and r.random() < 0.4:
                        del tools[t]
                    else:
                        tools[t] = r.choice(rids)
                elif w < 0.85:
                    sandbox = r.choice([None, "s1", "s2"])
                elif w < 0.95:
                    states = {"S": r.choice([0, 1])}
                else:
                    name = r.choice([None, "alias"])
            ce = mi.new({"op": "new", "data": sorted(env.items())})
            ct = mi.new({"op": "new", "data": sorted(tools.items()), "tools": True})
            mi.do({"op": "touchReset", "e": ce}); mi.do({"op": "touchReset", "e": ct})
            de = mi.new({"op": "derive", "e": ce, "data": []})
            dt = mi.new({"op": "derive", "e": ct, "data": []})
            E = mi.pool.envs
            sobj = None if sandbox is None else mi.pool.Tool(sandbox.encode())
            sts = {n: State(v) for n, v in states.items()}
            hit = None
            for idx, m in enumerate(table):
                if m.matches(E[de].detach(), E[dt].detach(), sts, sobj, name):
                    hit = idx
                    break
            x = xkey(sandbox, states, name)
            mi.raw({"op": "findHit", "ms": list(mtable), "envData": sorted(env.items()), "toolsData": sorted(tools.items()),
                    "x": x}, {"v": hit})
            ctx.count("matcher_lookup", "hit" if hit is not None else "miss")
            if hit is not None:
                table[hit].touch(E[de], E[dt])
                mi.raw({"op": "matcherTouch", "m": mtable[hit], "env": de, "tools": dt}, {"ok": True})
            else:
                it = mi.new({"op": "copy", "e": dt})
                mi.do({"op": "touchReset", "e": it})
                ie = mi.new({"op": "derive", "e": de, "data": []})
                mi.do({"op": "touchReset", "e": ie})
                we = mi.new({"op": "derive", "e": ie, "data": [["OWN", "1"]]})
                for _ in range(r.randrange(0, 5)):
                    mi.do({"op": r.choice(["get", "getitem", "contains"]), "e": we, "k": r.choice(KEYS + ["OWN"])})
                wt = mi.new({"op": "derive", "e": it, "data": []})
                mi.do({"op": "touch", "e": wt, "keys": r.sample(tools_pool, r.randrange(0, 3))})
                m = I.PackageMatcher("core", E[ie], E[it], sts, sobj, set(), name)
                n_m = len(table)
                mi.raw({"op": "mkMatcher", "env": ie, "tools": it, "x": x, "result": n_m},
                       {"id": n_m, "env": sorted([k, v] for k, v in m.env.items()),
                        "tools": sorted([k, None if v is None else v.hex()] for k, v in m.tools.items())})
                table.insert(0, m)
                mtable.insert(0, n_m)
            mi.do({"op": "touchedKeys", "e": ce})
            mi.do({"op": "touchedKeys", "e": ct})
        mi.do({"op": "dump"})
        mirrors.append(mi)
    reqs = [q for mi in mirrors for q in mi.reqs]
    got = ctx.lean(DRIVER, reqs)
    pos = 0
    for mi in mirrors:
        n = len(mi.reqs)
        ctx.case(("matcher", json.dumps(mi.reqs)), nontrivial=any(q["op"] == "matcherTouch" for q in mi.reqs))
        for j in range(n):
            w, g = mi.want[j], got[pos + j]
            if w is None:
                continue
            if mi.reqs[j]["op"] == "mkMatcher":
                g = dict(g, env=sorted(g["env"], key=lambda p: p[0]), tools=sorted(g["tools"], key=lambda p: p[0]))
            if w != g:
                ctx.disagree("PackageMatcher init/matches/touch over Env == Model.Matcher over TEnv",
                             {"requests": mi.reqs[:j + 1]}, w, g)
                break
        pos += n
    ctx.trace_validated(len(mirrors))


def corr_yaml(ctx):
    """real YamlCache sessions against one persistent .bob-cache.sqlite3; `binStat` is replaced from the outside by a
    controlled table so that stat collisions (content changed, stat unchanged) and pure stat changes can be produced"""
    import bob.input as I
    import schema
    import yaml
    from bob.errors import ParseError
    r = ctx.subrng("corr-yaml")
    d = os.path.join(ctx.tmp, "yc")
    os.makedirs(d, exist_ok=True)
    cwd = os.getcwd()
    stats = {}
    orig_binstat, orig_hash = I.binStat, I.BOB_INPUT_HASH
    names = ["a.yaml", "b.yaml", "sub/c.yaml", "\u00e4\u20ac.yaml"]
    sch = schema.Schema({schema.Optional(str): object})

    def fake(name):
        if name not in stats:
            raise FileNotFoundError(name)
        return stats[name]

    def new_stat():
        return bytes(r.randrange(256) for _ in range(44))
    all_reqs, all_want, cases = [], [], []
    os.chdir(d)
    I.binStat = fake
    try:
        os.makedirs("sub", exist_ok=True)
        for case in range(sized(ctx, 100, 1500)):
            if os.path.exists(".bob-cache.sqlite3"):
                os.unlink(".bob-cache.sqlite3")
            for n in names:
                if os.path.exists(n):
                    os.unlink(n)
            stats.clear()
            content = {}
            reqs, want = [{"op": "ycReset"}], [None]
            I.BOB_INPUT_HASH = b"H" * 20
            for session in range(r.randrange(2, 6)):
                for n in names:
                    k = r.random()
                    if n not in content:
                        if k < 0.6:
                            content[n] = r.choice(["k: %d\n" % r.randrange(5), "[1]\n"]); stats[n] = new_stat()
                    elif k < 0.15:
                        del content[n]; del stats[n]; os.unlink(n)
                    elif k < 0.40:
                        content[n] = "k: %d\n" % r.randrange(50); stats[n] = new_stat()      # edit, stat changes
                    elif k < 0.50:
                        content[n] = "k: %d\n" % r.randrange(50)                              # edit, stat collides
                        ctx.count("yaml_fs", "stat-collision")
                    elif k < 0.60:
                        stats[n] = new_stat()                                                  # touch
                    elif k < 0.65:
                        content[n] = "[1]\n"; stats[n] = new_stat()
                    if n in content:
                        with open(n, "w", encoding="utf8") as f:
                            f.write(content[n])
                if r.random() < 0.12:
                    I.BOB_INPUT_HASH = bytes([r.randrange(65, 70)]) * 20
                yc = I.YamlCache()
                yc.open()
                reqs.append({"op": "ycOpen", "inputHash": I.BOB_INPUT_HASH.hex()}); want.append(None)
                for _ in range(r.randrange(1, 7)):
                    n = r.choice(names)
                    st = stats.get(n)
                    if r.random() < 0.8:
                        sd = r.choice([b"", b"", b"S1"])
                        try:
                            data = yc.loadYaml(n, (sch, sd))
                            res = "absent" if n not in content else {"ok": data}
                        except ParseError:
                            res = "err"
                        reqs.append({"op": "ycLoad", "name": n, "stat": None if st is None else st.hex(),
                                     "content": content.get(n, "").encode().hex(), "schema": sd.hex()})
                        want.append(res)
                        ctx.count("yaml_load", res if isinstance(res, str) else "ok")
                    else:
                        try:
                            yc.loadBinary(n)
                            res = True
                        except FileNotFoundError:
                            res = False
                        reqs.append({"op": "ycBinary", "name": n, "present": n in content,
                                     "content": content.get(n, "").encode().hex()})
                        want.append({"present": res})
                yc.close()
                reqs.append({"op": "ycClose"}); want.append({"digest": yc.getDigest().hex()})
            cases.append((len(all_reqs), reqs, want))
            all_reqs += reqs
            all_want += want
    finally:
        I.binStat, I.BOB_INPUT_HASH = orig_binstat, orig_hash
        os.chdir(cwd)
    got = ctx.lean(DRIVER, all_reqs)
    for start, reqs, want in cases:
        ctx.case(("yaml", json.dumps(reqs)), nontrivial=sum(1 for q in reqs if q["op"] == "ycOpen") > 1)
        for j, (q, w) in enumerate(zip(reqs, want)):
            g = got[start + j]
            if w is None:
                continue
            if q["op"] == "ycLoad":
                gr = g.get("r")
                if isinstance(gr, dict):
                    raw = bytes.fromhex(gr["ok"])
                    gr = {"ok": yaml.safe_load(raw[raw.index(b"\0") + 1:].decode())}
                ok = gr == w
            elif q["op"] == "ycClose":
                ok = g.get("digest") == w["digest"]
            else:
                ok = g == w
            if not ok:
                ctx.disagree("YamlCache open/loadYaml/loadBinary/close == Model.YCache", {"requests": reqs[:j + 1]}, w, g)
                break
    ctx.trace_validated(len(cases))


def corr_key(ctx):
    """cache key of the real projects of the oracle run vs the model's key over the observable inputs"""
    reqs, want = [], []
    for k in _KEYS:
        rep, files = k["rep"], k["files"]
        digests = []
        missing = False
        for n in rep["files"]:
            c = files.get(os.path.normpath(n))
            if c is None:
                missing = True
                break
            digests.append([n, hashlib.sha1(c.encode("utf8")).hexdigest()])
        if missing:
            ctx.count("cachekey", "loaded-file-outside-project")
            continue
        reqs.append({"op": "cacheKey", "inputHash": rep["inputHash"], "files": digests,
                     "env": sorted(rep["rootEnv"].items()), "sandbox": bool(k["sandbox"])})
        want.append(rep["key"])
    if not reqs:
        ctx.skip("cache key correspondence: the oracle produced no successful cold query")
        return
    got = ctx.lean(DRIVER, reqs)
    for q, w, g in zip(reqs, want, got):
        ctx.case(("key", json.dumps(q)), nontrivial=len(q["env"]) > 1)
        ctx.count("cachekey", "compared")
        if g.get("key") != w:
            ctx.disagree("RecipeSet.generatePackages cache key == Model.cacheKey(BOB_INPUT_HASH, loaded files, root env, flag)",
                         q, w, g.get("key"))
    ctx.trace_validated(len(reqs))


def correspond(ctx):
    t = time.time()
    corr_key(ctx)
    for name, fn in (("env", corr_env), ("matcher", corr_matcher), ("yaml", corr_yaml)):
        fn(ctx)
        ctx.notes["t_corr_" + name] = round(time.time() - t, 1)
        t = time.time()


def replay(ctx, case):
    sys.path.insert(0, os.path.dirname(HERE))
    from gen import c04_projects as G
    base = os.path.join(ctx.tmp, "replay")
    os.makedirs(os.path.join(base, "home"), exist_ok=True)
    if case.get("check") in ("memo", "dedup"):
        bob = BobServer(ctx.repo, base)
        try:
            c = fresh_query(bob, base, "c", case["files"], case["inv"], "normal")
            u1 = fresh_query(bob, base, "u1", case["files"], case["inv"], "nomatch")
            u2 = fresh_query(bob, base, "u", case["files"], case["inv"], "nomemo")
        finally:
            bob.close()
        vs = memo_check(c, u1, case) if case["check"] == "memo" else dedup_check(case["files"], u1, u2, case)
        for v in vs:
            if v["case"].get("category") == case.get("category"):
                ctx.violation(v["what"], case, v["signature"])
    else:
        opts = {k: v for k, v in case["opts"].items() if k not in ("deadline", "min_steps")}
        res = run_history((ctx.repo, ctx.tmp, case["key"], case["n_edits"], opts))
        for v in res["violations"]:
            if v["case"]["step"] == case["step"] and v["case"]["check"] == case["check"]:
                ctx.violation(v["what"], case)


MANIFEST = {
    "text": "Proved in Lean for all inputs/histories (Props/C04.lean): a computation that reads its input only through tracked "
            "accessors gives the same result and touched keys on every input that agrees on the touched keys (flat and with nested "
            "prepare calls); a PackageMatcher hit returns what a fresh computation returns; touches through any copy reach every set of "
            "the caller's shared stack; for ANY sequence of prepare calls the memoised evaluator (front-to-back matcher list, m.touch on "
            "a hit, dedup by result id) returns what the evaluator without memo returns (under injective resultId projections); the YAML "
            "cache is transparent for ANY history of invocations under StatChanges; equal package cache keys imply equal Bob hash, loaded "
            "files with equal contents, root environment and sandbox flag (collision freedom on the hashed inputs; UTF-8 prefix "
            "decodability is proved), hence persisted package/tree caches return what a fresh computation returns. The model is tied to the "
            "source by differential runs of the real Env, PackageMatcher, YamlCache and cache key against the model driver, by a source-shape "
            "check of Recipe.prepare and the key encoders, and the property itself is executed on generated projects and edit histories: "
            "warm (all caches) == cold (no cache file) == uncached (memo disabled from outside) package tree dumps.",
    "note": "trusted: Lean kernel, harness/props/c04.py, harness/gen/c04_*.py, tools/consts/c04.py, CPython dict/set/pickle/sqlite3, PyYAML + "
            "schema (the `parse` parameter). Not proved: that the 400-line Recipe.prepare has the shape of the modelled interaction tree "
            "(guarded by the allow-list of untracked accesses and by the oracle). Plugin states, layers, alias files are outside the model.",
    "technique": "Lean 4 proof over hand-written model + differential correspondence + warm/cold/uncached oracle",
}
