"""C19 - archive retention keeps exactly what is selected or referenced.

Everything runs the real `bob archive` command functions (`doArchive(["-l", ...])`) on real file
archives: audit trails (json.gz) packed into `xx/yy/<bid>-1.tgz` artifacts by Bob's own
`TarHelper._pack`, histories of add/remove/replace/touch between scans.

oracle:      (a) the property's wording executed naively: an independent evaluator of the documented
                 expression language, naive top-k (all results that are valid up to ties in the sort
                 key), BFS closure over the references of the files that are actually present;
                 `clean` must leave exactly kept + never-indexed files, `--dry-run` deletes nothing and
                 lists the victims, `find` lists the directly selected ones;
             (b) the same command on a copy of the archive with a fresh index and in place with the
                 warm/stale index must both be valid results;
             (c) after a failed delete the warm index must still know the artifact;
             (d) `query()` on stub scanners: thousands of row lists / expression lists (top-k validity).
correspond:  every command executed by (a)-(c) is replayed through the Lean model `drv_c19` from the real
             pre-state (files + sqlite index) and compared on output, remaining files, index rows and refs;
             the `query()` stream is compared exactly (the model is given the iteration order).
"""
import contextlib
import gzip
import hashlib
import io
import itertools
import json
import os
import pickle
import random
import re
import shutil
import sqlite3
import struct

DRIVER = "drv_c19"
RULE = ("streams: (a) scripted histories on real file archives: 2-9 artifacts forming a DAG (args/tools/sandbox through "
        "non-dist intermediate audit records), random meta/build/metaEnv fields with missing fields, equal sort keys, "
        "several versions per build id; ops add/rm/replace/touch/junk and the commands scan/find/clean with -n/--dry-run/-v; "
        "1-3 expressions per command from the documented grammar (rendered to text for Bob, AST for the model); "
        "(b) query() on stub scanners with 1-14 rows in random order; (c) delete failures; (d) malformed artifacts. "
        "A case is one executed command (or one query call); it is distinct by (pre-state, command) and non-trivial "
        "if the index or the archive is non-empty.")
ASSUMPTIONS = [
    "StatChanges: a modified artifact file differs in (ctime, mtime, dev, ino, mode, size) - hypothesis `Coherent` of scan_normalises",
    "reading an artifact (tarfile/gzip/json, Audit.fromByteStream, getReferencedBuildIds) is outside the Lean model; the harness "
    "computes vars and referenced build ids of every generated artifact independently and the index contents are compared",
    "pyparsing's text->AST step of retention expressions is validated by the differential run only",
    "SQLite enumerates `SELECT bid FROM files WHERE arch=?` in build-id order (covering index); checked at run time, "
    "cases with ties are skipped otherwise",
    "artifact file names are the lower-case hex names Bob produces; artifacts without a readable audit trail are never indexed or deleted",
]

def scan_model():
    """which scan function of the model corresponds to the current source: detected from the source itself
    (tools/consts/c19.py), so that reverting the fix of F-C19-1/2 makes the check model the old scanner again (and the
    oracle report the old failing inputs); BOB_VERIF_C19_SCAN overrides for experiments"""
    forced = os.environ.get("BOB_VERIF_C19_SCAN")
    if forced:
        return forced
    import sys
    tools = os.path.join(os.path.dirname(os.path.dirname(os.path.dirname(os.path.abspath(__file__)))), "tools")
    if tools not in sys.path:
        sys.path.insert(0, tools)
    from consts import c19 as consts_c19
    try:
        return consts_c19.scan_model(os.environ.get("BOB_VERIF_REPO", "/repo"))
    except Exception:  # noqa   (the core reports the failed extraction as a broken tie)
        return "repaired"


SIG_VANISHED = "stale-index-row-of-vanished-artifact"
SIG_STALE_REFS = "stale-refs-of-reread-artifact"

# ------------------------------------------------------------------ the documented expression language (spec)

ERR = "ERR"


def spec_str(p, data):
    """value of an operand: ("s", str) | ("undef",) | ERR"""
    if "lit" in p:
        return ("s", p["lit"])
    if "ref" in p:
        d = data
        for k in p["ref"]:
            if isinstance(d, dict) and k in d:
                d = d[k]
            else:
                return ("undef",)
        if not isinstance(d, str):
            return ERR
        return ("s", d)
    return ERR


def spec_bool(p, data):
    if "not" in p:
        a = spec_bool(p["not"], data)
        return ERR if a == ERR else (not a)
    if "and" in p:
        a = spec_bool(p["and"][0], data)
        if a == ERR or a is False:
            return a
        return spec_bool(p["and"][1], data)
    if "or" in p:
        a = spec_bool(p["or"][0], data)
        if a == ERR or a is True:
            return a
        return spec_bool(p["or"][1], data)
    if "cmp" in p:
        a, b = spec_str(p["l"], data), spec_str(p["r"], data)
        if a == ERR or b == ERR:
            return ERR
        op = p["cmp"]
        if op == "==":
            return a == b
        if op == "!=":
            return a != b
        if a[0] != "s" or b[0] != "s":
            return ERR      # the undefined value can only be compared with == and !=
        x, y = [ord(c) for c in a[1]], [ord(c) for c in b[1]]
        return {"<": x < y, "<=": x <= y, ">": x > y, ">=": x >= y}[op]
    return ERR              # a bare string or field is not a predicate


def spec_select(expr, arts):
    """all valid retained sets of one expression over arts = {bid: vars}: list of frozensets, or ERR.
    Unlimited: the matching ones. LIMIT k: the best k by the sort field, undefined last, any choice inside a tie."""
    matching = []
    for bid in sorted(arts):
        m = spec_bool(expr["pred"], arts[bid])
        if m == ERR:
            return ERR
        if m:
            matching.append(bid)
    k = expr["limit"]
    if k is None:
        return [frozenset(matching)]
    keyed = []
    for bid in matching:
        v = spec_str({"ref": expr["sortBy"]}, arts[bid])
        if v == ERR:
            return ERR
        keyed.append((bid, None if v[0] == "undef" else [ord(c) for c in v[1]]))
    if len(keyed) <= k:
        return [frozenset(matching)]

    def better(a, b):   # a strictly better than b
        if a is None:
            return False
        if b is None:
            return True
        return a < b if expr["asc"] else a > b
    # boundary key: the k-th best
    import functools
    srt = sorted(keyed, key=functools.cmp_to_key(lambda x, y: -1 if better(x[1], y[1]) else (1 if better(y[1], x[1]) else 0)))
    bkey = srt[k - 1][1]
    must = [b for b, key in keyed if better(key, bkey)]
    ties = [b for b, key in keyed if not better(key, bkey) and not better(bkey, key)]
    need = k - len(must)
    return [frozenset(must) | frozenset(c) for c in itertools.combinations(ties, need)]


MAX_COMBOS = 96


def spec_direct(exprs, arts):
    """all valid unions of directly retained artifacts: set of frozensets | ERR | None (too many tie combinations)"""
    per = []
    n = 1
    for e in exprs:
        s = spec_select(e, arts)
        if s == ERR:
            return ERR
        per.append(s)
        n *= len(s)
        if n > MAX_COMBOS:
            return None
    return {frozenset().union(*c) for c in itertools.product(*per)}


def spec_closure(direct, refs):
    kept, todo = set(direct), list(direct)
    while todo:
        n = todo.pop()
        for r in refs.get(n, ()):
            if r not in kept:
                kept.add(r)
                todo.append(r)
    return frozenset(kept)


def spec_kept(exprs, arts, refs):
    d = spec_direct(exprs, arts)
    if d is None or d == ERR:
        return d
    return {spec_closure(x, refs) for x in d}


# ------------------------------------------------------------------ expressions: generator, renderer

FIELDS = [["meta", "package"], ["meta", "package"], ["meta", "recipe"], ["meta", "step"], ["build", "date"], ["build", "date"],
          ["build", "machine"], ["metaEnv", "LICENSE"], ["metaEnv", "V"], ["meta", "nosuch"], ["metaEnv", "nosuch"]]
ODD_FIELDS = [["meta"], ["meta", "package", "x"], ["nosuch", "x"], ["build"], ["meta", "num"], ["meta-x", "a_b", "0"]]
PACKAGES = ["root", "root/lib", "app", "app/lib-x", "tool"]
RECIPES = ["root", "lib", "app"]
DATES = ["2019-12-02T13:19:34.193136+00:00", "2020-01-01T00:00:00+00:00", "2020-06-30T10:00:00+00:00",
         "2021-03-04T05:06:07+00:00", "2021-03-04T05:06:07.5+00:00", "2022-01-01T00:00:00+00:00"]
LICENSES = ["MIT", "GPL", "BSD 3", 'say "x"', "a\\b"]
VS = ["1", "10", "2", "2.1", "", "é"]
LITS = PACKAGES + RECIPES + DATES + LICENSES + VS + ["dist", "x86_64", "2020", "2021", "r", "a"]
OPS = ["==", "==", "==", "!=", "<", "<=", ">", ">="]


def gen_operand(r, odd):
    k = r.random()
    if k < 0.5:
        return {"ref": list(r.choice(ODD_FIELDS if odd and r.random() < 0.3 else FIELDS))}
    return {"lit": r.choice(LITS)}


def gen_pred(r, depth, odd):
    k = r.random()
    if depth <= 0 or k < 0.45:
        if odd and r.random() < 0.15:
            return gen_operand(r, odd)                     # operand in boolean context
        l = {"ref": list(r.choice(FIELDS))} if r.random() < 0.8 else gen_operand(r, odd)
        rr = {"lit": r.choice(LITS)} if r.random() < 0.8 else gen_operand(r, odd)
        if odd and r.random() < 0.1:
            rr = gen_pred(r, 0, False)                       # operator in string context
        op = r.choice(OPS)
        if op not in ("==", "!=") and r.random() < 0.8:
            l = {"ref": list(r.choice([["build", "date"], ["build", "machine"], ["meta", "step"], ["meta", "package"], ["build", "nodename"]]))}
            rr = {"lit": r.choice(LITS)}
        if r.random() < 0.15:
            l, rr = rr, l
        return {"cmp": op, "l": l, "r": rr}
    if k < 0.6:
        return {"not": gen_pred(r, depth - 1, odd)}
    if k < 0.8:
        return {"and": [gen_pred(r, depth - 1, odd), gen_pred(r, depth - 1, odd)]}
    return {"or": [gen_pred(r, depth - 1, odd), gen_pred(r, depth - 1, odd)]}


def render_lit(s):
    return '"' + s.replace("\\", "\\\\").replace('"', '\\"') + '"'


def level(p):
    if "lit" in p or "ref" in p:
        return 0
    if "not" in p:
        return 1
    if "cmp" in p:
        return 2
    if "and" in p:
        return 3
    return 4


def render_pred(p, r=None, top=True):
    """full parentheses, or (with an rng) some of the parentheses that the precedence rules make redundant"""
    def sub(c, parent_level, right=False):
        t = render_pred(c, r, False)
        if level(c) == 0:
            return t
        if r is not None and r.random() < 0.6:
            # documented precedence: ! binds tightest, then comparisons, then &&, then ||
            if parent_level >= 3 and level(c) < parent_level and level(c) in (1, 2, 3):
                return t
        return "(" + t + ")"
    if "lit" in p:
        return render_lit(p["lit"])
    if "ref" in p:
        return ".".join(p["ref"])
    if "not" in p:
        return "!" + sub(p["not"], 1)
    if "cmp" in p:
        return sub(p["l"], 2) + " " + p["cmp"] + " " + sub(p["r"], 2, True)
    if "and" in p:
        return sub(p["and"][0], 3) + " && " + sub(p["and"][1], 3, True)
    return sub(p["or"][0], 4) + " || " + sub(p["or"][1], 4, True)


def gen_expr(r, odd=False, maxdepth=3):
    pred = gen_pred(r, r.randrange(0, maxdepth + 1), odd)
    e = {"pred": pred, "limit": None, "sortBy": ["build", "date"], "asc": False}
    text = render_pred(pred, r if r.random() < 0.7 else None)
    if r.random() < 0.6:
        e["limit"] = r.choice([1, 1, 1, 2, 2, 3, 4])
        text += r.choice([" LIMIT ", " limit ", "  Limit "]) + str(e["limit"])
        if r.random() < 0.6:
            e["sortBy"] = list(r.choice([["build", "date"], ["metaEnv", "V"], ["meta", "package"], ["metaEnv", "LICENSE"], ["meta", "nosuch"]]
                                        + ([["meta"], ["meta", "num"]] if odd else [])))
            text += r.choice([" ORDER BY ", " order by "]) + ".".join(e["sortBy"])
            k = r.random()
            if k < 0.4:
                e["asc"] = True
                text += r.choice([" ASC", " asc"])
            elif k < 0.7:
                text += r.choice([" DESC", " desc"])
    e["text"] = text
    return e


def gen_exprs(r, odd=False):
    # nesting is kept low here: pyparsing's infix_notation needs ~40 ms per level of parentheses
    return [gen_expr(r, odd, maxdepth=r.choice([0, 1, 1, 2])) for _ in range(r.choice([1, 1, 1, 2, 2, 3]))]


def lean_expr(e):
    return {"pred": e["pred"], "limit": e["limit"], "sortBy": e["sortBy"], "asc": e["asc"]}


# ------------------------------------------------------------------ artifacts: generator

def gen_vars(r, odd=False):
    meta = {"bob": "0.25", "step": "dist", "language": "bash"}
    if r.random() < 0.9:
        meta["package"] = r.choice(PACKAGES)
    if r.random() < 0.85:
        meta["recipe"] = r.choice(RECIPES)
    build = {"sysname": "Linux", "nodename": "n" + str(r.randrange(2)), "release": "6.1", "version": "#1", "machine": r.choice(["x86_64", "aarch64"])}
    if r.random() < 0.88:
        build["date"] = r.choice(DATES)
    v = {"meta": meta, "build": build}
    if r.random() < 0.75:
        me = {}
        if r.random() < 0.6:
            me["LICENSE"] = r.choice(LICENSES)
        if r.random() < 0.6:
            me["V"] = r.choice(VS)
        v["metaEnv"] = me
    if odd and r.random() < 0.3:
        meta["num"] = r.choice([5, None, ["a"], {"k": "v"}, True])
    return v


def hex20(r):
    return bytes(r.randrange(256) for _ in range(20)).hex()


def gen_script(r, odd=False, n_ops=None):
    """a self-contained history: artifacts (with versions and dependencies) and operations"""
    n = r.randrange(2, 10)
    prefix = hex20(r)[:4]
    arts = []
    for i in range(n):
        bid = hex20(r)
        if r.random() < 0.25:
            bid = prefix + bid[4:]                 # same directory
        elif r.random() < 0.15:
            bid = prefix[:2] + bid[2:]
        if r.random() < 0.04:
            bid += "ab" * r.randrange(1, 3)        # longer than 20 bytes is allowed by the archive schema
        vers = []
        for k in range(r.choice([1, 1, 1, 2, 3])):
            deps = {"args": [], "tools": {}, "sandbox": None, "via": r.choice(["build", "build", "direct", "deep"])}
            if i > 0 and (k == 0 or r.random() < 0.35):
                for _ in range(r.choice([0, 1, 1, 2, 3])):
                    j = r.randrange(i)
                    deps["args"].append([j, r.randrange(len(arts[j]["versions"]))])
                if r.random() < 0.3:
                    j = r.randrange(i)
                    deps["tools"]["t" + str(j)] = [j, r.randrange(len(arts[j]["versions"]))]
                if r.random() < 0.2:
                    j = r.randrange(i)
                    deps["sandbox"] = [j, r.randrange(len(arts[j]["versions"]))]
            elif k > 0:
                deps = json.loads(json.dumps(vers[0]["deps"]))      # same references, other vars (the usual rebuild)
            vers.append({"vars": gen_vars(r, odd), "deps": deps})
        arts.append({"bid": bid, "versions": vers})
    ops = []
    present = {}
    for i in range(n):
        if r.random() < 0.7:
            present[i] = 0
            ops.append(["add", i, 0])
    for _ in range(n_ops if n_ops is not None else r.randrange(3, 9)):
        k = r.random()
        if k < 0.5:
            c = r.random()
            noscan = r.random() < 0.2
            if c < 0.12:
                ops.append(["scan"])
            elif c < 0.4:
                ops.append(["find", gen_exprs(r, odd), noscan])
            elif c < 0.65:
                ops.append(["clean", gen_exprs(r, odd), noscan, True, False])
            else:
                ops.append(["clean", gen_exprs(r, odd), noscan, False, r.random() < 0.3])
            continue
        if k < 0.66:
            absent = [i for i in range(n) if i not in present]
            if absent:
                i = r.choice(absent)
                v = r.randrange(len(arts[i]["versions"]))
                present[i] = v
                ops.append(["add", i, v])
        elif k < 0.86:
            if present:
                i = r.choice(sorted(present))
                del present[i]
                ops.append(["rm", i])
        elif k < 0.93:
            cand = [i for i in present if len(arts[i]["versions"]) > 1]
            if cand:
                i = r.choice(cand)
                v = r.choice([x for x in range(len(arts[i]["versions"])) if x != present[i]])
                present[i] = v
                ops.append(["replace", i, v])
        elif k < 0.97:
            if present:
                ops.append(["touch", r.choice(sorted(present))])
        else:
            ops.append(["junk", r.choice(["nopax", "tmpfile", "baddir", "buildid"]), hex20(r)])
    if not any(o[0] in ("find", "clean") for o in ops):
        ops.append(["clean", gen_exprs(r, odd), False, False, False])
    return {"arts": arts, "ops": ops}


# ------------------------------------------------------------------ artifacts: audit trails and files

def record(bid, vars_, deps_ids):
    """one artifact record of an audit trail (schema of bob.audit.Artifact)"""
    rec = {"variant-id": hashlib.sha1(("v" + bid).encode()).hexdigest(), "build-id": bid,
           "result-hash": hashlib.sha1(("r" + bid).encode()).hexdigest(),
           "meta": vars_["meta"], "build": vars_["build"], "env": "", "scms": [], "dependencies": deps_ids}
    if "metaEnv" in vars_:
        rec["metaEnv"] = vars_["metaEnv"]
    rec["artifact-id"] = hashlib.sha1(json.dumps(rec, sort_keys=True).encode()).hexdigest()
    return rec


class Universe:
    """audit trees of all (artifact, version) pairs of a script, with independently computed references"""

    def __init__(self, script):
        self.arts = script["arts"]
        self.trees = {}
        self.refs = {}
        for i, a in enumerate(self.arts):
            for k in range(len(a["versions"])):
                self._build(i, k)

    def _build(self, i, k):
        a = self.arts[i]
        v = a["versions"][k]
        d = v["deps"]
        refrecs = {}                       # artifact-id -> record (everything the trail has to contain)

        def dep(jk):
            t = self.trees[(jk[0], jk[1])]
            refrecs[t["artifact"]["artifact-id"]] = t["artifact"]
            for x in t["references"]:
                refrecs[x["artifact-id"]] = x
            return t["artifact"]["artifact-id"]
        ids = {}
        args = [dep(x) for x in d["args"]]
        if args:
            ids["args"] = args
        if d["tools"]:
            ids["tools"] = {n: dep(x) for n, x in sorted(d["tools"].items())}
        if d["sandbox"] is not None:
            ids["sandbox"] = dep(d["sandbox"])
        bid = a["bid"]
        if d["via"] in ("build", "deep"):
            # dist step <- build step (<- checkout step): non-dist records between the artifact and its dependencies
            src = record(hashlib.sha1(("s" + bid + str(k)).encode()).hexdigest(),
                         {"meta": {"step": "src", "package": "x"}, "build": {"date": "2000"}}, {})
            refrecs[src["artifact-id"]] = src
            inner = dict(ids)
            inner["args"] = [src["artifact-id"]] + list(ids.get("args", []))
            if d["via"] == "deep" and "tools" in inner:
                # the tool is used by an inner step only
                mid = record(hashlib.sha1(("m" + bid + str(k)).encode()).hexdigest(),
                             {"meta": {"step": "build", "package": "x"}, "build": {"date": "2000"}}, {"tools": inner.pop("tools")})
                refrecs[mid["artifact-id"]] = mid
                inner["args"] = inner["args"] + [mid["artifact-id"]]
            bld = record(hashlib.sha1(("b" + bid + str(k)).encode()).hexdigest(),
                         {"meta": {"step": "build", "package": "x"}, "build": {"date": "2000"}}, inner)
            refrecs[bld["artifact-id"]] = bld
            ids = {"args": [bld["artifact-id"]]}
        art = record(bid, v["vars"], ids)
        self.trees[(i, k)] = {"artifact": art, "references": [refrecs[x] for x in sorted(refrecs)]}
        # referenced build ids, computed from the script alone: the dist artifacts this version depends on directly
        direct = list(d["args"]) + list(d["tools"].values()) + ([d["sandbox"]] if d["sandbox"] is not None else [])
        self.refs[(i, k)] = sorted({self.arts[j]["bid"] for j, _ in direct})

    def vars(self, i, k):
        v = self.arts[i]["versions"][k]["vars"]
        return {"meta": v["meta"], "build": v["build"], "metaEnv": v.get("metaEnv", {})}


def rel_path(bid):
    return os.path.join(bid[0:2], bid[2:4], bid[4:] + "-1.tgz")


_seq = [0]


def write_artifact(root, scratch, bid, tree, pax=True, key=None):
    """pack an audit trail into <root>/xx/yy/<rest>-1.tgz the way Bob's uploader does (TarHelper._pack)"""
    from bob.archive import TarHelper
    content = os.path.join(scratch, "content")
    if not os.path.isdir(content):
        os.makedirs(content)
        with open(os.path.join(content, "file"), "w") as f:
            f.write("data\n")
    if key is None:
        _seq[0] += 1
        key = "w%d" % _seq[0]
    d = os.path.join(scratch, key)
    audit = os.path.join(d, "audit.json.gz")
    if not os.path.exists(audit):
        os.makedirs(d, exist_ok=True)
        with gzip.open(audit, "wb", 6) as f:
            f.write(json.dumps(tree).encode("utf8"))
    dst = os.path.join(root, rel_path(bid))
    os.makedirs(os.path.dirname(dst), exist_ok=True)
    tmp = dst + ".tmp"
    if pax:
        TarHelper()._pack(tmp, None, audit, content)
    else:
        import tarfile
        with tarfile.open(tmp, "w:gz") as t:          # not a Bob artifact: no bob-archive-vsn header
            t.add(audit, "meta/audit.json.gz")
    if os.path.lexists(dst):
        os.unlink(dst)
    os.rename(tmp, dst)


# ------------------------------------------------------------------ implementation access

ERRKIND = [("operator in string context", "opInStringCtx"), ("string in boolean context", "strInBoolCtx"),
           ("field reference in boolean context", "refInBoolCtx"), ("predicate not supported between operands", "cmpUnsupported"),
           ("invalid field reference", "invalidFieldRef"), ("LIMIT takes a number", "badLimit"),
           ("Invalid retention expression", "parse"), ("Could not delete file", "delerr"), ("Cannot remove", "delerr"),
           ("Cannot read", "unreadable"), ("Invalid audit trail", "unreadable"), ("Missing audit trail", "unreadable"),
           ("Error scanning archive", "unreadable"), ("Could not get audit", "unreadable")]


def err_kind(e):
    msg = str(getattr(e, "slogan", e))
    for pat, kind in ERRKIND:
        if pat in msg:
            return kind
    return "other:" + msg[:80]


def run_bob(root, argv):
    """the real command entry point in `root`; returns (status, kind-or-None, stdout)"""
    from bob.cmds.archive import doArchive
    from bob.errors import BobError
    old = os.getcwd()
    os.chdir(root)
    out, errs = io.StringIO(), io.StringIO()
    try:
        with contextlib.redirect_stdout(out), contextlib.redirect_stderr(errs):
            doArchive(argv, "/nonexistent")
        return ("ok", None, out.getvalue())
    except BobError as e:
        return ("err", err_kind(e), out.getvalue())
    except SystemExit as e:
        return ("exit", str(e.code), out.getvalue())
    except Exception as e:  # noqa
        return ("internal", "%s: %s" % (type(e).__name__, e), out.getvalue())
    finally:
        os.chdir(old)


def norm_val(v):
    if isinstance(v, str):
        return v
    if isinstance(v, dict):
        return {str(k): norm_val(x) for k, x in v.items()}
    return None


def read_index(root):
    """rows and refs of the scan index, by our own connection: ({bid: (stat hex, vars)}, set((bid, ref)), enumeration order)"""
    p = os.path.join(root, ".bob-archive.sqlite3")
    if not os.path.exists(p):
        return {}, set(), []
    con = sqlite3.connect("file:%s?mode=ro" % p, uri=True)
    try:
        try:
            key = con.execute("SELECT key FROM archives WHERE uri=?", (os.path.abspath(root),)).fetchone()
        except sqlite3.Error:
            return {}, set(), []
        if key is None:
            return {}, set(), []
        rows = {}
        for bid, st, vrs in con.execute("SELECT bid, stat, vars FROM files WHERE arch=?", key):
            rows[bid.hex()] = (bytes(st).hex(), norm_val(pickle.loads(vrs)))
        refs = {(b.hex(), r.hex()) for b, r in con.execute("SELECT bid, ref FROM refs WHERE arch=?", key)}
        order = [b[0].hex() for b in con.execute("SELECT bid FROM files WHERE arch=?", key)]
        return rows, refs, order
    finally:
        con.close()


def bin_stat(path):
    st = os.lstat(path)
    return struct.pack('=qqQQLQ', st.st_ctime_ns, st.st_mtime_ns, st.st_dev, st.st_ino & 0xFFFFFFFFFFFFFFFF, st.st_mode, st.st_size).hex()


def list_artifacts(root):
    """relative paths of everything below root that has the shape xx/yy/<name>-1.tgz"""
    out = []
    for l1 in sorted(os.listdir(root)):
        p1 = os.path.join(root, l1)
        if len(l1) != 2 or not os.path.isdir(p1):
            continue
        for l2 in sorted(os.listdir(p1)):
            p2 = os.path.join(p1, l2)
            if len(l2) != 2 or not os.path.isdir(p2):
                continue
            for l3 in sorted(os.listdir(p2)):
                if l3.endswith("-1.tgz") and len(l3) >= 42:
                    out.append(os.path.join(l1, l2, l3))
    return out


def all_files(root):
    out = []
    for dp, dn, fn in os.walk(root):
        for f in fn:
            if not f.startswith(".bob-archive.sqlite3"):
                out.append(os.path.relpath(os.path.join(dp, f), root))
        for d in dn:
            if d.endswith(".tgz"):
                out.append(os.path.relpath(os.path.join(dp, d), root) + "/")
    return sorted(out)


def path_bid(rel):
    return rel[0:2] + rel[3:5] + rel[6:-len("-1.tgz")]


_PATH_RE = re.compile(r"([0-9a-f]{2})/([0-9a-f]{2})/([0-9a-f]{36,})-1\.tgz")


def parse_paths(text, prefix=""):
    """artifact paths printed one per line (with the given prefix), as build ids"""
    out = []
    for line in text.splitlines():
        if line.startswith(prefix):
            m = _PATH_RE.fullmatch(line[len(prefix):])
            if m:
                out.append(m.group(1) + m.group(2) + m.group(3))
    return out


def is_artifact_path(rel):
    return _PATH_RE.fullmatch(rel) is not None


# ------------------------------------------------------------------ executing a script

# absolute time after which forked workers stop starting new commands (inherited through fork)
_DEADLINE = [None]

def argv_of(op):
    if op[0] == "scan":
        return ["-l", "scan"]
    if op[0] == "find":
        return ["-l", "find"] + (["-n"] if op[2] else []) + [e["text"] for e in op[1]]
    a = ["-l", "clean"]
    if op[2]:
        a.append("-n")
    if op[3]:
        a.append("--dry-run")
    if op[4]:
        a.append("-v")
    return a + [e["text"] for e in op[1]]


class Exec:
    def __init__(self, script, base):
        self.script = script
        self.uni = Universe(script)
        self.base = base
        self.root = os.path.join(base, "archive")
        self.scratch = os.path.join(base, "scratch")
        os.makedirs(self.root)
        os.makedirs(self.scratch)
        self.present = {}          # bid -> (art index, version)   generated artifacts on disk
        self.nopax = set()         # bids of files without a readable audit trail
        self.blocked = {}          # bid -> saved path (artifact replaced by a directory)
        self.dirty = True          # archive changed since the last command that scanned
        self.traces = []           # executed commands with pre/post state (for the correspondence)
        self.findings = []         # oracle failures
        self.nfresh = 0

    # ---- archive manipulation
    def add(self, i, k):
        bid = self.script["arts"][i]["bid"]
        write_artifact(self.root, self.scratch, bid, self.uni.trees[(i, k)], key="a%d.%d" % (i, k))
        self.present[bid] = (i, k)
        self.dirty = True

    def rm(self, i):
        bid = self.script["arts"][i]["bid"]
        p = os.path.join(self.root, rel_path(bid))
        if os.path.exists(p):
            os.unlink(p)
        self.present.pop(bid, None)
        self.dirty = True

    def junk(self, kind, bid):
        if kind == "nopax":
            write_artifact(self.root, self.scratch, bid, {"artifact": {}, "references": []}, pax=False)
            self.nopax.add(bid)
        elif kind == "tmpfile":
            d = os.path.join(self.root, bid[0:2], bid[2:4])
            os.makedirs(d, exist_ok=True)
            with open(os.path.join(d, "tmp" + bid[4:12]), "w") as f:
                f.write("x")
        elif kind == "baddir":
            d = os.path.join(self.root, bid[0:3], bid[3:5])
            os.makedirs(d, exist_ok=True)
            with open(os.path.join(d, bid[5:] + "-1.tgz"), "w") as f:
                f.write("x")
        else:
            d = os.path.join(self.root, bid[0:2], bid[2:4])
            os.makedirs(d, exist_ok=True)
            with open(os.path.join(d, bid[4:] + "-1.buildid"), "w") as f:
                f.write("x")
        self.dirty = True

    def block(self, i):
        """replace the artifact file by a directory of the same name (unlink fails); the file is kept aside"""
        bid = self.script["arts"][i]["bid"]
        p = os.path.join(self.root, rel_path(bid))
        if bid in self.present and bid not in self.blocked:
            os.rename(p, p + ".keep")
            os.mkdir(p)
            self.blocked[bid] = p

    def unblock(self, i):
        bid = self.script["arts"][i]["bid"]
        p = self.blocked.pop(bid, None)
        if p:
            os.rmdir(p)
            os.rename(p + ".keep", p)

    # ---- state
    def file_state(self):
        """what the archive looks like to the scanner: list of file entries for the model"""
        ents = []
        for rel in list_artifacts(self.root):
            bid = path_bid(rel)
            p = os.path.join(self.root, rel)
            ent = {"bid": bid, "stat": bin_stat(p), "audit": None, "deletable": bid not in self.blocked}
            if bid in self.present:
                i, k = self.present[bid]
                ent["audit"] = {"vars": norm_val(self.uni.vars(i, k)), "refs": self.uni.refs[(i, k)]}
            ents.append(ent)
        return ents

    def arts_now(self):
        """{bid: vars}, {bid: refs} of the artifacts with an audit trail that are present"""
        arts, refs = {}, {}
        for rel in list_artifacts(self.root):
            bid = path_bid(rel)
            if bid in self.present and bid not in self.blocked:
                i, k = self.present[bid]
                arts[bid] = self.uni.vars(i, k)
                refs[bid] = self.uni.refs[(i, k)]
        return arts, refs

    # ---- commands
    def argv(self, op):
        return argv_of(op)

    def command(self, idx, op, check=True, fresh=True):
        pre_files = self.file_state()
        pre_all = all_files(self.root)
        pre_rows, pre_refs, _ = read_index(self.root)
        noscan = op[0] != "scan" and op[2]
        applicable = check and op[0] != "scan" and (not noscan or not self.dirty) and not self.blocked
        fresh_res = None
        if applicable and fresh:
            fresh_res = self.run_fresh(op)
        status, kind, out = run_bob(self.root, self.argv(op))
        post_rows, post_refs, order = read_index(self.root)
        post_all = all_files(self.root)
        tr = {"step": idx, "op": op, "pre_files": pre_files, "pre_rows": pre_rows, "pre_refs": sorted(pre_refs),
              "status": status, "kind": kind, "out": out, "post_files": [path_bid(x) for x in list_artifacts(self.root)],
              "post_rows": post_rows, "post_refs": sorted(post_refs), "order_sorted": order == sorted(order),
              "pre_all": pre_all, "post_all": post_all}
        self.traces.append(tr)
        if not noscan:
            self.dirty = False
        if status == "internal":
            self.findings.append({"step": idx, "what": "internal exception from `bob archive %s`: %s" % (" ".join(self.argv(op)[1:]), kind),
                                  "signature": "internal-exception"})
        elif check:
            self.check_generic(idx, op, tr)
            if applicable:
                self.check_result(idx, op, tr, fresh_res, pre_rows, pre_refs)
        # files deleted by the command are gone for the bookkeeping as well
        for bid in list(self.present):
            if bid not in self.blocked and not os.path.exists(os.path.join(self.root, rel_path(bid))):
                del self.present[bid]
        for bid in list(self.nopax):
            if not os.path.exists(os.path.join(self.root, rel_path(bid))):
                self.nopax.discard(bid)
        return tr

    def run_fresh(self, op):
        """the same command on a copy of the archive files with no index"""
        self.nfresh += 1
        froot = os.path.join(self.base, "fresh%d" % self.nfresh, "archive")
        os.makedirs(froot)
        for rel in all_files(self.root):
            if rel.endswith("/"):
                continue
            os.makedirs(os.path.dirname(os.path.join(froot, rel)), exist_ok=True)
            shutil.copyfile(os.path.join(self.root, rel), os.path.join(froot, rel))
        before = all_files(froot)
        argv = [a for a in self.argv(op) if a != "-n"]
        status, kind, out = run_bob(froot, argv)
        res = {"status": status, "kind": kind, "out": out, "before": before, "after": all_files(froot)}
        shutil.rmtree(os.path.dirname(froot))
        return res

    # ---- oracle
    def check_generic(self, idx, op, tr):
        """clauses that hold for every command, whatever the index looks like"""
        gone = sorted(set(tr["pre_all"]) - set(tr["post_all"]))
        new = sorted(set(tr["post_all"]) - set(tr["pre_all"]))
        if new:
            self.fail(idx, "command created files in the archive: %s" % new, "command-creates-files")
        mutating = op[0] == "clean" and not op[3] and (tr["status"] == "ok" or tr["kind"] == "delerr")
        if gone and not mutating:
            what = "--dry-run" if op[0] == "clean" and op[3] else ("a failed command" if tr["status"] != "ok" else op[0])
            self.fail(idx, "%s deleted %s" % (what, gone), "non-clean-command-deletes-files")
        for g in gone:
            if not g.endswith("-1.tgz") or path_bid(g) not in self.present:
                self.fail(idx, "clean deleted %s, which is not an indexed artifact" % g, "clean-deletes-foreign-file")

    def check_result(self, idx, op, tr, fresh_res, pre_rows, pre_refs):
        arts, refs = self.arts_now_pre
        exprs = op[1]
        accept = spec_kept(exprs, arts, refs) if op[0] == "clean" else spec_direct(exprs, arts)
        if accept is None:
            return
        unindexed = {path_bid(x) for x in tr["pre_all"] if is_artifact_path(x)} - set(arts)
        res_warm = self.result_of(op, tr["status"], tr["kind"], tr["out"], tr["pre_all"], tr["post_all"])
        ok_warm = self.valid(op, res_warm, accept, arts, unindexed)
        ok_fresh = None
        if fresh_res is not None:
            res_fresh = self.result_of(op, fresh_res["status"], fresh_res["kind"], fresh_res["out"], fresh_res["before"], fresh_res["after"])
            ok_fresh = self.valid(op, res_fresh, accept, arts, unindexed)
            if ok_fresh is not True:
                self.fail(idx, "with a freshly built index `%s` %s" % (" ".join(self.argv(op)[1:]), ok_fresh), "fresh-index:" + ok_fresh.split(":")[0])
        if ok_warm is True:
            return
        # the warm/stale index gives a result that the files actually present do not justify: which staleness explains it?
        stale_rows = {b: v for b, (st, v) in pre_rows.items() if b not in arts and b not in unindexed}
        db_refs = {}
        for b, r_ in pre_refs:
            db_refs.setdefault(b, set()).add(r_)
        arts_v = dict(arts)
        arts_v.update(stale_rows)
        refs_v = {b: set(x) for b, x in refs.items()}
        for b in stale_rows:
            refs_v[b] = set(db_refs.get(b, ()))
        refs_r = {b: set(x) | db_refs.get(b, set()) for b, x in refs.items()}
        for b in db_refs:
            if b not in refs_r and b not in stale_rows:
                refs_r[b] = set(db_refs[b])
        refs_vr = {b: set(x) for b, x in refs_r.items()}
        for b in stale_rows:
            refs_vr[b] = set(db_refs.get(b, ()))

        def explained(a, rf):
            acc = spec_kept(exprs, a, rf) if op[0] == "clean" else spec_direct(exprs, a)
            return acc is not None and self.valid(op, res_warm, acc, a, unindexed, stale=set(a) - set(arts)) is True
        cmdline = " ".join(self.argv(op)[1:])
        if stale_rows and explained(arts_v, refs_v):
            sigs = [SIG_VANISHED]
        elif explained(arts, refs_r):
            sigs = [SIG_STALE_REFS]
        elif stale_rows and explained(arts_v, refs_vr):
            sigs = [SIG_VANISHED, SIG_STALE_REFS]
        else:
            sigs = ["warm-index:" + ok_warm.split(":")[0]]
        for s in sigs:
            self.fail(idx, "`%s` with the warm/stale index %s; %s" % (
                cmdline, ok_warm,
                "a fresh index on the same files gives a valid result" if ok_fresh is True else "fresh index: %s" % ok_fresh), s)

    def result_of(self, op, status, kind, out, before, after):
        if status != "ok":
            return {"err": kind}
        r = {"err": None, "remaining": {path_bid(x) for x in after if is_artifact_path(x)}}
        if op[0] == "find":
            r["listed"] = parse_paths(out, "\t")
        elif op[3]:
            r["listed"] = parse_paths(out)
        return r

    def valid(self, op, res, accept, arts, unindexed, stale=frozenset()):
        """True, or a description "<class>: details" of why the result is not what the property demands"""
        if accept == ERR:
            return True if res["err"] is not None else "no-error: the expression is not defined on some artifact but the command succeeded"
        if res["err"] is not None:
            return "unexpected-error: command failed with %s" % res["err"]
        if op[0] == "find":
            got = frozenset(res["listed"])
            if len(res["listed"]) != len(got) or res["listed"] != sorted(res["listed"]):
                return "find-output-not-a-sorted-set: %s" % res["listed"]
            if got in accept:
                return True
            extra = sorted(got - frozenset().union(*accept))
            missing = sorted(frozenset.intersection(*accept) - got)
            return "find-output-wrong: lists %s that are not selected, misses %s" % (extra, missing)
        present = set(arts) - set(stale)
        if op[3]:
            listed = frozenset(res["listed"])
            if len(res["listed"]) != len(listed):
                return "dry-run-list-wrong: duplicates in %s" % res["listed"]
            if any(frozenset(arts) - k == listed for k in accept):
                return True
            return "dry-run-list-wrong: listed %s, expected one of %s" % (sorted(listed), sorted(sorted(frozenset(arts) - k) for k in accept)[:3])
        remaining = res["remaining"]
        for k in accept:
            if remaining == (present & k) | unindexed:
                return True
        must = frozenset.intersection(*accept) & present
        lost = sorted(must - remaining)
        if lost:
            return "clean-deletes-kept-artifact: deleted %s although selected by an expression or referenced by a kept artifact" % lost
        may = frozenset().union(*accept) | unindexed
        extra = sorted(remaining - may)
        if extra:
            return "clean-keeps-unreferenced-artifact: %s survive although neither selected nor referenced" % extra
        return "clean-result-wrong: remaining %s is none of the valid results" % sorted(remaining)

    def fail(self, idx, what, signature):
        self.findings.append({"step": idx, "what": what, "signature": signature})

    # ---- driver
    def run(self, check=True, fresh=True, upto=None):
        import time
        for idx, op in enumerate(self.script["ops"]):
            if upto is not None and idx > upto:
                break
            if _DEADLINE[0] is not None and time.time() > _DEADLINE[0]:
                break       # out of time: what was executed so far stays valid, every command is checked on its own
            k = op[0]
            if k == "add" or k == "replace":
                if k == "replace":
                    self.rm(op[1])
                self.add(op[1], op[2])
            elif k == "rm":
                self.rm(op[1])
            elif k == "touch":
                bid = self.script["arts"][op[1]]["bid"]
                if bid in self.present:
                    self.add(*self.present[bid])
            elif k == "junk":
                self.junk(op[1], op[2])
            elif k == "block":
                self.block(op[1])
            elif k == "unblock":
                self.unblock(op[1])
            elif k == "expect-deleted":
                bid = self.script["arts"][op[1]]["bid"]
                if check and os.path.exists(os.path.join(self.root, rel_path(bid))):
                    self.fail(idx, "artifact %s is still in the archive: `clean -n` after a failed delete does not retry it "
                                   "(a fresh index deletes it)" % rel_path(bid), "artifact-forgotten-after-failed-delete")
            else:
                self.arts_now_pre = self.arts_now()
                self.command(idx, op, check, fresh)
        return self


def describe(script):
    """human readable form of a script for the replay file"""
    lines = []
    for i, a in enumerate(script["arts"]):
        for k, v in enumerate(a["versions"]):
            d = v["deps"]
            lines.append("a%d.%d bid=%s meta=%s date=%s metaEnv=%s deps=%s" % (
                i, k, a["bid"][:8], {x: y for x, y in v["vars"]["meta"].items() if x in ("package", "recipe", "num")},
                v["vars"]["build"].get("date"), v["vars"].get("metaEnv"),
                ["a%d" % x[0] for x in d["args"]] + ["a%d" % x[0] for x in d["tools"].values()] + (["a%d" % d["sandbox"][0]] if d["sandbox"] else [])))
    for op in script["ops"]:
        if op[0] in ("find", "clean"):
            lines.append("%s%s%s %s" % (op[0], " -n" if op[2] else "", " --dry-run" if op[0] == "clean" and op[3] else "", [e["text"] for e in op[1]]))
        else:
            lines.append(" ".join(str(x) for x in op))
    return lines


def shrink(script, signature, base, budget=25):
    """drop operations / expressions while the oracle still reports the same signature"""
    n = [0]

    def fails(s):
        n[0] += 1
        d = os.path.join(base, "shrink%d" % n[0])
        os.makedirs(d)
        try:
            ex = Exec(s, d).run()
            return any(f["signature"] == signature for f in ex.findings)
        except Exception:  # noqa
            return False
        finally:
            shutil.rmtree(d, ignore_errors=True)
    cur = script
    i = len(cur["ops"]) - 1
    while i >= 0 and n[0] < budget:
        cand = dict(cur, ops=cur["ops"][:i] + cur["ops"][i + 1:])
        if any(o[0] in ("find", "clean") for o in cand["ops"]) and fails(cand):
            cur = cand
        i -= 1
    for i, op in enumerate(cur["ops"]):
        if op[0] in ("find", "clean") and len(op[1]) > 1:
            for j in range(len(op[1])):
                if n[0] >= budget:
                    break
                op2 = list(op)
                op2[1] = op[1][:j] + op[1][j + 1:]
                cand = dict(cur, ops=cur["ops"][:i] + [op2] + cur["ops"][i + 1:])
                if fails(cand):
                    cur = cand
                    break
    return cur


# ------------------------------------------------------------------ workers (forked)

def history_worker(item):
    """run one scripted history on the implementation; returns traces and oracle findings"""
    kind, subseed, base, param = item
    os.makedirs(base, exist_ok=True)
    try:
        if kind == "script":
            script = param
        else:
            r = random.Random(subseed)
            script = gen_script(r, odd=(kind == "odd"))
        ex = Exec(script, base).run()
        findings = ex.findings
        shrunk = {}
        return {"kind": kind, "subseed": subseed, "script": script, "traces": ex.traces, "findings": findings, "shrunk": shrunk, "error": None}
    except Exception as e:  # noqa
        import traceback
        return {"kind": kind, "subseed": subseed, "script": None, "traces": [], "findings": [], "shrunk": {},
                "error": "".join(traceback.format_exception(type(e), e, e.__traceback__))[-3000:]}
    finally:
        shutil.rmtree(base, ignore_errors=True)


class StubScanner:
    def __init__(self, rows):
        self.rows = rows

    def getBuildIds(self):
        return [bytes.fromhex(b) for b, _ in self.rows]

    def getVars(self, bid):
        for b, v in self.rows:
            if bytes.fromhex(b) == bid:
                return v
        return {}


def query_worker(item):
    """bob.cmds.archive.query on stub scanners"""
    subseed, n = item
    from bob.cmds.archive import query
    from bob.errors import BobError
    import time
    r = random.Random(subseed)
    out = []
    for _ in range(n):
        if _DEADLINE[0] is not None and time.time() > _DEADLINE[0]:
            break
        odd = r.random() < 0.25
        rows = []
        for _ in range(r.choice([0, 1, 2, 3, 4, 5, 6, 8, 10, 14])):
            v = gen_vars(r, odd)
            rows.append((hex20(r), {"meta": v["meta"], "build": v["build"], "metaEnv": v.get("metaEnv", {})}))
        exprs = [gen_expr(r, odd, maxdepth=2) for _ in range(r.choice([1, 1, 2, 3]))]
        try:
            got = ("ok", sorted(b.hex() for b in query(StubScanner(rows), [e["text"] for e in exprs])))
        except BobError as e:
            got = ("err", err_kind(e))
        except Exception as e:  # noqa
            got = ("internal", "%s: %s" % (type(e).__name__, e))
        out.append({"rows": rows, "exprs": exprs, "got": got})
    return out


def check_query_case(c):
    """oracle on one query() case: the retained set must be a valid selection; returns None or (what, signature)"""
    arts = {b: v for b, v in c["rows"]}
    got = c["got"]
    if got[0] == "internal":
        return ("internal exception from query(): " + got[1], "internal-exception")
    accept = spec_direct(c["exprs"], arts)
    if accept is None:
        return None
    if accept == ERR:
        if got[0] != "err":
            return ("query(%s) succeeded although an expression is not defined on some artifact" % [e["text"] for e in c["exprs"]], "query-no-error")
        return None
    if got[0] == "err":
        return ("query(%s) failed with %s" % ([e["text"] for e in c["exprs"]], got[1]), "query-unexpected-error")
    if frozenset(got[1]) in accept:
        return None
    return ("query(%s) retained %s; valid results: %s" % ([e["text"] for e in c["exprs"]], [b[:6] for b in got[1]],
                                                         [sorted(b[:6] for b in a) for a in list(accept)[:3]]), "query-selection-wrong")


# ------------------------------------------------------------------ fixed scripts

def _v(package, date, deps=None, metaEnv=None):
    v = {"meta": {"bob": "0.25", "step": "dist", "language": "bash", "package": package, "recipe": "r"},
         "build": {"sysname": "Linux", "nodename": "n", "release": "6.1", "version": "#1", "machine": "x86_64", "date": date}}
    if date is None:
        del v["build"]["date"]
    if metaEnv is not None:
        v["metaEnv"] = metaEnv
    return {"vars": v, "deps": deps or {"args": [], "tools": {}, "sandbox": None, "via": "direct"}}


def _e(text, pred, limit=None, sortBy=("build", "date"), asc=False):
    return {"text": text, "pred": pred, "limit": limit, "sortBy": list(sortBy), "asc": asc}


PKG_X = {"cmp": "==", "l": {"ref": ["meta", "package"]}, "r": {"lit": "x"}}
PKG_TOP = {"cmp": "==", "l": {"ref": ["meta", "package"]}, "r": {"lit": "top"}}


def fixed_scripts():
    A, B, C = "aa" * 20, "0b" * 20, "cc" * 20
    out = []
    # F-C19-1: the stale row of a vanished artifact takes the LIMIT slot
    out.append(("vanished-limit", {
        "arts": [{"bid": A, "versions": [_v("x", "2020-01-01")]}, {"bid": B, "versions": [_v("x", "2021-01-01")]}],
        "ops": [["add", 0, 0], ["add", 1, 0], ["scan"], ["rm", 1],
                ["clean", [_e('meta.package == "x" LIMIT 1', PKG_X, 1)], False, False, False]]}))
    # the stale row of a vanished artifact keeps what it referenced / is listed by find
    out.append(("vanished-refs", {
        "arts": [{"bid": A, "versions": [_v("lib", "2020-01-01")]},
                 {"bid": B, "versions": [_v("x", "2021-01-01", {"args": [[0, 0]], "tools": {}, "sandbox": None, "via": "build"})]}],
        "ops": [["add", 0, 0], ["add", 1, 0], ["scan"], ["rm", 1], ["find", [_e('meta.package == "x"', PKG_X)], False],
                ["clean", [_e('meta.package == "x"', PKG_X)], False, False, False]]}))
    # a re-read artifact keeps its old references
    out.append(("reread-refs", {
        "arts": [{"bid": A, "versions": [_v("lib", "2020-01-01")]}, {"bid": C, "versions": [_v("lib2", "2020-01-01")]},
                 {"bid": B, "versions": [_v("top", "2021-01-01", {"args": [[0, 0]], "tools": {}, "sandbox": None, "via": "direct"}),
                                         _v("top", "2021-02-01", {"args": [[1, 0]], "tools": {}, "sandbox": None, "via": "direct"})]}],
        "ops": [["add", 0, 0], ["add", 1, 0], ["add", 2, 0], ["scan"], ["replace", 2, 1],
                ["clean", [_e('meta.package == "top"', PKG_TOP)], False, False, False]]}))
    # delete failure in the middle of the third pass; the index must still know the artifact afterwards
    out.append(("failed-delete", {
        "arts": [{"bid": A, "versions": [_v("lib", "2020-01-01")]}, {"bid": B, "versions": [_v("x", "2021-01-01")]},
                 {"bid": C, "versions": [_v("lib", "2019-01-01")]}],
        "ops": [["add", 0, 0], ["add", 1, 0], ["add", 2, 0], ["scan"], ["block", 0],
                ["clean", [_e('meta.package == "x"', PKG_X)], True, False, False], ["unblock", 0],
                ["clean", [_e('meta.package == "x"', PKG_X)], True, False, False], ["expect-deleted", 0], ["expect-deleted", 2]]}))
    # references through two levels and through non-dist audit records; find is direct; refs are pruned
    dep = lambda j, via: {"args": [[j, 0]], "tools": {}, "sandbox": None, "via": via}
    out.append(("two-level-refs", {
        "arts": [{"bid": C, "versions": [_v("lib2", "2019-01-01")]},
                 {"bid": B, "versions": [_v("lib", "2020-01-01", dep(0, "build"))]},
                 {"bid": A, "versions": [_v("top", "2021-01-01", {"args": [], "tools": {"t": [1, 0]}, "sandbox": None, "via": "deep"})]},
                 {"bid": "dd" * 20, "versions": [_v("other", "2021-01-01", dep(0, "direct"))]}],
        "ops": [["add", 0, 0], ["add", 1, 0], ["add", 2, 0], ["add", 3, 0],
                ["find", [_m(_cmp("meta.package", "==", "top"))], False],
                ["clean", [_m(_cmp("meta.package", "==", "top"))], False, True, False],
                ["clean", [_m(_cmp("meta.package", "==", "top"))], False, False, True],
                ["clean", [_m(_cmp("meta.package", "==", "lib2"))], False, False, False],
                ["add", 1, 0], ["clean", [_m(_cmp("meta.package", "==", "lib"))], False, False, False]]}))
    # LIMIT / ORDER BY / missing sort field / per-expression limits / operators / undefined value / short circuit
    sem_arts = [{"bid": "%02x" % (0x10 + i) * 20, "versions": [v]} for i, v in enumerate([
        _v("x", "2020-01-01", metaEnv={"V": "2"}), _v("x", "2021-01-01", metaEnv={"V": "1"}), _v("x", "2022-01-01"),
        _v("x", None, metaEnv={"V": "3"}), _v("y", "2019-01-01", metaEnv={}), _v("y", "2023-01-01", metaEnv={"V": ""})])]
    X = _cmp("meta.package", "==", "x")
    Y = _cmp("meta.package", "==", "y")
    sem_exprs = [[_m(X, 2)], [_m(X, 2, "build.date", True)], [_m(X, 3)], [_m(X, 4)], [_m(X, 1, "metaEnv.V")], [_m(X, 2, "metaEnv.V", True)],
                 [_m(X, 1), _m(_cmp("meta.recipe", "==", "r"), 1, "build.date", True)],
                 [_m(_cmp("meta.recipe", "==", "r"), 1), _m(X, 1, "build.date", True)],
                 [_m({"and": [Y, _cmp("build.date", "<=", "2023-01-01")]})], [_m({"and": [Y, _cmp("build.date", ">", "2019-01-01")]})],
                 [_m({"and": [Y, _cmp("build.date", ">=", "2023-01-01")]})], [_m({"and": [Y, _cmp("build.date", "<", "2023-01-01")]})],
                 [_m(_cmp("build.date", "<=", "2021-01-01"))],
                 [_m(_cmp("metaEnv.V", "==", ""))], [_m(_cmp("metaEnv.V", "!=", ""))], [_m(_cmp("metaEnv.nosuch", "==", "meta.nosuch", rref=True))],
                 [_m({"and": [_cmp("meta.package", "==", "zzz"), _cmp("meta.nosuch", "<", "b")]})],
                 [_m({"or": [_cmp("meta.package", "!=", "zzz"), _cmp("meta.nosuch", "<", "b")]})],
                 [_m({"not": {"or": [_cmp("meta.package", "==", "y"), _cmp("build.date", "==", "2020-01-01")]}})]]
    for g in range(0, len(sem_exprs), 3):
        ops = [["add", i, 0] for i in range(6)]
        for exprs in sem_exprs[g:g + 3]:
            ops.append(["find", exprs, False])
            ops.append(["clean", exprs, True, True, False])
        ops.append(["clean", sem_exprs[g], False, False, True])
        out.append(("semantics-%d" % (g // 3), {"arts": sem_arts, "ops": ops}))
    # dangling-then-satisfied references: app is uploaded before its dependencies, a clean that deletes something runs in
    # between, the dependencies arrive later while app's file is untouched; they must survive the next clean
    out.append(("dangling-then-satisfied", {
        "arts": [{"bid": C, "versions": [_v("base", "2019-01-01")]},
                 {"bid": B, "versions": [_v("lib", "2020-01-01", dep(0, "build"))]},
                 {"bid": A, "versions": [_v("app", "2021-01-01", dep(1, "build"))]},
                 {"bid": "dd" * 20, "versions": [_v("junk", "2018-01-01")]}, {"bid": "ee" * 20, "versions": [_v("junk", "2018-02-01")]}],
        "ops": [["add", 2, 0], ["add", 3, 0], ["clean", [_m(_cmp("meta.package", "==", "app"))], False, False, False],
                ["add", 1, 0], ["add", 0, 0], ["add", 4, 0],
                ["find", [_m(_cmp("meta.package", "==", "app"))], False],
                ["clean", [_m(_cmp("meta.package", "==", "app"))], False, True, False],
                ["clean", [_m(_cmp("meta.package", "==", "app"))], False, False, False],
                ["clean", [_m(_cmp("meta.package", "==", "app"))], True, True, False]]}))
    # a replaced artifact is re-read
    out.append(("replaced-vars", {
        "arts": [{"bid": A, "versions": [_v("x", "2020-01-01"), _v("x", "2022-02-02")]}, {"bid": B, "versions": [_v("x", "2021-01-01")]}],
        "ops": [["add", 0, 0], ["add", 1, 0], ["scan"], ["replace", 0, 1], ["find", [_m(_cmp("build.date", ">=", "2022"))], False],
                ["touch", 1], ["clean", [_m(X, 1)], False, False, False]]}))
    return out


def _cmp(field, op, value, rref=False):
    return {"cmp": op, "l": {"ref": field.split(".")}, "r": {"ref": value.split(".")} if rref else {"lit": value}}


def _m(pred, limit=None, sortBy=None, asc=None):
    text = render_pred(pred)
    e = {"pred": pred, "limit": limit, "sortBy": (sortBy or "build.date").split("."), "asc": bool(asc)}
    if limit is not None:
        text += " LIMIT %d" % limit
        if sortBy is not None:
            text += " ORDER BY " + sortBy
            if asc is not None:
                text += " ASC" if asc else " DESC"
    e["text"] = text
    return e


def gen_block_script(r):
    """random history that ends with a failing delete and a retry"""
    s = gen_script(r, n_ops=r.randrange(0, 3))
    n = len(s["arts"])
    ops = [o for o in s["ops"] if o[0] in ("add",)]
    for i in range(n):
        if not any(o[1] == i for o in ops):
            ops.append(["add", i, 0])
    ops.append(["scan"])
    ex = gen_exprs(r)
    blocked = r.sample(range(n), r.randrange(1, min(3, n) + 1))
    for b in blocked:
        ops.append(["block", b])
    ops.append(["clean", ex, True, False, r.random() < 0.5])
    for b in blocked:
        ops.append(["unblock", b])
    ops.append(["clean", ex, True, False, False])
    s["ops"] = ops
    return s


def gen_late_script(r):
    """dangling-then-satisfied references: artifacts are uploaded before (some of) what they reference, commands run in
    between, the referenced artifacts arrive later while the referencing files stay untouched"""
    s = gen_script(r, n_ops=0)
    arts = s["arts"]
    n = len(arts)
    # extra artifacts nobody references: something for `clean` to delete
    for _ in range(r.randrange(1, 3)):
        arts.append({"bid": hex20(r), "versions": [{"vars": gen_vars(r), "deps": {"args": [], "tools": {}, "sandbox": None, "via": "direct"}}]})
    order = list(range(len(arts)))
    # dependants first: higher indices reference lower ones
    order.sort(key=lambda i: (-i if i < n else -r.randrange(n + 1)) + r.choice([0, 0, 0, 2, -2]))
    absent = list(order)
    ops = []

    def selecting(i):
        v = arts[i]["versions"][0]["vars"]
        if "package" in v["meta"]:
            return _m(_cmp("meta.package", "==", v["meta"]["package"]), r.choice([None, None, 1, 2]))
        return _m(_cmp("build.nodename", "==", v["build"]["nodename"]), r.choice([None, 2]))
    present = []
    while absent:
        for _ in range(r.randrange(1, 4)):
            if absent:
                i = absent.pop(0)
                present.append(i)
                ops.append(["add", i, 0])
        for _ in range(r.randrange(1, 3)):
            exprs = [selecting(r.choice(present))] + ([gen_expr(r, maxdepth=1)] if r.random() < 0.3 else [])
            c = r.random()
            if c < 0.25:
                ops.append(["find", exprs, r.random() < 0.15])
            elif c < 0.5:
                ops.append(["clean", exprs, r.random() < 0.15, True, False])
            else:
                ops.append(["clean", exprs, False, False, False])
    ops.append(["clean", [selecting(r.choice(range(len(arts))))], False, False, False])
    s["ops"] = ops
    return s


MALFORMED = ["garbage", "truncated", "noaudit", "badjson", "norequired"]


def audit_readable(path):
    """can an audit trail be obtained from the file at all?  Our own reader (tar stream, pax header, gzip, json, required
    keys), independent of Bob's: a damaged artifact whose audit trail at the head of the tar stream is intact is an
    ordinary indexed artifact and may be deleted like any other."""
    import tarfile
    try:
        with tarfile.open(path, "r|*") as t:
            if t.pax_headers.get("bob-archive-vsn") != "1":
                return False
            m = t.next()
            while m is not None and m.name != "meta/audit.json.gz":
                m = t.next()
            if m is None:
                return False
            tree = json.loads(gzip.GzipFile(fileobj=t.extractfile(m)).read().decode("utf8"))
        a = tree["artifact"]
        return all(k in a for k in ("variant-id", "build-id", "artifact-id", "result-hash", "meta", "build", "dependencies")) \
            and isinstance(tree["references"], list)
    except Exception:  # noqa
        return False


def malformed_worker(item):
    """artifacts that cannot be read: a command that fails deletes nothing, and the unreadable artifact is never deleted"""
    subseed, base = item
    r = random.Random(subseed)
    os.makedirs(base, exist_ok=True)
    res = []
    try:
        script = gen_script(r, n_ops=0)
        ex = Exec(script, base)
        for i in range(len(script["arts"])):
            ex.add(i, 0)
        kind = r.choice(MALFORMED)
        bid = hex20(r)
        dst = os.path.join(ex.root, rel_path(bid))
        os.makedirs(os.path.dirname(dst), exist_ok=True)
        import tarfile
        if kind == "garbage":
            with open(dst, "wb") as f:
                f.write(bytes(r.randrange(256) for _ in range(r.randrange(0, 600))))
        elif kind == "truncated":
            write_artifact(ex.root, ex.scratch, bid, ex.uni.trees[(0, 0)])
            data = open(dst, "rb").read()
            with open(dst + ".t", "wb") as f:
                f.write(data[:r.randrange(1, len(data))])
            os.replace(dst + ".t", dst)
        else:
            tree = json.loads(json.dumps(ex.uni.trees[(0, 0)]))
            tree["artifact"]["build-id"] = bid
            if kind == "norequired":
                del tree["artifact"][r.choice(["meta", "build", "dependencies", "build-id"])]
            d = os.path.join(ex.scratch, "m")
            os.makedirs(d)
            a = os.path.join(d, "audit.json.gz")
            with gzip.open(a, "wb") as f:
                f.write(b"{not json" if kind == "badjson" else json.dumps(tree).encode())
            with gzip.open(dst, "wb") as gz:
                with tarfile.open(None, "w", fileobj=gz, format=tarfile.PAX_FORMAT, pax_headers={'bob-archive-vsn': "1"}) as t:
                    t.add(a, "meta/other" if kind == "noaudit" else "meta/audit.json.gz")
        readable = audit_readable(dst)
        before = all_files(ex.root)
        exprs = gen_exprs(r)
        op = r.choice([["scan"], ["find", exprs, False], ["clean", exprs, False, False, False], ["clean", exprs, False, True, False]])
        status, k, out = run_bob(ex.root, ex.argv(op))
        after = all_files(ex.root)
        res.append({"malformed": kind, "op": op[0], "status": status, "kind": k, "deleted": sorted(set(before) - set(after)),
                    "subseed": subseed, "bad": rel_path(bid), "readable": readable})
    except Exception as e:  # noqa
        import traceback
        res.append({"error": "".join(traceback.format_exception(type(e), e, e.__traceback__))[-2000:]})
    finally:
        shutil.rmtree(base, ignore_errors=True)
    return res


# ------------------------------------------------------------------ oracle / correspondence

# the streams stop when less than this share of the time budget is left (the rest is needed by the later streams)
T_HIST, T_MALFORMED, T_QUERY = 0.47, 0.37, 0.17
# generated histories that run in any case (besides the fixed scripts), per kind
MIN_LATE, MIN_HIST, MIN_ODD, MIN_BLOCK = 10, 10, 2, 2

_STATE = {"traces": [], "queries": [], "shrunk": set()}


def run_sliced(ctx, fn, items, reserve, label, handle, always_first=False):
    """map fn over items in forked workers, in slices sized to take a few seconds each (whatever the machine load is),
    until less than the share `reserve` of the budget is left.  With `always_first` the first slice runs in any case
    (on an overloaded machine the build and the audit may have used up the budget already; the fixed scripts still run)."""
    import time
    pos, size = 0, 8
    _DEADLINE[0] = ctx.t_run0 + ctx.budget * (1.0 - reserve) + 0.04 * ctx.budget
    if always_first:
        _DEADLINE[0] = max(_DEADLINE[0], time.time() + 0.1 * ctx.budget)
    try:
        while pos < len(items) and (ctx.time_left() > reserve * ctx.budget or (always_first and pos == 0)):
            t = time.time()
            for res in ctx.parallel(fn, items[pos:pos + size]):
                handle(res)
            pos += size
            per = max(1e-3, (time.time() - t) / size)
            size = max(8, min(96, int(6.0 / per)))
    finally:
        _DEADLINE[0] = None
    if pos < len(items):
        ctx.skip("%s: %d of %d not run (time budget)" % (label, len(items) - pos, len(items)))


def _report(ctx, res):
    """turn the findings of one history into violations (with the shrunk script as the replay case)"""
    seen = set()
    fixed = res["kind"] == "script" and not str(res["subseed"]).startswith(("late-", "block-"))
    for f in res["findings"]:
        if f["signature"] in seen:
            continue
        seen.add(f["signature"])
        script = res["script"]
        if f["signature"] not in _STATE["shrunk"] and len(_STATE["shrunk"]) < 3 and not fixed and ctx.time_left() > 0.4 * ctx.budget:
            # first occurrence of this failure class: minimise the history
            _STATE["shrunk"].add(f["signature"])
            script = shrink(script, f["signature"], os.path.join(ctx.tmp, "shrink-%d" % len(_STATE["shrunk"])), budget=12)
        elif fixed:
            _STATE["shrunk"].add(f["signature"])
        ctx.violation(f["what"], {"kind": "script", "script": script, "history": describe(script), "signature": f["signature"],
                                  "found_by": {"stream": res["kind"], "subseed": res["subseed"]}}, f["signature"])


def oracle(ctx):
    mandatory = []
    for name, s in fixed_scripts():
        mandatory.append(("script", name, os.path.join(ctx.tmp, "fixed-" + name), s))
    n_hist = ctx.scale(500, 3000)
    n_odd = ctx.scale(100, 600)
    n_block = ctx.scale(100, 600)
    n_late = ctx.scale(150, 1200)
    hist = [("hist", ctx.subrng("hist", k).getrandbits(64), os.path.join(ctx.tmp, "h%d" % k), None) for k in range(n_hist)]
    odd = [("odd", ctx.subrng("odd", k).getrandbits(64), os.path.join(ctx.tmp, "o%d" % k), None) for k in range(n_odd)]
    block = [("script", "block-%d" % k, os.path.join(ctx.tmp, "b%d" % k),
              gen_block_script(random.Random(ctx.subrng("block", k).getrandbits(64)))) for k in range(n_block)]
    late = [("script", "late-%d" % k, os.path.join(ctx.tmp, "l%d" % k),
             gen_late_script(random.Random(ctx.subrng("late", k).getrandbits(64)))) for k in range(n_late)]
    # the fixed scripts and a minimum of generated histories of every kind run whatever the machine load is
    mandatory += late[:MIN_LATE] + hist[:MIN_HIST] + odd[:MIN_ODD] + block[:MIN_BLOCK]
    late, hist, odd, block = late[MIN_LATE:], hist[MIN_HIST:], odd[MIN_ODD:], block[MIN_BLOCK:]
    items = []
    # interleaved, so that a run that is cut short by the time budget has seen every kind
    while hist or odd or block or late:
        items.extend(hist[:4])
        items.extend(late[:2])
        items.extend(odd[:1])
        items.extend(block[:1])
        hist, late, odd, block = hist[4:], late[2:], odd[1:], block[1:]

    def handle_history(res):
        if res["error"]:
            raise RuntimeError("history worker failed: " + res["error"])
        _report(ctx, res)
        for tr in res["traces"]:
            op = tr["op"]
            nontrivial = bool(tr["pre_files"] or tr["pre_rows"])
            ctx.case(("cmd", op, [(f["bid"], f["audit"]) for f in tr["pre_files"]], sorted(tr["pre_rows"])), nontrivial=nontrivial,
                     sample={"cmd": " ".join(argv_of(op)[1:]), "files_before": len(tr["pre_files"]),
                             "index_rows_before": len(tr["pre_rows"]), "status": tr["status"], "kind": tr["kind"],
                             "files_after": len(tr["post_files"])})
            ctx.count("command", op[0] + (" -n" if op[0] != "scan" and op[2] else "") + (" --dry-run" if op[0] == "clean" and op[3] else ""))
            ctx.count("outcome", tr["status"] if tr["status"] == "ok" else "%s:%s" % (tr["status"], tr["kind"]))
            stale = [b for b in tr["pre_rows"] if b not in {f["bid"] for f in tr["pre_files"]}]
            ctx.count("index_before", "empty" if not tr["pre_rows"] else ("stale-rows" if stale else "warm"))
        for f in res["findings"]:
            ctx.count("oracle_findings", f["signature"])
        for tr in res["traces"]:
            tr.pop("pre_all", None)
            tr.pop("post_all", None)
        _STATE["traces"].append((res["kind"], res["subseed"], res["script"], res["traces"]))
    for res in ctx.parallel(history_worker, mandatory):      # no deadline
        handle_history(res)
    ctx.notes["mandatory_histories"] = len(mandatory)
    ctx.notes["mandatory_s"] = round(ctx.budget - ctx.time_left(), 1)
    run_sliced(ctx, history_worker, items, T_HIST, "oracle: histories", handle_history)
    # malformed artifacts
    mitems = [(ctx.subrng("malformed", k).getrandbits(64), os.path.join(ctx.tmp, "m%d" % k)) for k in range(ctx.scale(48, 800))]

    def handle_malformed(rs):
        for m in rs:
            if "error" in m:
                raise RuntimeError("malformed worker failed: " + m["error"])
            ctx.case(("malformed", m["subseed"]))
            ctx.count("malformed", "%s/%s -> %s" % (m["malformed"], m["op"], m["status"] if m["status"] == "ok" else m["status"] + ":" + str(m["kind"])[:24]))
            if m["status"] == "internal":
                # a crash on an unreadable artifact is outside this property (nothing may be deleted, which is checked below)
                ctx.count("malformed_uncaught_exception", "%s: %s" % (m["malformed"], str(m["kind"])[:60]))
            if m["status"] != "ok" and m["deleted"]:
                ctx.violation("failed command deleted %s" % m["deleted"], {"kind": "malformed", "subseed": m["subseed"]},
                              "failed-command-deletes-files")
            ctx.count("malformed_audit", "%s: %s" % (m["malformed"], "audit trail still readable" if m["readable"] else "no audit trail obtainable"))
            if m["bad"] in m["deleted"] and not m["readable"]:
                ctx.violation("unreadable artifact %s was deleted" % m["bad"], {"kind": "malformed", "subseed": m["subseed"]},
                              "unreadable-artifact-deleted")
    run_sliced(ctx, malformed_worker, mitems, T_MALFORMED, "oracle: malformed artifacts", handle_malformed)
    # query() on stub scanners
    qitems = [(ctx.subrng("query", k).getrandbits(64), 25) for k in range(ctx.scale(400, 4000))]

    def handle_query(batch):
        for c in batch:
            ctx.case(("query", c["rows"], [e["text"] for e in c["exprs"]]), nontrivial=bool(c["rows"]))
            ctx.count("query_outcome", c["got"][0] if c["got"][0] == "ok" else "err:" + str(c["got"][1]))
            bad = check_query_case(c)
            if bad:
                ctx.violation(bad[0], {"kind": "query", "rows": c["rows"], "exprs": c["exprs"]}, bad[1])
        _STATE["queries"].append(batch)
    run_sliced(ctx, query_worker, qitems, T_QUERY, "oracle: query() batches", handle_query, always_first=True)


def model_request(tr, repaired):
    op = tr["op"]
    req = {"op": op[0], "repaired": repaired, "files": tr["pre_files"],
           "rows": [{"bid": b, "stat": st, "vars": v} for b, (st, v) in sorted(tr["pre_rows"].items())],
           "refs": [list(x) for x in tr["pre_refs"]], "exprs": []}
    if op[0] != "scan":
        req["exprs"] = [lean_expr(e) for e in op[1]]
        req["noscan"] = bool(op[2])
        req["dry"] = bool(op[3]) if op[0] == "clean" else False
    return req


def compare_trace(tr, m):
    """None if the model's reply equals what the implementation did, else (relation, impl, model)"""
    op = tr["op"]
    if "error" in m:
        return ("driver", tr["status"], m)
    # outcome
    mo = m["out"]
    if tr["status"] == "ok":
        if "ok" not in mo:
            return ("outcome", "ok", mo)
        if op[0] == "find":
            listed = parse_paths(tr["out"], "\t")
            if listed != mo["ok"]:
                return ("find output", listed, mo["ok"])
        elif op[0] == "clean" and op[3]:
            listed = parse_paths(tr["out"])
            if (listed != mo["ok"]) if tr["order_sorted"] else (sorted(listed) != sorted(mo["ok"])):
                return ("dry-run output", listed, mo["ok"])
        elif op[0] == "clean" and op[4]:
            pass
    elif tr["status"] == "err":
        want = {"qerr": tr["kind"]} if tr["kind"] != "delerr" else None
        if tr["kind"] == "delerr":
            if "delerr" not in mo:
                return ("outcome", "delerr", mo)
        elif mo != want:
            return ("outcome", want, mo)
    else:
        return ("outcome", [tr["status"], tr["kind"]], mo)
    if sorted(tr["post_files"]) != sorted(m["files"]):
        return ("remaining artifact files", sorted(tr["post_files"]), sorted(m["files"]))
    irows = [[b, st, v] for b, (st, v) in sorted(tr["post_rows"].items())]
    mrows = [[x["bid"], x["stat"], x["vars"]] for x in m["rows"]]
    if irows != mrows:
        return ("index rows", irows, mrows)
    irefs = sorted(list(x) for x in tr["post_refs"])
    mrefs = sorted(m["refs"])
    if irefs != mrefs:
        return ("index refs", irefs, mrefs)
    return None


def correspond(ctx):
    model = scan_model()
    repaired = model == "repaired"
    ctx.notes["scan_model"] = model
    # (1) every command executed by the oracle stream, from its real pre-state
    reqs, trs = [], []
    for kind, subseed, script, traces in _STATE["traces"]:
        for tr in traces:
            if tr["status"] == "err" and tr["kind"] in ("parse", "badLimit", "unreadable"):
                continue
            if tr["status"] in ("exit",):
                continue
            reqs.append(model_request(tr, repaired))
            trs.append((kind, subseed, script, tr))
    if reqs:
        out = []
        for pos in range(0, len(reqs), 2000):
            out.extend(ctx.lean(DRIVER, reqs[pos:pos + 2000]))
        for (kind, subseed, script, tr), m in zip(trs, out):
            if not tr["order_sorted"]:
                ctx.skip("SQLite does not enumerate the files table in build-id order: tie cases are not compared exactly")
                continue
            d = compare_trace(tr, m)
            ctx.count("corr_command", tr["op"][0] + ":" + ("ok" if d is None else "DIFF " + d[0]))
            if d is not None:
                ctx.disagree("bob archive %s == Model.ArchiveIndex.%sCmd (%s)" % (tr["op"][0], tr["op"][0], d[0]),
                             {"kind": "script", "script": script, "upto": tr["step"], "history": describe(script) if script else None,
                              "cmd": argv_of(tr["op"])}, d[1], d[2])
        ctx.trace_validated(len(reqs))
    # (2) query() on stub scanners: exact comparison, the model gets the iteration order
    reqs, cs = [], []
    for batch in _STATE["queries"]:
        for c in batch:
            if c["got"][0] == "err" and c["got"][1] in ("parse", "badLimit"):
                continue
            reqs.append({"op": "query", "exprs": [lean_expr(e) for e in c["exprs"]],
                         "rows": [{"bid": b, "vars": norm_val(v)} for b, v in c["rows"]]})
            cs.append(c)
    if reqs:
        out = []
        for pos in range(0, len(reqs), 5000):
            out.extend(ctx.lean(DRIVER, reqs[pos:pos + 5000]))
        for c, m in zip(cs, out):
            got = c["got"]
            mm = ("ok", m["ok"]) if "ok" in m else ("err", m.get("qerr", m.get("error")))
            ctx.count("corr_query", mm[0] if mm[0] == "ok" else "err:" + str(mm[1]))
            if (got[0], got[1]) != mm:
                ctx.disagree("cmds.archive.query == Model.Retention.query", {"kind": "query", "rows": c["rows"], "exprs": c["exprs"]},
                             list(got), list(mm))
        ctx.trace_validated(len(reqs))
    # (3) the two-artifact witness of Props/C19.lean (scanCurrent is not index independent) on the implementation is the
    #     fixed script "vanished-limit" of the oracle stream; nothing more to do here.


def replay(ctx, case):
    k = case.get("kind")
    if k == "script":
        base = os.path.join(ctx.tmp, "replay")
        ex = Exec(case["script"], base).run()
        want = case.get("signature")
        for f in ex.findings:
            if want is None or f["signature"] == want:
                ctx.violation(f["what"], case, f["signature"])
    elif k == "query":
        from bob.cmds.archive import query
        from bob.errors import BobError
        try:
            got = ("ok", sorted(b.hex() for b in query(StubScanner([tuple(x) for x in case["rows"]]), [e["text"] for e in case["exprs"]])))
        except BobError as e:
            got = ("err", err_kind(e))
        except Exception as e:  # noqa
            got = ("internal", "%s: %s" % (type(e).__name__, e))
        bad = check_query_case({"rows": [tuple(x) for x in case["rows"]], "exprs": case["exprs"], "got": got})
        if bad:
            ctx.violation(bad[0], case, bad[1])
    elif k == "malformed":
        for m in malformed_worker((case["subseed"], os.path.join(ctx.tmp, "replay-m"))):
            if (m.get("status") != "ok" and m.get("deleted")) or (m.get("bad") in m.get("deleted", []) and not m.get("readable")):
                ctx.violation("unreadable artifact handling: %s" % m, case)


MANIFEST = {
    "text": "Proved in Lean for all inputs (Props/C19.lean) about a hand-written model of cmds/archive.py: the LIMIT queue keeps "
            "exactly min(limit, #matching) artifacts and every retained one ranks at least as high as every dropped one (missing "
            "sort field last); without LIMIT retained = matching; the closure loop terminates within its fuel and computes exactly "
            "the least reference-closed superset of the directly retained set; the delete list is index minus kept; --dry-run "
            "changes nothing; find lists exactly the directly retained ones; for the repaired scanner the index after scan is a "
            "function of the files present (any previous index, given StatChanges), hence clean is index independent; for the "
            "scanner as it is, a two-artifact witness shows the dependence (finding F-C19-1). The model is tied to the current "
            "source by replaying every command of generated histories on real file archives (real tgz artifacts, real sqlite "
            "index, real `bob archive` command functions) through the model from the real pre-state and comparing output, remaining "
            "files, index rows and refs, plus thousands of query() calls on stub scanners. An independent Python evaluator of the "
            "documented expression language with naive top-k and BFS closure on the files actually present, and fresh-index vs "
            "warm/stale-index runs, are the property oracle.",
    "note": "trusted: Lean kernel, harness/props/c19.py, sqlite3 (table enumeration order is checked at run time), tarfile/gzip/json/pickle "
            "and Audit.fromByteStream (reading an artifact is outside the model; vars and references are compared with independently "
            "computed values), pyparsing text->AST",
    "technique": "Lean 4 proof over hand-written model + differential correspondence on real file archives + naive spec oracle and fresh-vs-stale index runs",
}
