"""C15 - shared package store is safe under concurrent projects.

oracle:      the property's clauses evaluated on the real store while real processes (forked, running
             LocalShare.{install,use}SharedPackage / gc and LocalBuilder._{use,install}SharedPackage) are
             driven through drawn interleavings, stopped at the lock / rename / symlink cut points:
               visible => complete and hash-matching (every stop), at most one install per Build-Id,
               recorded size = sum of installed, automatic gc removes only unused, oldest first, until the
               quota is met, never collected while a workspace links to it (unless forced), no operation
               fails or reports corruption because of concurrency or an empty store.
             Plus directed interleavings (the Lean witnesses) and, in the thorough tier, free-running
             multi-process stress with timing independent invariants only.
correspond:  the same executions (every segment, every intermediate snapshot) against Model/Share.lean.
"""
import json
import os
import shutil
import subprocess
import sys
import time

DRIVER = "drv_c15"
RULE = ("a case is a fresh store plus 3..8 rounds; a round is 1..3 real processes of distinct projects, each running one "
        "operation (builder-level use/install with symlink creation, share-level use/install incl. wrong hash / missing "
        "audit / non-reproducible content, gc with all flag combinations and quotas None/0/small/large given as int or "
        "string, project removal), either sequentially (free running) or under a drawn interleaving of their cut "
        "points. Distinct = (round programs, schedule, store state before); non-trivial = the round changed the store, "
        "blocked on a lock or ended in an error. Every segment of every schedule is one evaluation.")
ASSUMPTIONS = ["POSIX: rename/mkdir atomic, flock is a reader/writer lock on the open file description, a text file written "
               "through a buffered Python file object reaches the file at flush/close",
               "code between two cut points that touches shared state only under a lock it holds is atomic "
               "(the per-package flock is implicit in the model)",
               "BobState's record of a shared workspace and the workspace symlink agree (one map in the model)",
               "directory hash H is a parameter; CopyMachine hard-link bookkeeping, Windows placeholder files, NFS locking "
               "and quota string parsing are outside the Lean model (quota strings are checked by the harness only)"]

BIDS = [1, 2, 3, 4]
WSS = [0, 1, 2, 3, 4, 5]
QUOTAS = [(None, None), (0, 0), (20, 20), ("35", 35), (60, 60), ("1K", 1024), (45, 45)]

# signatures of the defects found on the tree before the fixes (1-4: fixed, guarded by the directed cases; 5: known finding)
FOUND_SIGS = ("gc-on-empty-store-filenotfound", "json-read-in-unlock-before-flush-window",
              "repo-json-read-in-creation-window", "collected-while-linked:lost-race-install-left-user-unrecorded",
              "gc-between-share-return-and-link")


def _sw():
    from gen import shareworld
    return shareworld


# ---------------------------------------------------------------------- running rounds on the implementation

def prep_proc(world, d):
    """materialise the inputs of a process (before the round starts)"""
    p = d.get("prep")
    if not p:
        return
    if "make_local" in p:
        world.make_local(d["ws"], p["make_local"])
    elif "src" in p:
        ws = world.new_src(p["src"], p.get("audit", True))
        assert ws == d["ws"], (ws, d["ws"])
    for c in p.get("hashes", []):
        world.hash(c)


def all_wss(world, procs):
    w = set(WSS)
    for d in procs:
        if "ws" in d:
            w.add(d["ws"])
    return sorted(w)


def run_round(world, rnd, rng=None, wss=None):
    """execute one round; returns the trace.  rnd = {"procs":[..], "mode":"free"|"sched", "schedule":[pids]|None,
    "script": [(pid, until)]|None}"""
    sw = _sw()
    procs = rnd["procs"]
    for d in procs:
        prep_proc(world, d)
    wss = sorted(set(wss or WSS) | set(all_wss(world, procs)))
    world.normalise_mtimes()
    pre = world.snapshot(BIDS, wss)
    trace = {"pre": pre, "procs": procs, "mode": rnd["mode"], "steps": [], "wss": wss, "schedule": []}
    if rnd["mode"] == "free":
        for i, d in enumerate(procs):
            ch = sw.Child(world, d, free=True)
            ev = ch.go(120.0)
            if ev["ev"] != "done":
                ch.kill()
                trace["hang"] = ev["ev"]
                break
            world.normalise_mtimes()
            trace["steps"].append({"p": i, "ev": ev, "snap": world.snapshot(BIDS, wss), "free": True})
            trace["schedule"].append(i)
        trace["post"] = trace["steps"][-1]["snap"] if trace["steps"] else pre
        return trace
    children = [sw.Child(world, d) for d in procs]
    try:
        fixed = list(rnd["schedule"]) if rnd.get("schedule") is not None else None
        script = list(rnd["script"]) if rnd.get("script") else None
        nblocked = 0
        while any(not c.done for c in children) and len(trace["steps"]) < 600:
            alive = [i for i, c in enumerate(children) if not c.done]
            if fixed is not None:
                if not fixed:
                    break
                p = fixed.pop(0)
                if children[p].done:
                    continue
            elif script:
                p, until = script[0]
                c = children[p]
                if c.done or (until != "done" and c.where.get("kind") == until[0]
                              and (len(until) < 2 or c.where.get("file") == until[1])
                              and (len(until) < 3 or c.where.get("mode") == until[2])):
                    script.pop(0)
                    continue
            elif rng is not None:
                p = rng.choice(alive)
            else:
                p = alive[0]
            ev = children[p].go()
            if ev["ev"] in ("hang", "died"):
                trace["hang"] = ev["ev"]
                break
            nblocked = nblocked + 1 if ev["ev"] == "blocked" else 0
            world.normalise_mtimes()
            trace["steps"].append({"p": p, "ev": ev, "snap": world.snapshot(BIDS, wss)})
            trace["schedule"].append(p)
            if nblocked > 40:
                trace["hang"] = "deadlock"
                break
    finally:
        for c in children:
            c.kill()
    trace["post"] = trace["steps"][-1]["snap"] if trace["steps"] else pre
    trace["complete"] = all(c.result is not None for c in children)
    return trace


# ---------------------------------------------------------------------- the property, evaluated on a trace

class OCtx:
    """what the oracle remembers across the rounds of one case"""
    def __init__(self):
        self.age = {}            # bid -> logical time of the last successful install / use
        self.now = 0
        self.origin = {}         # ws -> how its current link came about
        self.last_users = {}     # bid -> users of the last valid pkg.json seen
        self.stale = set()       # workspaces whose link refers to an incarnation of a package that was collected
        self.poisoned = False    # an operation failed after publishing: accounting is a consequence, not reported again
        self.out = []            # (what, signature)


def _used_by(snap, wss, b, stale=()):
    return [w for w, l in zip(wss, snap["links"]) if l == b and w not in stale]


def _present(snap):
    return {b for b, d in zip(BIDS, snap["final"]) if d is not None}


def check_snapshot(o, snap, quiescent):
    for b, d in zip(BIDS, snap["final"]):
        if d is None:
            continue
        if not d["audit"] or d["ws"] is None or d["info"] is None:
            o.out.append(("package %d is visible at its final path but incomplete: %r" % (b, d), "visible-incomplete"))
        elif isinstance(d["info"], dict):
            if d["info"]["hash_hex"] != d["ws_hash"]:
                o.out.append(("package %d is visible but its content hash %s differs from the recorded hash %s"
                              % (b, d["ws_hash"], d["info"]["hash_hex"]), "visible-hash-mismatch"))
            o.last_users[b] = list(d["info"]["users"])
        elif quiescent:
            o.out.append(("pkg.json of package %d is not valid JSON in a quiescent store" % b, "quiescent-torn-pkg-json"))
    if quiescent:
        if snap["repo"] == "torn":
            o.out.append(("repo.json is not valid JSON in a quiescent store", "quiescent-torn-repo-json"))
        if snap["leftover"]:
            o.out.append(("temporary directories left in the store: %r" % snap["leftover"], "leftover-temp-dir"))


def _expected_input_error(d, kind):
    if d["op"] == "install" and not d.get("link"):
        if kind == "hashChanged" and d["claimed"] != d["dst"]:
            return True
        if kind == "installOSError" and not d.get("hasAudit", True):
            return True
    return False


def check_round(o, tr):
    procs, steps, wss = tr["procs"], tr["steps"], tr["wss"]
    n = len(procs)
    where = [{"kind": "start"} for _ in procs]       # last reported stop of each process
    prev_where = [None] * n
    share_ret = [None] * n                            # step index at which the process had left the share call
    gc_lock = [None] * n                              # step index at which a gc process got the repository lock
    torn_cause = [None] * n
    collect_step = {}
    collected_by = {}
    link_step = {}
    snap = tr["pre"]
    check_snapshot(o, snap, True)
    pre_present = _present(tr["pre"])
    failed_hard = False
    for si, st in enumerate(steps):
        p, ev, after = st["p"], st["ev"], st["snap"]
        d = procs[p]
        w = where[p]
        before = snap
        # ---- a lock acquisition: remember what the reader is about to see
        if w.get("kind") == "lock" and ev["ev"] != "blocked":
            f = w.get("file")
            torn = (before["repo"] == "torn") if f == "repo.json" else \
                (w.get("at") in BIDS and before["final"][BIDS.index(w["at"])] is not None
                 and before["final"][BIDS.index(w["at"])]["info"] == "torn")
            if torn:
                cause = "unknown"
                for q in range(n):
                    if q == p:
                        continue
                    wq = where[q]
                    if wq.get("kind") == "unlocked" and wq.get("file") == f and wq.get("at") == w.get("at"):
                        cause = "flush"
                    elif f == "repo.json" and wq.get("kind") == "lock" and wq.get("file") == f \
                            and prev_where[q] and prev_where[q].get("kind") == "open" and prev_where[q].get("mode") == "x":
                        cause = "create"
                torn_cause[p] = (f, cause)
            if f == "repo.json" and w.get("mode") == "ex" and (d["op"] == "gc" or d["op"] == "install"):
                gc_lock[p] = si
        # ---- lock protocol (mechanism of the property): pkg.json is only touched under the repository lock
        if ev["ev"] == "stop":
            held = {tuple(h) for h in ev.get("held", [])}
            if ev["kind"] == "open" and ev["file"] == "pkg.json":
                need = ("repo.json", "ex") if ev["mode"] == "r" else None
                if ev["mode"] == "r" and need not in held:
                    o.out.append(("gc scans package %s without holding the repository lock exclusively (held: %r)"
                                  % (ev.get("at"), sorted(held)), "lock-protocol:gc-scan-without-exclusive-repo-lock"))
                if ev["mode"] == "r+" and not any(h[0] == "repo.json" for h in held):
                    o.out.append(("use touches pkg.json of %s without holding the repository lock" % ev.get("at"),
                                  "lock-protocol:use-without-repo-lock"))
            if ev["kind"] == "rename" and ev["file"] == "collect" and ("repo.json", "ex") not in held:
                o.out.append(("gc moves package %s without holding the repository lock exclusively (held: %r)"
                              % (ev.get("at"), sorted(held)), "lock-protocol:gc-move-without-exclusive-repo-lock"))
        # ---- a package disappeared in this segment: it was collected by p
        for b in sorted(_present(before) - _present(after)):
            collect_step[b] = si
            collected_by[b] = p
            forced = d["op"] == "gc" and d["pruneUsed"]
            users = _used_by(before, wss, b, o.stale)
            o.stale.update(_used_by(before, wss, b))
            if users and not forced:
                bd = before["final"][BIDS.index(b)]
                rec = bd["info"]["users"] if isinstance(bd["info"], dict) else o.last_users.get(b, [])
                for u in users:
                    if u not in rec:
                        org = o.origin.get(u, "unknown")
                        sig = "collected-while-linked:lost-race-install-left-user-unrecorded" if org == "install-lost-race" \
                            else "collected-while-linked:unrecorded-user:" + org
                        o.out.append(("package %d was collected by a non-forced gc while workspace %d links to it; the "
                                      "workspace is not recorded in pkg.json users %r (link created by: %s)"
                                      % (b, u, rec, org), sig))
                    else:
                        lp = next((q for q in range(n) if procs[q].get("ws") == u and procs[q].get("link")), None)
                        # the link is never created under a lock: an install hands its package out without one, a use
                        # has recorded the user under the shared lock strictly before this gc got the exclusive lock
                        ok_window = lp is not None and gc_lock[p] is not None and gc_lock[p] <= link_step.get(u, -1) \
                            and (procs[lp]["op"] == "install" or (share_ret[lp] is not None and share_ret[lp] < gc_lock[p]))
                        sig = "gc-between-share-return-and-link" if ok_window else "collected-while-linked:recorded-user"
                        o.out.append(("package %d was collected by a non-forced gc while the recorded workspace %d links "
                                      "to it" % (b, u), sig))
        # ---- a link appeared in this segment
        for wi, u in enumerate(wss):
            lb, la = before["links"][wi], after["links"][wi]
            if la != lb:
                o.stale.discard(u)
            if la is not None and la != lb:
                link_step[u] = si
                if d["op"] == "install":
                    o.origin[u] = "install-true" if _true_install(tr, p, si) else "install-lost-race"
                else:
                    o.origin[u] = "use"
                if la in BIDS and after["final"][BIDS.index(la)] is None:
                    # dangling from birth: the link refers to the collected incarnation.  If the Build-Id is installed
                    # again later the path resolves, but this workspace is no user of the new package (consequence of
                    # the violation reported here, not a new one)
                    o.stale.add(u)
                    cs = collect_step.get(la)
                    cb = collected_by.get(la)
                    forced = cb is not None and procs[cb]["op"] == "gc" and procs[cb]["pruneUsed"]
                    if cs is not None and not forced:
                        if cb == p:
                            sig = "install-collected-own-new-package"
                        elif d["op"] == "install":
                            # published / found by an install (no lock is held from there to the link)
                            sig = "gc-between-share-return-and-link"
                        elif share_ret[p] is not None and gc_lock[cb] is not None and share_ret[p] < gc_lock[cb]:
                            sig = "gc-between-share-return-and-link"
                        elif share_ret[p] is not None and share_ret[p] <= cs:
                            sig = "gc-between-share-return-and-link:gc-locked-inside-share-call"
                        else:
                            sig = "link-to-collected-package"
                        o.out.append(("workspace %d was linked to package %d although a non-forced gc of process %d "
                                      "collected it after the share call had returned it: the operation reports "
                                      "success and leaves a dangling workspace" % (u, la, cb), sig))
            if la is None and lb is not None:
                o.origin.pop(u, None)
        # ---- bookkeeping of positions
        if ev["ev"] == "stop":
            prev_where[p] = where[p]
            where[p] = ev
            if ev["kind"] in ("symlink", "unlink") and share_ret[p] is None:
                share_ret[p] = si
        elif ev["ev"] == "done":
            prev_where[p] = where[p]
            where[p] = {"kind": "done"}
            if share_ret[p] is None:
                share_ret[p] = si
            res = ev["res"] or {}
            if d["op"] == "use" and (res.get("r") == "useOk" or res.get("shared")):
                o.stale.discard(d["ws"])
            if res.get("r") in ("useOk", "inst") and not res.get("path_ok", True):
                o.out.append(("share API returned an unexpected path", "unexpected-path"))
            if res.get("r") == "err":
                kind = res["e"]
                if _expected_input_error(d, kind):
                    pass
                elif kind == "fileNotFound" and d["op"] == "gc":
                    o.out.append(("gc raised FileNotFoundError(repo.json): the store directory exists but no package has "
                                  "been recorded yet", "gc-on-empty-store-filenotfound"))
                elif kind in ("jsonDecode", "corruptMeta"):
                    failed_hard = True
                    f, cause = torn_cause[p] or ("?", "free" if st.get("free") else "unknown")
                    opk = d["op"]
                    if cause == "flush" and ((f == "repo.json" and opk in ("install", "gc")) or (f == "pkg.json" and opk == "use")):
                        sig = "json-read-in-unlock-before-flush-window"
                    elif cause == "create" and f == "repo.json" and opk in ("install", "gc"):
                        sig = "repo-json-read-in-creation-window"
                    else:
                        sig = "torn-read:%s:%s:%s" % (opk, f, cause)
                    o.out.append(("%s failed with %s (%s): it read %s while another process had %s" %
                                  (opk, kind, res.get("msg", "")[:80], f,
                                   {"flush": "released the lock but not yet flushed its buffered rewrite",
                                    "create": "created the file with mode 'x' but not yet locked and written it"}.get(cause, cause)), sig))
                elif kind == "typeError" and d["op"] == "gc" and d.get("quota") is None and d["pruneUsed"] and d["pruneUnused"]:
                    failed_hard = True      # outside the property's wording (not caused by concurrency / empty store)
                elif kind == "inspect" and any(l in BIDS and before["final"][BIDS.index(l)] is None
                                               for l in before["links"] if l is not None):
                    failed_hard = True      # a recorded user's link dangles (consequence of an earlier collection)
                else:
                    failed_hard = True
                    o.out.append(("%s failed unexpectedly: %s %s" % (d["op"], kind, res.get("msg", "")[:120]),
                                  "unexpected-failure:%s:%s" % (d["op"], kind)))
        check_snapshot(o, after, False)
        snap = after
    if tr.get("hang"):
        return
    if failed_hard:
        o.poisoned = True
    post = tr["post"]
    check_snapshot(o, post, True)
    post_present = _present(post)
    # at most one successful install per Build-Id: a process reports (path, True) iff its own rename published the package
    for i, d in enumerate(procs):
        res = next((s["ev"]["res"] for s in steps if s["p"] == i and s["ev"]["ev"] == "done"), None) or {}
        if d["op"] == "install" and res.get("r") == "inst":
            pub = _true_install(tr, i, len(steps))
            if pub != bool(res.get("installed")):
                o.out.append(("install of Build-Id %d by process %d returned installed=%s but it %s the package"
                              % (d["bid"], i, res.get("installed"), "published" if pub else "did not publish"), "install-once"))
    # recorded repository size = sum of the installed packages
    if not o.poisoned and post["repo"] != "torn":
        rec = dict(map(tuple, post["repo"])) if post["repo"] != "absent" else {}
        inst = {b: d["info"]["size"] for b, d in zip(BIDS, post["final"]) if d is not None and isinstance(d["info"], dict)}
        if rec != inst:
            o.out.append(("repo.json records %r but the installed packages are %r" % (rec, inst), "accounting-mismatch"))
    # sequential rounds: post conditions of the single operation
    if len(procs) == 1 and steps and steps[-1]["ev"]["ev"] == "done":
        check_sequential(o, tr)
    # ages for "oldest first"
    o.now += 1
    for i, d in enumerate(procs):
        res = next((s["ev"]["res"] for s in steps if s["p"] == i and s["ev"]["ev"] == "done"), None) or {}
        ok = res.get("r") == "useOk" or (res.get("r") == "inst" and res.get("installed")) or \
            (res.get("r") == "shared" and (d["op"] == "install" or res.get("shared")))
        if ok and d.get("bid") in post_present:
            if d["op"] == "install" and d.get("link") and d["bid"] in pre_present:
                continue        # lost race / already there: pkg.json is not touched
            o.age[d["bid"]] = o.now


def _true_install(tr, p, si):
    """did process p publish its package (a package appeared at its final path in one of p's segments)?"""
    snap = tr["pre"]
    b = tr["procs"][p].get("bid")
    for s in tr["steps"][:si + 1]:
        if s["p"] == p and b in BIDS and snap["final"][BIDS.index(b)] is None and s["snap"]["final"][BIDS.index(b)] is not None:
            return True
        snap = s["snap"]
    return False


def check_sequential(o, tr):
    d = tr["procs"][0]
    pre, post, wss = tr["pre"], tr["post"], tr["wss"]
    res = tr["steps"][-1]["ev"]["res"] or {}
    removed_rep = tr["steps"][-1]["ev"].get("removed", [])
    pre_p, post_p = _present(pre), _present(post)
    if res.get("r") == "inst" and d["bid"] not in post_p:
        o.out.append(("installSharedPackage returned (path, %s) but package %d is not visible afterwards"
                      % (res.get("installed"), d["bid"]), "install-returned-but-package-missing"))
    if res.get("r") == "useOk":
        fd = post["final"][BIDS.index(d["bid"])]
        if fd is None or not isinstance(fd["info"], dict) or fd["info"]["hash"] != res.get("hash"):
            o.out.append(("useSharedPackage returned hash %r for package %d which is %r" % (res.get("hash"), d["bid"], fd),
                          "use-result-mismatch"))
        elif d["ws"] not in fd["info"]["users"]:
            o.out.append(("useSharedPackage succeeded but workspace %d is not recorded in users %r"
                          % (d["ws"], fd["info"]["users"]), "use-did-not-record-user"))
    if res.get("r") == "shared" and res.get("shared") and d["op"] == "use":
        fd = post["final"][BIDS.index(d["bid"])]
        if fd is not None and isinstance(fd["info"], dict) and d["ws"] not in fd["info"]["users"]:
            o.out.append(("workspace %d shares package %d after a use but is not recorded in users %r"
                          % (d["ws"], d["bid"], fd["info"]["users"]), "use-did-not-record-user"))
    # ---- garbage collection policy
    is_gc = d["op"] == "gc"
    inline = d["op"] == "install" and (res.get("r") in ("inst", "shared")) and d["bid"] not in pre_p and d.get("quota") is not None
    if not (is_gc or inline) or res.get("r") == "err":
        if not is_gc and not inline and (pre_p - post_p):
            o.out.append(("%s removed packages %r" % (d["op"], sorted(pre_p - post_p)), "non-gc-operation-removed-package"))
        return
    removed = pre_p - post_p if is_gc else (pre_p | {d["bid"]}) - post_p
    if is_gc and d["dryRun"]:
        if removed:
            o.out.append(("gc --dry-run removed %r" % sorted(removed), "dry-run-removed-package"))
        return
    if is_gc and set(removed_rep) != removed:
        o.out.append(("gc reported %r but removed %r" % (sorted(removed_rep), sorted(removed)), "gc-report-mismatch"))
    size = {b: (fd["info"]["size"] if isinstance(fd["info"], dict) else 0) for b, fd in zip(BIDS, pre["final"]) if fd is not None}
    newpkg = None
    if inline:
        newpkg = d["bid"]
        size[newpkg] = _sw().content_size(d["dst"])
        if not d.get("autoClean", True):
            if removed:
                o.out.append(("install with autoClean=False removed %r" % sorted(removed), "gc-policy:autoclean-off"))
            return
    total = sum(size.values())
    quota = d.get("quota_n")
    forced = is_gc and d["pruneUsed"]
    if is_gc and res.get("r") == "gcSize" and not o.poisoned:
        want = total - sum(size[b] for b in removed)
        if res["size"] != want:
            o.out.append(("gc returned repository size %d, the remaining packages sum to %d" % (res["size"], want),
                          "gc-returned-size-mismatch"))
    if forced:
        return
    used = {b for b in size if _used_by(pre, wss, b, o.stale)}
    bad = removed & used
    if bad:
        return          # reported by the collect event check with its specific signature
    unrecorded = False
    for b in used:
        fd = pre["final"][BIDS.index(b)]
        if fd is not None and isinstance(fd["info"], dict) and any(u not in fd["info"]["users"] for u in _used_by(pre, wss, b, o.stale)):
            unrecorded = True
    unused = [b for b in size if b not in used and b != newpkg]
    if is_gc and d["pruneUnused"]:
        if removed != set(unused) and not unrecorded:
            o.out.append(("gc --all-unused removed %r, the unused packages are %r" % (sorted(removed), sorted(unused)),
                          "gc-policy:all-unused"))
        return
    if quota is None:
        if removed:
            o.out.append(("gc without quota removed %r" % sorted(removed), "gc-policy:no-quota"))
        return
    ages = [o.age.get(b, 0) for b in unused]
    if unrecorded or len(set(ages)) != len(ages):
        if not removed <= set(unused):
            o.out.append(("automatic gc removed %r which are not all unused" % sorted(removed), "gc-policy:removed-used"))
        return
    want = set()
    t = total
    for b in sorted(unused, key=lambda b: o.age.get(b, 0)):
        if t <= quota:
            break
        want.add(b)
        t -= size[b]
    if removed != want:
        o.out.append(("automatic gc (quota %d, recorded size %d) removed %r; unused packages oldest first are %r, "
                      "expected %r" % (quota, total, sorted(removed), sorted(unused, key=lambda b: o.age.get(b, 0)),
                                       sorted(want)), "gc-policy:oldest-first-until-quota"))


# ---------------------------------------------------------------------- cases

def gen_case_cfg(r):
    cfg = {}
    for w in WSS:
        q = r.choice(QUOTAS)
        cfg[w] = {"quota": q[0], "quota_n": q[1], "autoClean": r.random() < 0.85}
    return cfg


def gen_round(r, cfg, view, nsrc, conc=None):
    """draw the processes of one round from the quiescent state `view` (snapshot over BIDS / WSS)"""
    k = conc if conc is not None else r.choice([1, 1, 1, 2, 2, 2, 3])
    mode = "free" if k == 1 and r.random() < 0.8 else "sched"
    wss = r.sample(WSS, k)
    nb = r.choice([2, 2, 3, 4])
    procs = []
    present = _present(view)
    hot = r.choice(BIDS[:nb])
    for w in wss:
        c = dict(cfg[w])
        link = view["links"][WSS.index(w)]
        x = r.random()
        bid = hot if r.random() < 0.6 else r.choice(BIDS[:nb])
        if x < 0.22:
            d = {"op": "use", "ws": w, "bid": bid, "link": True}
        elif x < 0.44:
            if link is not None:
                d = {"op": "dropws", "ws": w} if r.random() < 0.5 else {"op": "use", "ws": w, "bid": bid, "link": True}
            else:
                content = bid if r.random() < 0.85 else bid + 10
                d = {"op": "install", "ws": w, "bid": bid, "dst": content, "claimed": content,
                     "size": _sw().content_size(content), "hasAudit": True, "link": True, "prep": {"make_local": content}}
        elif x < 0.52:
            d = {"op": "use", "ws": w, "bid": bid, "link": False}
        elif x < 0.68:
            content = bid if r.random() < 0.8 else bid + 10
            claimed = content if r.random() < 0.85 else content + 20
            audit = r.random() < 0.9
            d = {"op": "install", "ws": 100 + nsrc, "bid": bid, "dst": content, "claimed": claimed,
                 "size": _sw().content_size(content), "hasAudit": audit, "link": False,
                 "prep": {"src": content, "audit": audit, "hashes": [claimed]}}
            nsrc += 1
        elif x < 0.92:
            pu, pun, dry = r.random() < 0.2, r.random() < 0.5, r.random() < 0.15
            d = {"op": "gc", "pruneUsed": pu, "pruneUnused": pun, "dryRun": dry}
        else:
            d = {"op": "dropws", "ws": w}
        d.update(c)
        procs.append(d)
    return {"procs": procs, "mode": mode}, nsrc


def exec_case(root, case, rng=None):
    """run a case (given rounds, or generated from `case["gen"]`) on a fresh world; returns traces"""
    sw = _sw()
    import random
    world = sw.World(root)
    traces = []
    if "rounds" in case:
        for rnd in case["rounds"]:
            traces.append(run_round(world, rnd, None))
    else:
        r = random.Random(case["gen"])
        cfg = gen_case_cfg(r)
        nsrc = 0
        view = world.snapshot(BIDS, WSS)
        for _ in range(case["nrounds"]):
            if time.time() > case.get("deadline", float("inf")):
                break
            rnd, nsrc = gen_round(r, cfg, view, nsrc, case.get("conc"))
            tr = run_round(world, rnd, r)
            traces.append(tr)
            if tr.get("hang"):
                break
            view = world.snapshot(BIDS, WSS)
    shutil.rmtree(root, ignore_errors=True)
    return traces


def record_of(traces):
    """a replayable description: concrete programs and schedules"""
    return {"kind": "rounds", "rounds": [{"procs": t["procs"], "mode": t["mode"],
                                          "schedule": t["schedule"] if t["mode"] != "free" else None} for t in traces]}


def judge(traces):
    o = OCtx()
    for t in traces:
        check_round(o, t)
    seen, out = set(), []
    for what, sig in o.out:
        if sig not in seen:
            seen.add(sig)
            out.append((what, sig))
    return out


def _job(args):
    root, case = args
    if time.time() > case.get("deadline", float("inf")):
        return case, [], None
    try:
        traces = exec_case(root, case)
        return case, traces, None
    except Exception as e:  # noqa
        import traceback
        shutil.rmtree(root, ignore_errors=True)
        return case, [], traceback.format_exc()


# ---------------------------------------------------------------------- directed interleavings (the Lean witnesses)

def _inst(ws, bid, link=False, quota=None, content=None, **kw):
    content = bid if content is None else content
    d = {"op": "install", "ws": ws, "bid": bid, "dst": content, "claimed": content, "size": _sw().content_size(content),
         "hasAudit": True, "link": link, "quota": quota, "quota_n": quota, "autoClean": True}
    d["prep"] = {"make_local": content} if link else {"src": content, "audit": True}
    d.update(kw)
    return d


def _use(ws, bid, link=False, quota=None):
    return {"op": "use", "ws": ws, "bid": bid, "link": link, "quota": quota, "quota_n": quota, "autoClean": True}


def _gc(pu=False, pun=True, dry=False, quota=None):
    return {"op": "gc", "pruneUsed": pu, "pruneUnused": pun, "dryRun": dry, "quota": quota, "quota_n": quota, "autoClean": True}


def _drop(ws):
    return {"op": "dropws", "ws": ws, "quota": None, "quota_n": None, "autoClean": True}


def directed_cases():
    S = lambda procs, script: {"procs": procs, "mode": "sched", "script": script}
    F = lambda *procs: {"procs": list(procs), "mode": "free"}
    return [
        # each of the first six cases guards one fix: with the fix reverted its interleaving fails with a specific signature
        # F-C15-1: first install is between makedirs and __addPackage, another project cleans
        ("gc-on-partially-created-store", [S([_inst(100, 1), _gc()], [(0, ("verify",)), (1, "done"), (0, "done")])]),
        # unlock before flush, repo.json: B's __addPackage has released the lock, its text is still buffered
        ("flush-window-repo-json", [F(_inst(100, 1)),
                                    S([_inst(101, 2), _gc()], [(0, ("unlocked", "repo.json")), (1, "done"), (0, "done")])]),
        ("flush-window-repo-json-install", [F(_inst(100, 1)),
                                            S([_inst(101, 2), _inst(102, 3)],
                                              [(1, ("open", "repo.json")), (0, ("unlocked", "repo.json")), (1, "done"), (0, "done")])]),
        # unlock before flush, pkg.json: two projects start to use the same package
        ("flush-window-pkg-json", [F(_inst(100, 1)),
                                   S([_use(0, 1), _use(1, 1)], [(1, ("open", "pkg.json")), (0, ("unlocked", "pkg.json")),
                                                                (1, "done"), (0, "done")])]),
        # creation window of repo.json: the very first two installs
        ("creation-window", [S([_inst(100, 1), _inst(101, 2)],
                               [(0, ("lock", "repo.json")), (1, "done"), (0, "done")])]),
        # first installs into an empty store: the create-if-missing step of __addPackage runs outside the lock, after the
        # other project has created and filled repo.json (all orders of two, one order of three)
        ("first-installs-create-after-fill", [S([_inst(100, 1), _inst(101, 2)],
                                                [(0, ("create", "repo.json")), (1, "done"), (0, "done")])]),
        ("first-installs-create-create-fill", [S([_inst(100, 1), _inst(101, 2)],
                                                 [(0, ("create", "repo.json")), (1, ("create", "repo.json")), (0, "done"),
                                                  (1, "done")])]),
        ("first-installs-three", [S([_inst(100, 1), _inst(101, 2), _inst(102, 3)],
                                    [(0, ("create", "repo.json")), (1, ("create", "repo.json")), (2, "done"), (1, "done"),
                                     (0, "done")]), F(_gc(False, True))]),
        # lost race at install: the loser links the package without being recorded as its user
        ("lost-race-unrecorded-user", [S([_inst(0, 1, True), _inst(1, 1, True)],
                                         [(0, ("verify",)), (1, ("verify",)), (0, "done"), (1, "done")]),
                                       F(_drop(0)), F(_gc())]),
        # F-C15-2: use returned, the workspace link is not created yet, another project cleans
        ("gc-between-use-and-link", [F(_inst(100, 1)),
                                     S([_use(0, 1, True), _gc()], [(0, ("symlink",)), (1, "done"), (0, "done")])]),
        # policy: oldest unused first (age order 3,1,2 differs from size order 12,19,26), stop exactly when the quota is
        # met (31 = 57 - 26, then 19 = 31 - 12); the second use of package 2 by the same workspace only refreshes its mtime
        ("policy-oldest-first-until-quota", [F(_inst(100, 3)), F(_inst(101, 2)), F(_inst(102, 1)), F(_use(3, 2)), F(_use(3, 1)),
                                             F(_use(3, 2)), F(_gc(False, False, True, 31)), F(_gc(False, False, False, 31)),
                                             F(_gc(False, False, False, 19)), F(_use(0, 2, True)), F(_gc(False, True, False, 19))]),
        # automatic gc at the end of an install never removes the package that was just installed
        ("auto-gc-keeps-new-package", [F(_inst(100, 1)), F(_inst(101, 2, False, 0)), F(_use(2, 2, True)),
                                       F(_inst(102, 3, False, 0))]),
        # a result whose hash differs at the destination is rejected and never becomes visible
        ("wrong-hash-install", [S([_inst(100, 1, claimed=21, prep={"src": 1, "audit": True, "hashes": [21]})], [(0, "done")]),
                                F(_inst(101, 1)), F(_inst(102, 2, hasAudit=False, prep={"src": 2, "audit": False}))]),
    ]


# ---------------------------------------------------------------------- end to end: bob clean --shared on an empty store

CLEAN_HELPER = r"""
import sys, os
sys.path.insert(0, sys.argv[1])
os.chdir(sys.argv[2])
if __name__ == "__main__":
    from bob.cmds.build.clean import doClean
    import bob.state
    try:
        doClean(["--shared", "--all-unused"], ".")
        print("RESULT ok")
    except BaseException as e:
        print("RESULT", type(e).__name__, e)
    finally:
        bob.state.finalize()
"""


def end_to_end_empty_store(ctx):
    root = os.path.join(ctx.tmp, "e2e")
    proj = os.path.join(root, "proj")
    store = os.path.join(root, "store")
    os.makedirs(os.path.join(proj, "recipes"))
    os.makedirs(store)
    with open(os.path.join(proj, "config.yaml"), "w") as f:
        f.write("bobMinimumVersion: '0.19'\n")
    with open(os.path.join(proj, "default.yaml"), "w") as f:
        f.write("share:\n  path: %s\n" % json.dumps(store))
    with open(os.path.join(proj, "recipes", "a.yaml"), "w") as f:
        f.write("root: True\nshared: True\npackageScript: 'echo a > a'\n")
    helper = os.path.join(root, "clean_helper.py")
    with open(helper, "w") as f:
        f.write(CLEAN_HELPER)
    try:
        p = subprocess.run([sys.executable, helper, os.path.join(ctx.repo, "pym"), proj], stdout=subprocess.PIPE,
                           stderr=subprocess.STDOUT, timeout=60)
    except subprocess.TimeoutExpired:
        ctx.skip("bob clean --shared end-to-end run timed out")
        return
    out = p.stdout.decode("utf-8", "replace")
    line = next((l for l in out.splitlines() if l.startswith("RESULT")), None)
    ctx.case(("e2e-clean-empty-store",), sample={"cmd": "bob clean --shared --all-unused (empty store)", "result": line})
    if line is None:
        ctx.skip("bob clean --shared end-to-end run gave no result: " + out[-200:])
    elif "FileNotFoundError" in line:
        ctx.violation("`bob clean --shared --all-unused` on an existing but still empty shared location fails: " + line,
                      {"kind": "e2e-empty-store"}, "gc-on-empty-store-filenotfound")
    elif line != "RESULT ok":
        ctx.violation("`bob clean --shared --all-unused` on an empty shared location fails: " + line,
                      {"kind": "e2e-empty-store"}, "clean-shared-empty-store:" + line.split()[1])
    shutil.rmtree(root, ignore_errors=True)


# ---------------------------------------------------------------------- store reached through an alias of its directory

ALIAS_HELPER = r"""
import sys, os, json, shutil
a = json.loads(sys.argv[1])
sys.path.insert(0, a["pym"])
if __name__ == "__main__":
    from bob.share import LocalShare
    from bob.utils import hashDirectory, asHexStr
    out = {}
    try:
        share = LocalShare({"path": a["share"], "quota": a["quota"]})
        if a["op"] == "install":
            # what Builder._installSharedPackage does for a freshly built package
            ws = a["ws"]
            bid = bytes.fromhex(a["bid"])
            h = hashDirectory(ws)
            path, installed = share.installSharedPackage(ws, bid, h, True)
            if not installed:
                path, _ = share.useSharedPackage(ws, bid)
            if path is not None:
                if os.path.lexists(ws):
                    shutil.rmtree(ws)
                os.symlink(os.path.join(path, "workspace"), ws)
            out.update(path=path, installed=installed, hash=asHexStr(h))
        else:
            collected = []
            share.gc(False, True, progress=collected.append)
            out.update(collected=collected)
        c = a.get("check")
        if c:
            out["check"] = asHexStr(hashDirectory(c)) if os.path.isdir(c) else None
        out["ok"] = True
    except BaseException as e:
        out.update(ok=False, exc="%s: %s" % (type(e).__name__, e))
    print("RESULT " + json.dumps(out))
"""

ALIAS_VARIANTS = (("real-then-alias", "store", "alias"), ("alias-then-real", "alias", "store"))


def store_alias_case(ctx, variant):
    """project A installs and links a package through one spelling of the store directory, project B reaches the very same
    store through another spelling (symlink alias) and collects: automatic gc of an install over the quota, then the
    equivalent of `bob clean --shared --all-unused`.  A's package is in use, so neither may remove it."""
    name, via_a, via_b = next(v for v in ALIAS_VARIANTS if v[0] == variant)
    root = os.path.join(ctx.tmp, "alias-" + name)
    shutil.rmtree(root, ignore_errors=True)
    os.makedirs(os.path.join(root, "store"))
    os.symlink(os.path.join(root, "store"), os.path.join(root, "alias"))
    helper = os.path.join(root, "alias_helper.py")
    with open(helper, "w") as f:
        f.write(ALIAS_HELPER)
    case = {"kind": "store-alias", "variant": name}

    def mk(proj, payload):
        base = os.path.join(root, proj, "work", "lib", "dist", "1")
        os.makedirs(os.path.join(base, "workspace"))
        with open(os.path.join(base, "workspace", "data.bin"), "wb") as f:
            f.write(payload)
        with open(os.path.join(base, "audit.json.gz"), "wb"):
            pass
        return os.path.join(base, "workspace")

    def run(**a):
        a.update(pym=os.path.join(ctx.repo, "pym"), quota="4KiB")
        try:
            p = subprocess.run([sys.executable, helper, json.dumps(a)], stdout=subprocess.PIPE, stderr=subprocess.STDOUT,
                               timeout=120)
        except subprocess.TimeoutExpired:
            return None
        line = next((l for l in p.stdout.decode("utf-8", "replace").splitlines() if l.startswith("RESULT ")), None)
        return json.loads(line[7:]) if line else None

    bid_a, bid_b = "aa" * 20, "bb" * 20
    try:
        ws_a = mk("projA", b"A" * 8192)
        ws_b = mk("projB", b"B" * 8192)
        ra = run(op="install", share=os.path.join(root, via_a), ws=ws_a, bid=bid_a)
        if not ra or not ra.get("ok") or not ra.get("installed") or not os.path.islink(ws_a):
            ctx.skip("store alias scenario %s: project A could not install and link its package: %r" % (name, ra))
            return
        pkg_a = os.path.realpath(ra["path"])
        steps = [("automatic gc of an install over the quota", dict(op="install", ws=ws_b, bid=bid_b)),
                 ("gc(pruneUsed=False, pruneUnused=True) (bob clean --shared --all-unused)", dict(op="gc"))]
        for what, a in steps:
            r = run(share=os.path.join(root, via_b), check=ws_a, **a)
            ctx.case(("store-alias", name, a["op"]), sample={"store-alias": name, "step": what, "result": r})
            if r is None:
                ctx.skip("store alias scenario %s: no result from the helper process (%s)" % (name, what))
                return
            if not r.get("ok"):
                ctx.violation("store reached through an alias (%s): %s of project B fails: %s" % (name, what, r.get("exc")),
                              case, "store-alias-op-failed:" + str(r.get("exc")).split(":")[0])
                return
            try:
                with open(os.path.join(root, "store", "repo.json")) as f:
                    listed = bid_a in json.load(f).get("pkgs", {})
            except (OSError, ValueError):
                listed = False
            bad = []
            if not os.path.isdir(os.path.join(pkg_a, "workspace")):
                bad.append("package directory %s is gone" % pkg_a)
            if not listed:
                bad.append("repo.json does not list it any more")
            if r.get("check") is None:
                bad.append("A's workspace link %s -> %s dangles" % (ws_a, os.readlink(ws_a)))
            elif r["check"] != ra["hash"]:
                bad.append("A's workspace has content hash %s instead of %s" % (r["check"], ra["hash"]))
            if r.get("collected"):
                bad.append("gc reported %s as collected" % ", ".join(r["collected"]))
            if bad:
                ctx.violation("package used through an alias of the store collected by another project's gc (%s: A uses "
                              "<tmp>/%s, B uses <tmp>/%s; %s): %s" % (name, via_a, via_b, what, "; ".join(bad)),
                              case, "collected-while-linked:alias")
                return
        ctx.count("directed", "store-alias-" + name)
    finally:
        shutil.rmtree(root, ignore_errors=True)


def quota_parse_check(ctx):
    from bob.share import LocalShare
    table = {"KiB": 1024, "MiB": 1024 ** 2, "GiB": 1024 ** 3, "TiB": 1024 ** 4, "K": 1024, "M": 1024 ** 2, "G": 1024 ** 3,
             "T": 1024 ** 4, "KB": 1000, "MB": 1000 ** 2, "GB": 1000 ** 3, "TB": 1000 ** 4, "": 1}
    r = ctx.subrng("quota")
    for i in range(300):
        n = r.choice([0, 1, 7, 42, 1000, 123456])
        u = r.choice(sorted(table))
        got = LocalShare({"path": "/nonexistent", "quota": "%d%s" % (n, u)}).quota
        ctx.case(("quota", n, u), nontrivial=bool(u))
        if got != n * table[u]:
            ctx.violation("quota %d%s parsed as %r" % (n, u, got), {"kind": "quota", "n": n, "u": u}, "quota-parse")


# ---------------------------------------------------------------------- oracle / correspondence / replay

def _report(ctx, findings, traces, label):
    for what, sig in findings:
        ctx.violation("%s: %s" % (label, what), record_of(traces), sig)


def _count_trace(ctx, traces):
    for t in traces:
        ctx.count("round_mode", "%s/%d" % (t["mode"], len(t["procs"])))
        for d in t["procs"]:
            ctx.count("op", d["op"] + ("+link" if d.get("link") else ""))
        pre = t["pre"]
        for s in t["steps"]:
            ev = s["ev"]
            if ev["ev"] == "done":
                r = ev["res"] or {}
                ctx.count("result", r.get("r", "?") + (":" + r["e"] if r.get("r") == "err" else ""))
            elif ev["ev"] == "blocked":
                ctx.count("result", "blocked")
            key = (t["procs"], t["schedule"][:len(t["steps"])], s["p"], pre["repo"], pre["links"])
            changed = s["snap"] != pre or ev["ev"] == "blocked" or (ev["ev"] == "done" and (ev["res"] or {}).get("r") == "err")
            ctx.case(key, nontrivial=changed)
            pre = s["snap"]
        if t.get("hang"):
            ctx.count("result", "hang:" + str(t["hang"]))


def run_cases(ctx, cases, tag, reserve=0.0):
    """run cases in parallel workers; drawn cases stop at a deadline that keeps the check inside its time budget"""
    # BOB_VERIF_C15_PATIENCE=k (development): k times longer per-batch deadline, to replay the seeded stream of an idle
    # machine on a loaded one
    patience = float(os.environ.get("BOB_VERIF_C15_PATIENCE", "1"))
    dl = time.time() + max(5.0, min(ctx.scale(25.0, 120.0) * patience, ctx.time_left() - reserve))
    for c in cases:
        if "gen" in c:
            c["deadline"] = dl
    items = [(os.path.join(ctx.tmp, "%s-%d" % (tag, i)), c) for i, c in enumerate(cases)]
    return ctx.parallel(_job, items)


def random_cases(ctx, n, tag):
    r = ctx.subrng(tag)
    return [{"gen": "%s-%d-%d-%d" % (tag, ctx.seed, i, r.randrange(1 << 30)), "nrounds": r.randrange(3, 9),
             "conc": r.choice([None, None, 2, 3])} for i in range(n)]


_DIRECTED = []        # executions of the directed cases by the oracle; the correspondence compares the same executions


def oracle(ctx):
    quota_parse_check(ctx)
    # directed interleavings
    dc = directed_cases()
    res = run_cases(ctx, [{"rounds": rounds, "name": name} for name, rounds in dc], "dir")
    del _DIRECTED[:]
    for case, traces, err in res:
        if err:
            raise RuntimeError("directed case %s: %s" % (case.get("name"), err))
        _count_trace(ctx, traces)
        _report(ctx, judge(traces), traces, "directed interleaving " + case["name"])
        ctx.count("directed", case["name"])
        _DIRECTED.append((case, traces, None))
    # mandatory: two projects reaching the same store under different spellings of its path
    for v in ALIAS_VARIANTS:
        store_alias_case(ctx, v[0])
    if ctx.time_left() > ctx.scale(60, 300):
        end_to_end_empty_store(ctx)
    else:
        ctx.skip("bob clean --shared end-to-end run (no time left; the directed interleaving covers the same defect)")
    if len(ctx.samples) < 6:
        ctx.samples.append({"directed": dc[0][0], "rounds": json.loads(json.dumps(dc[0][1]))})
    # drawn cases
    n = ctx.scale(200, 8000)
    done = 0
    while done < n and ctx.time_left() > ctx.scale(85, 950):
        cs = random_cases(ctx, min(32, n - done), "orc%d" % done)
        for case, traces, err in run_cases(ctx, cs, "orc%d" % done, ctx.scale(85, 950)):
            if err:
                raise RuntimeError("case %r: %s" % (case, err))
            _count_trace(ctx, traces)
            _report(ctx, judge(traces), traces, "drawn case %s" % case["gen"])
            if any(t.get("hang") for t in traces):
                ctx.skip("a process did not reach its next cut point in time (machine overloaded?)")
        done += len(cs)
    ctx.notes["oracle_cases"] = done
    if done < n // 4:
        # visible in the evidence: the explored prefix of the seeded stream depends on how fast the machine is
        ctx.skip("only %d of %d drawn oracle cases were explored inside the time budget (machine overloaded?)" % (done, n))
    if ctx.tier == "thorough":
        stress(ctx)


# ---- model side

PC_HOOK = {
    "uOpen": ("open", "repo.json", "r"), "uLockRepo": ("lock", "repo.json", "sh"), "uOpenPkg": ("open", "pkg.json", "r+"),
    "uLockPkg": ("lock", "pkg.json", "ex"), "uClosePkg": ("unlocked", "pkg.json", "r+"), "iVerify": ("verify", None, None),
    "iRename": ("rename", "publish", None), "iAddOpen": ("open", "repo.json", "r+"), "iAddLock": ("lock", "repo.json", "ex"),
    "iAddCreate": ("open", "repo.json", "x"), "iAddTouch": ("create", "repo.json", None), "iAddCreateLock": ("lock", "repo.json", "ex"),
    "iAddClose": ("unlocked", "repo.json", None), "gOpen": ("open", "repo.json", "r+"), "gLock": ("lock", "repo.json", "ex"),
    "gScanOpen": ("open", "pkg.json", "r"), "gScanLock": ("lock", "pkg.json", "sh"), "gMove": ("rename", "collect", None),
    "gClose": ("unlocked", "repo.json", "r+"), "bUnlink": ("unlink", None, None), "bSymlink": ("symlink", None, None),
}


def model_prog(d):
    m = {k: d[k] for k in ("op", "ws", "bid", "link", "dst", "claimed", "size", "hasAudit", "pruneUsed", "pruneUnused", "dryRun")
         if k in d}
    m["quota"] = d.get("quota_n")
    m["autoClean"] = d.get("autoClean", True)
    return m


def model_requests(traces):
    # the driver follows the variant of the code that tools/consts/c15.py found in the current source
    reqs = [{"op": "reset"}]
    for t in traces:
        reqs.append({"op": "procs", "progs": [model_prog(d) for d in t["procs"]]})
        for s in t["steps"]:
            reqs.append({"op": "runp", "p": s["p"], "max": 400} if s.get("free") else {"op": "step", "p": s["p"]})
            reqs.append({"op": "snap", "bids": BIDS, "wss": t["wss"]})
    return reqs


def canon_snap_impl(s):
    fin = []
    for d in s["final"]:
        if d is None:
            fin.append(None)
        else:
            info = d["info"]
            if isinstance(info, dict):
                info = {"hash": info["hash"], "size": info["size"], "users": info["users"]}
            fin.append({"audit": d["audit"], "ws": d["ws"], "info": info})
    order = [b for _, b in sorted((d["mtime"], b) for b, d in zip(BIDS, s["final"]) if d is not None)]
    return {"storeExists": s["storeExists"], "repo": s["repo"], "final": fin, "links": s["links"], "mtime_order": order}


def canon_snap_model(m):
    fin = []
    for d in m["final"]:
        fin.append(None if d is None else {"audit": d["audit"], "ws": d["ws"], "info": d["info"]})
    order = [b for _, b in sorted((d["mtime"], b) for b, d in zip(BIDS, m["final"]) if d is not None)]
    return {"storeExists": m["storeExists"], "repo": m["repo"], "final": fin, "links": m["links"], "mtime_order": order}


def canon_res(r):
    if r is None:
        return None
    return {k: v for k, v in r.items() if k in ("r", "hash", "installed", "size", "shared", "e")}


def compare(ctx, traces, replies, label):
    """step by step comparison; returns number of compared segments"""
    i = 1
    n = 0
    for ti, t in enumerate(traces):
        i += 1
        for si, s in enumerate(t["steps"]):
            mr, ms = replies[i], replies[i + 1]
            i += 2
            n += 1
            ev = s["ev"]
            where = {"case": label, "round": ti, "step": si, "p": s["p"], "procs": t["procs"], "schedule": t["schedule"][:si + 1]}
            if ev["ev"] == "blocked":
                impl_ev = {"blocked": True}
                mod_ev = {"blocked": mr["blocked"]}
            elif ev["ev"] == "done":
                impl_ev = {"blocked": False, "pc": "done", "res": canon_res(ev["res"])}
                mod_ev = {"blocked": mr["blocked"], "pc": mr["pc"], "res": canon_res(mr["res"])}
            else:
                impl_ev = {"blocked": False, "hook": [ev["kind"], ev["file"], ev["mode"]], "at": ev.get("at")}
                hook = list(PC_HOOK.get(mr["pc"], (mr["pc"], None, None)))
                if hook[2] is None:
                    impl_ev["hook"][2] = None
                at = mr["at"] if ev["kind"] in ("rename", "symlink") or ev["file"] == "pkg.json" else None
                impl_ev["at"] = ev.get("at") if at is not None or ev.get("at") is not None and ev["file"] == "pkg.json" else None
                mod_ev = {"blocked": mr["blocked"], "hook": hook, "at": at}
                if ev["kind"] == "verify":
                    impl_ev["at"] = mod_ev["at"] = None
            if impl_ev != mod_ev:
                ctx.disagree("segment outcome (cut point reached / blocked / result) of the real process == Share.step", where,
                             impl_ev, mod_ev)
                return n
            a, b = canon_snap_impl(s["snap"]), canon_snap_model(ms)
            if a != b:
                diff = {k: [a[k], b[k]] for k in a if a[k] != b[k]}
                ctx.disagree("store after the segment (repo.json, packages, pkg.json, mtime order, links) == Share.step",
                             where, {k: v[0] for k, v in diff.items()}, {k: v[1] for k, v in diff.items()})
                return n
    return n


def correspond(ctx):
    cases = [{"rounds": rounds, "name": name} for name, rounds in directed_cases()]
    n = ctx.scale(400, 12000)
    done = 0
    first = True
    while first or (done < n and ctx.time_left() > ctx.scale(22, 150)):
        reuse = [(dict(c, _reused=True), t, e) for c, t, e in _DIRECTED] if first and len(_DIRECTED) == len(cases) else []
        cs = (cases if first and not reuse else []) + (random_cases(ctx, min(32, n - done), "cor%d" % done)
                                                       if ctx.time_left() > ctx.scale(30, 150) else [])
        first = False
        res = reuse + (run_cases(ctx, cs, "cor%d" % done, ctx.scale(22, 150)) if cs else [])
        reqs, spans = [], []
        for case, traces, err in res:
            if err:
                raise RuntimeError("case %r: %s" % (case, err))
            if any(t.get("hang") for t in traces):
                ctx.skip("a process did not reach its next cut point in time (machine overloaded?)")
                continue
            rq = model_requests(traces)
            spans.append((case, traces, len(reqs), len(rq)))
            reqs.extend(rq)
        replies = ctx.lean(DRIVER, reqs)
        for case, traces, a, k in spans:
            nseg = compare(ctx, traces, replies[a:a + k], case.get("gen", case.get("name")))
            ctx.trace_validated(nseg)
            if not case.get("_reused"):
                _count_trace(ctx, traces)
                # the oracle also looks at these executions (it needs no model)
                _report(ctx, judge(traces), traces, "case %s" % case.get("gen", case.get("name")))
        done += len(cs)
    ctx.notes["correspondence_cases"] = done
    select_correspondence(ctx)


def select_correspondence(ctx):
    """gcSelect against `sorted` + the quota loop of LocalShare.gc, driven through the real gc on a prepared store is
    covered by the rounds; here the pure function is compared on many more candidate lists with a python transcription
    of the documented policy only for the non-forced case (oldest unused first until the quota is met)."""
    r = ctx.subrng("select")
    reqs, want = [], []
    for i in range(ctx.scale(1500, 40000)):
        k = r.randrange(0, 7)
        cands = [[True, r.randrange(1, 9), r.randrange(1, 30), b] for b in r.sample(range(1, 20), k)]
        extra = r.randrange(0, 40)
        total = sum(c[2] for c in cands) + extra
        quota = r.choice([None, 0, total, max(0, total - 1), r.randrange(0, total + 5)])
        pun = r.random() < 0.4
        if quota is None and not pun:
            continue
        reqs.append({"op": "select", "quota": quota, "pruneUnused": pun, "cands": cands, "total": total})
        plan, t = [], total
        for c in sorted(cands, key=lambda c: (c[1], c[2], c[3])):
            if not pun and t <= quota:
                break
            plan.append(c[3])
            t -= c[2]
        want.append({"plan": plan, "size": t, "terr": False})
    for q, w, g in zip(reqs, want, ctx.lean(DRIVER, reqs)):
        ctx.case(("select", q["quota"], q["pruneUnused"], q["cands"], q["total"]), nontrivial=bool(q["cands"]))
        if g != w:
            ctx.disagree("documented policy (oldest unused first until quota) == Share.gcSelect", q, w, g)
    ctx.trace_validated(len(reqs))


def stress(ctx):
    """free running processes (no cut points): only timing independent invariants are asserted"""
    sw = _sw()
    r = ctx.subrng("stress")
    for it in range(ctx.scale(0, 150)):
        if ctx.time_left() < 650:
            break
        root = os.path.join(ctx.tmp, "stress-%d" % it)
        world = sw.World(root)
        run_round(world, {"procs": [_inst(100, 1)], "mode": "free"})       # repo.json exists: no creation window
        nsrc = 1
        fails = []
        for wave in range(6):
            procs = []
            for w in r.sample(WSS, 4):
                x = r.random()
                b = r.choice(BIDS[:3])
                if x < 0.3:
                    procs.append(_use(w, b, False, r.choice([None, 30])))
                elif x < 0.6:
                    procs.append(_inst(100 + nsrc, b, False, r.choice([None, 30, 50])))
                    nsrc += 1
                else:
                    procs.append(_gc(False, r.random() < 0.5, False, r.choice([None, 30])))
            for d in procs:
                prep_proc(world, d)
            children = [sw.Child(world, d, free=True) for d in procs]
            for c in children:
                os.write(c.cw, b"g")                  # all start at once and run freely
            for c, d in zip(children, procs):
                ev = c.collect(120.0)
                if ev.get("ev") != "done":
                    c.kill()
                    ctx.skip("stress: a process gave no result in time")
                    continue
                res = ev.get("res") or {}
                ctx.count("stress_result", res.get("r", "?") + (":" + res["e"] if res.get("r") == "err" else ""))
                if res.get("r") == "err" and not _expected_input_error(d, res["e"]):
                    fails.append((d, res))
        world.normalise_mtimes()
        snap = world.snapshot(BIDS, WSS)
        o = OCtx()
        check_snapshot(o, snap, True)
        ctx.case(("stress", it, snap["repo"]))
        for what, sig in o.out:
            ctx.violation("stress: " + what, {"kind": "stress", "iteration": it}, sig)
        for d, res in fails:
            if res["e"] in ("jsonDecode", "corruptMeta"):
                # without cut points the window cannot be observed; the only way to read a torn JSON file here
                ctx.violation("stress: %s failed with %s" % (d["op"], res["e"]), {"kind": "stress", "iteration": it},
                              "json-read-in-unlock-before-flush-window")
            elif res["e"] != "inspect":
                ctx.violation("stress: %s failed with %s %s" % (d["op"], res["e"], res.get("msg", "")),
                              {"kind": "stress", "iteration": it}, "unexpected-failure:%s:%s" % (d["op"], res["e"]))
        if not fails and snap["repo"] != "torn":
            rec = dict(map(tuple, snap["repo"])) if snap["repo"] != "absent" else {}
            inst = {b: d["info"]["size"] for b, d in zip(BIDS, snap["final"]) if d is not None and isinstance(d["info"], dict)}
            if rec != inst:
                ctx.violation("stress: repo.json records %r, installed %r" % (rec, inst), {"kind": "stress", "iteration": it},
                              "accounting-mismatch")
        shutil.rmtree(root, ignore_errors=True)


def replay(ctx, case):
    if case.get("kind") == "rounds":
        traces = exec_case(os.path.join(ctx.tmp, "replay"), {"rounds": case["rounds"]})
        for what, sig in judge(traces):
            ctx.violation(what, case, sig)
    elif case.get("kind") == "e2e-empty-store":
        end_to_end_empty_store(ctx)
    elif case.get("kind") == "quota":
        quota_parse_check(ctx)
    elif case.get("kind") == "store-alias":
        store_alias_case(ctx, case["variant"])
    elif case.get("kind") == "stress":
        stress(ctx)


MANIFEST = {
    "text": "Proved in Lean (Props/C15.lean over Model/Share.lean, an interleaving model of LocalShare install/use/gc/__addPackage and "
            "of the builder's link creation, cut at every open, flock, unlock, rename, symlink; the variant of the code - with or "
            "without each of the four fixes - is a parameter that tools/consts/c15.py extracts from the current source, and "
            "`consts_are_fixed` obliges it to be the fixed one) for ALL schedules of any number of processes and any consistent "
            "initial store incl. the empty one: visible_complete, lock_exclusion, install_once / install_result, gc_policy_* "
            "(shortest prefix of the unused candidates in (mtime,size,id) order that meets the quota; all unused with --all-unused; "
            "used ones only with --used; dry-run never moves), no_spurious_failure (no FileNotFoundError / JSONDecodeError / "
            "'Corrupt meta info' / ENOENT at the collecting rename) and accounting (repo.json = installed packages in every "
            "quiescent state) at full strength for the fixed code, not_collected_while_used_partial (candidates are judged by the "
            "links of their recorded users at scan time). The full not_collected_while_used is refuted by a kernel-checked "
            "witness (known finding: gc between the share call and the link creation), replayed on the real code. The witnesses "
            "of the four fixed defects are kept for `Cfg.old`; the same interleavings are directed cases of the harness, so a "
            "reverted fix breaks `consts_are_fixed` and yields a concrete replay. Tie to the source: every segment of directed and "
            "drawn interleavings of 1..3 real processes (stopped at the cut points through wrapped OpenLocked.__enter__, lockFile, "
            "unlockFile, hashDirectoryWithSize, os.rename, os.symlink, os.unlink) is compared with Share.step: cut point reached / "
            "blocked / result and the complete store (repo.json, packages, pkg.json, mtime order, links).",
    "note": "trusted: Lean kernel, harness/props/c15.py + harness/gen/shareworld.py (process control), tools/consts/c15.py, POSIX "
            "rename/flock semantics, CPython buffered text files; the per-package flock is implicit in the model (segments under "
            "it are atomic); quota string parsing, CopyMachine hard links, Windows placeholders, NFS are outside the model",
    "technique": "Lean 4 invariant proofs over a hand-written interleaving model + controlled real-process interleavings as "
                 "differential correspondence + property oracle on every intermediate store state",
}
