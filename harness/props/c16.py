"""C16 - workspace directories separate variants; clean removes only garbage.

oracle (implementation only, no Lean):
  (a) develop mode: generated projects + edit histories; after every edit the real DevelopDirOracle is primed
      on its sqlite file (in process, scratch project directory) the way `bob dev` does it and
      getWorkspacePath() of all steps is read: two live steps with different (recipe, Variant-Id) but equal
      path / a surviving (recipe, Variant-Id) whose path changed although its base directory still matches;
  (b) release mode: the same with the release name persister (BobState.getByNameDirectory), steps asked in
      random orders and subsets like partial `bob build` runs do;
  (c) real `bob dev` / `bob build` / `bob clean [--release|--attic] [-s] [-f] [--dry-run] [-v]` runs in a
      child process (this file run as a script) on tiny projects: a path that belongs to the current package
      graph with matching state is deleted or altered, a deleted directory that Bob did not know, a source
      workspace deleted without -s / without -f although dirty, any file system or state change under
      --dry-run, a build/package workspace that still holds files of the variant that owned it before.
      A mandatory first batch uses the project in BOTH modes (release build, develop build, edit, both again, `bob clean`
      of each mode with/without --dry-run/-s, both builds again): after `bob clean` of any mode every workspace that belongs
      to a package of the current recipes in EITHER mode and was up to date before is still there with its state
      (`clean-deletes-uptodate-other-mode`), and the next `bob build`/`bob dev` re-executes nothing (`clean-forces-reexecution`).
correspond: the same observations against the Lean model `drv_c16`: the table after every refresh, the
      by-name state after every call sequence, the base directory formatters, every `bob clean` invocation
      (printed rm lines, deleted set, remaining directory state), the PRUNE decisions of `bob dev`.
"""
import hashlib
import json
import os
import re
import subprocess
import sys

DRIVER = "drv_c16"
RULE = ("projects: root -> up to 6 apps -> lib/base (variants by an inherited variable V), multiPackages (mp-x/mp-y, "
        "foo/foo-bar of one recipe with identical steps), twin recipes with identical steps, a recipe in a sub "
        "directory, a tools-only dependency, optionally a git checkout; edit histories change V, add/remove/re-add "
        "apps and dependencies, reorder dependencies, change scripts. A develop/release case is one (history "
        "prefix, step) pair, distinct by the table before, the visit sequence and the step's key; non-trivial if the "
        "refresh kept at least one entry and numbered at least one new key (or the by-name state was non-empty). A "
        "clean case is one real `bob clean` invocation, distinct by its options, the directory state and the package "
        "graph; non-trivial if at least one known directory was unused or a source workspace was involved. Mixed-mode "
        "histories (bob build and bob dev in one project) add one case per (clean invocation, up-to-date workspace of the other "
        "mode) and one per re-build after a clean without an edit in between.")
ASSUMPTIONS = [
    "the traversal order of DevelopDirOracle.__touch and of collectPaths.walk is the post/pre-order over "
    "getDirectDepSteps() that the harness re-computes on the real package objects",
    "workspace directories are not nested in each other (a package named like `x::1::workspace` is not generated)",
    "the type of a stored directory state matches the step kind of the path (the label is part of every path)",
    "hex digests never equal a release base directory name (no '/' in a digest)",
    "SCM status (expendable) is an input of the model; it is determined by the harness (dirty git clone or not)",
    "the builder's prune decision is modelled locally (cookBuild/preparePackage); the full builder model is C01's",
    "`bob clean --shared` is C15's",
]

_CACHE = {}


# =====================================================================================================
# child process: real Bob commands in a scratch project (this file executed as a script)
# =====================================================================================================

def _sha(b):
    return hashlib.sha1(b).hexdigest()[:16]


def _h_fs():
    out = {}
    for top in ("dev", "work"):
        if not os.path.isdir(top):
            continue
        out[top] = "d"
        for root, dirs, files in os.walk(top):
            dirs.sort()
            for d in dirs:
                p = os.path.join(root, d)
                if os.path.islink(p):
                    out[p] = "l:" + os.readlink(p)
                else:
                    out[p] = "d"
            for f in sorted(files):
                p = os.path.join(root, f)
                if os.path.islink(p):
                    out[p] = "l:" + os.readlink(p)
                else:
                    try:
                        with open(p, "rb") as fd:
                            out[p] = "f:" + _sha(fd.read())
                    except OSError:
                        out[p] = "f:?"
    return out


def _h_state():
    import pickle
    st = {"dirStates": [], "byNameDirs": [], "attic": [], "pickle": None}
    if os.path.exists(".bob-state.pickle"):
        raw = open(".bob-state.pickle", "rb").read()
        st["pickle"] = _sha(raw)
        s = pickle.loads(raw)
        for p, v in s.get("dirStates", {}).items():
            if isinstance(v, dict):
                scms = sorted(str(k) for k, x in v.items() if k not in (None, 1))
                isgit = any(isinstance(x, tuple) and isinstance(x[1], dict) and x[1].get("scm") == "git"
                            for k, x in v.items() if k not in (None, 1))
                st["dirStates"].append([p, "src", "", scms, isgit, _sha(repr(sorted((str(k), repr(x)) for k, x in v.items())).encode())])
            elif isinstance(v, list):
                st["dirStates"].append([p, "build", v[0].hex() if v and isinstance(v[0], bytes) else repr(v[:1]), [], False, _sha(repr(v).encode())])
            elif isinstance(v, bytes):
                st["dirStates"].append([p, "pkg", v.hex(), [], False, _sha(v)])
            else:
                st["dirStates"].append([p, "other", repr(v), [], False, ""])
        for k, v in s.get("byNameDirs", {}).items():
            if isinstance(v, tuple):
                st["byNameDirs"].append([k, None, v[0], bool(v[1])])
            else:
                st["byNameDirs"].append([k, v, None, None])
        st["attic"] = [[p, (v or {}).get("scm") if isinstance(v, dict) or v is None else "?"] for p, v in s.get("atticDirs", {}).items()]
    return st


def _h_devdirs():
    import sqlite3
    if not os.path.exists(".bob-dev-dirs.sqlite3"):
        return None
    c = sqlite3.connect(".bob-dev-dirs.sqlite3")
    try:
        rows = c.execute("SELECT key, dir FROM dirs").fetchall()
    except sqlite3.Error:
        rows = []
    c.close()
    return sorted([k.hex() if isinstance(k, bytes) else k.encode().hex(), d] for k, d in rows)


def _marker(step):
    """the marker file the script of `step` writes (see gen/c16_projects.py)"""
    try:
        m = re.search(r'echo x > "([^"]*)"', step.getScript() or "")
        if not m:
            return None
        env = step.getEnv()
        return m.group(1).replace("${V:-none}", env.get("V", "none"))
    except Exception:  # noqa
        return None


def load_packages(mode, persist=False):
    """RecipeSet + package graph the way the commands set it up.
    develop: DevelopDirOracle primed (as bob dev/clean/query-path do);
    release: the read-only interrogator (bob clean --release) or, with persist, the persister (bob build)."""
    from bob.input import RecipeSet
    from bob.builder import LocalBuilder
    from bob.cmds.build.state import DevelopDirOracle
    recipes = RecipeSet()
    recipes.defineHook('releaseNameFormatter', LocalBuilder.releaseNameFormatter)
    recipes.defineHook('developNameFormatter', LocalBuilder.developNameFormatter)
    recipes.defineHook('developNamePersister', None)
    recipes.parse({})
    if mode == "develop":
        oracle = DevelopDirOracle(recipes.getHook('developNameFormatter'), recipes.getHook('developNamePersister'))
        fmt = LocalBuilder.makeRunnable(oracle.getFormatter())
        packages = recipes.generatePackages(fmt, False)
        oracle.prime(packages)
    else:
        if persist:
            fmt = LocalBuilder.releaseNamePersister(recipes.getHook('releaseNameFormatter'))
        else:
            fmt = LocalBuilder.releaseNameInterrogator
        fmt = LocalBuilder.makeRunnable(fmt)
        packages = recipes.generatePackages(fmt, True)
    return recipes, packages


def traverse(root):
    """reachable packages over getDirectDepSteps(): (post-order list as __touch visits them, pre-order list
    as collectPaths.walk visits them, id map)"""
    post, pre, ids = [], [], {}

    def touch(p):
        k = p._getId()
        if k in ids:
            return
        ids[k] = len(ids)
        pre.append(p)
        for d in p.getDirectDepSteps():
            touch(d.getPackage())
        post.append(p)
    touch(root)
    return post, pre, ids


def graph_record(packages, mode, with_paths=True):
    """plain data about every reachable package and its three steps"""
    from bob.builder import LocalBuilder
    basefmt = LocalBuilder.developNameFormatter if mode == "develop" else LocalBuilder.releaseNameFormatter
    root = packages.getRootPackage()
    post, pre, ids = traverse(root)
    pkgs = {}
    for p in pre:
        steps = {}
        for lab, s in (("src", p.getCheckoutStep()), ("build", p.getBuildStep()), ("dist", p.getPackageStep())):
            valid = bool(s.isValid())
            steps[lab] = {"valid": valid,
                          "path": (s.getWorkspacePath() if with_paths else None) if (valid or lab == "dist") else None,
                          "vid": s.getVariantId().hex(),
                          "base": basefmt(s, {}) if valid else None,
                          "marker": _marker(s) if valid else None}
        pkgs[ids[p._getId()]] = {"id": ids[p._getId()], "name": p.getName(), "recipe": p.getRecipe().getName(),
                                 "pkgname": p.getRecipe().getPackageName(), "steps": steps,
                                 "deps": [ids[d.getPackage()._getId()] for d in p.getDirectDepSteps()]}
    return {"root": ids[root._getId()], "pkgs": [pkgs[i] for i in sorted(pkgs)],
            "post": [ids[p._getId()] for p in post]}


def _in_child(fn):
    """run fn() in a forked child (its own BobState / sqlite connections / forkserver), return its JSON-able result"""
    import pickle
    import traceback
    tmp = ".helper-child-%d" % os.getpid()
    sys.stdout.flush()
    sys.stderr.flush()
    pid = os.fork()
    if pid == 0:
        rc = 0
        try:
            try:
                r = fn()
            except BaseException as e:  # noqa
                r = {"child_error": "%s: %s" % (type(e).__name__, e), "trace": traceback.format_exc()}
            with open(tmp, "wb") as f:
                pickle.dump(r, f)
        except BaseException:  # noqa
            rc = 1
        finally:
            sys.stdout.flush()
            sys.stderr.flush()
            os._exit(rc)
    _, status = os.waitpid(pid, 0)
    if status != 0 or not os.path.exists(tmp):
        return {"child_error": "child exited with status %r" % (status,)}
    with open(tmp, "rb") as f:
        r = pickle.load(f)
    os.unlink(tmp)
    return r


def _h_graph(mode):
    def work():
        import bob.state
        try:
            recipes, packages = load_packages(mode)
            return graph_record(packages, mode)
        finally:
            bob.state.finalize()
    return _in_child(work)


def _h_scm_status():
    """SCM status of every known source workspace and attic directory through the public SCM API
    (`getScm(spec).status(dir).expendable`): the model takes it as an input"""
    def work():
        import bob.state
        from bob.state import BobState
        from bob.scm import getScm
        from bob.builder import checkoutsFromState
        out = {"src": {}, "attic": {}}
        try:
            st = BobState()
            for d in st.getDirectories():
                raw = st.getDirectoryState(d, False)
                if not isinstance(raw, dict) or not os.path.exists(d):
                    continue
                ok = True
                for scmDir, (digest, spec) in checkoutsFromState(st.getDirectoryState(d, True)):
                    ok = ok and (spec is not None) and bool(getScm(spec).status(d).expendable)
                out["src"][d] = ok
            for d in st.getAtticDirectories():
                if not os.path.exists(d):
                    continue
                spec = st.getAtticDirectoryState(d)
                if spec and "dir" in spec:
                    del spec["dir"]
                out["attic"][d] = bool(spec) and bool(getScm(spec).status(d).expendable)
        finally:
            bob.state.finalize()
        return out
    return _in_child(work)


def _h_bob(op, args, bobroot):
    def work():
        import bob.state
        from bob.errors import BobError
        res = {}
        capf = open(".helper-capture", "w+b")
        os.dup2(capf.fileno(), 1)
        os.dup2(capf.fileno(), 2)
        try:
            if op == "dev":
                from bob.cmds.build.build import doDevelop
                doDevelop(args, bobroot)
            elif op == "build":
                from bob.cmds.build.build import doBuild
                doBuild(args, bobroot)
            else:
                from bob.cmds.build.clean import doClean
                doClean(args, bobroot)
            res["rc"] = "ok"
        except BobError as e:
            res["rc"] = "BobError: " + str(e)[:300]
        except SystemExit as e:
            res["rc"] = "exit %s" % (e.code,)
        except Exception as e:  # noqa
            import traceback
            res["rc"] = "internal: %s: %s" % (type(e).__name__, e)
            res["trace"] = traceback.format_exc()
        finally:
            try:
                bob.state.finalize()
            except Exception as e:  # noqa
                res["finalize"] = repr(e)
            sys.stdout.flush()
            sys.stderr.flush()
        capf.seek(0)
        res["output"] = capf.read().decode("utf-8", "replace")
        capf.close()
        return res
    r = _in_child(work)
    if "child_error" in r:
        return {"rc": "internal: " + r["child_error"], "output": r.get("trace", "")}
    return r


def _h_pick(cands, frac):
    cands = sorted(cands)
    if not cands:
        return None
    return cands[min(len(cands) - 1, int(frac * len(cands)))]


EXEC_LINE = re.compile(r"^\s*(?:\[[^\]]*\]\s*)?(BUILD|PACKAGE)\s")
EXEC_PATH = re.compile(r"((?:dev|work)/\S*?/workspace)\b")


def _helper_run(cmd, log):
    import gc
    import shutil
    import bob.state
    from bob.errors import BobError
    op = cmd["op"]
    res = {"op": op}
    if op == "write":
        shutil.rmtree("recipes", ignore_errors=True)
        for f, c in cmd["files"].items():
            os.makedirs(os.path.dirname(f) or ".", exist_ok=True)
            with open(f, "w") as fd:
                fd.write(c)
    elif op in ("dev", "build", "clean"):
        if op == "clean":
            res["before"] = {"fs": _h_fs(), "state": _h_state(), "devdirs": _h_devdirs()}
            res["scm"] = _h_scm_status()
        else:
            res["before"] = {"state": _h_state(), "fs": _h_fs()}
        r = _h_bob(op, cmd["args"], cmd["bobroot"])
        res["rc"] = r["rc"]
        out = r.get("output", "")
        log.write(out)
        log.write(r.get("trace", ""))
        if os.path.exists(".helper-capture"):
            os.unlink(".helper-capture")
        res["out"] = [l for l in out.splitlines() if l.startswith("rm ") or "PRUNE" in l or l.startswith("STATUS")]
        # steps whose script was really executed (`BUILD <path>` / `PACKAGE <path>`, not `... skipped (...)`)
        res["exec"] = [[m.group(1), w.group(1)] for l, m, w in ((l, EXEC_LINE.match(l), EXEC_PATH.search(l)) for l in out.splitlines())
                       if m and w and "skipped" not in l]
        res["after"] = {"fs": _h_fs(), "state": _h_state(), "devdirs": _h_devdirs()}
        if res["rc"] == "ok" or op == "clean":
            mode = cmd.get("mode", "develop")
            if mode in ("develop", "release"):
                g = _h_graph(mode)
                if "child_error" in g:
                    res["graph_error"] = g["child_error"]
                else:
                    res["graph"] = g
                if op == "clean":
                    # the package graph of the current recipes in the OTHER mode: its workspaces are results too
                    om = "release" if mode == "develop" else "develop"
                    g = _h_graph(om)
                    if "child_error" in g:
                        res["graph_other_error"] = g["child_error"]
                    else:
                        res["graph_other"] = {"mode": om, "graph": g}
            res["after2"] = {"devdirs": _h_devdirs()}
    elif op == "dirty":
        st = _h_state()
        srcs = [d for d in st["dirStates"] if d[1] == "src" and os.path.isdir(d[0])]
        gits = [d for d in srcs if d[4] and os.path.isdir(os.path.join(d[0], "g"))]
        pick = _h_pick([d[0] for d in (gits or srcs)], cmd["pick"])
        res["path"] = pick
        if pick:
            d = next(x for x in srcs if x[0] == pick)
            res["git"] = d[4]
            target = os.path.join(pick, "g", "file.txt") if d[4] and os.path.isdir(os.path.join(pick, "g")) else os.path.join(pick, "user-edit.txt")
            with open(target, "a") as fd:
                fd.write("edited by the user\n")
    elif op == "rmdir":
        st = _h_state()
        pick = _h_pick([d[0] for d in st["dirStates"] if os.path.isdir(d[0])], cmd["pick"])
        res["path"] = pick
        if pick:
            shutil.rmtree(pick)
    else:
        raise ValueError(op)
    return res


def _helper_main(argv):
    proj, script, out = argv
    os.chdir(proj)
    cmds = json.load(open(script))
    with open(os.path.join(proj, "helper.log"), "a") as log, open(out, "w") as f:
        for c in cmds:
            try:
                r = _helper_run(c, log)
            except Exception as e:  # noqa
                import traceback
                log.write(traceback.format_exc())
                r = {"op": c.get("op"), "helper_error": "%s: %s" % (type(e).__name__, e)}
            f.write(json.dumps(r) + "\n")
            f.flush()
            log.flush()
            if "helper_error" in r:
                break


# =====================================================================================================
# in-process histories: DevelopDirOracle / release persister
# =====================================================================================================

def _write_project(files):
    import shutil
    shutil.rmtree("recipes", ignore_errors=True)
    for f, c in files.items():
        os.makedirs(os.path.dirname(f) or ".", exist_ok=True)
        with open(f, "w") as fd:
            fd.write(c)


def _quiet():
    """Bob prints INFO lines to stderr while parsing; keep the check output clean"""
    import contextlib
    import io
    return contextlib.redirect_stderr(io.StringIO())


def develop_history(job):
    """one edit history on the real DevelopDirOracle; job = (dir, specs[, seed])  -> list of records.
    After every edit the real `collectPaths` is also called on the primed package graph, with a BobState whose
    directory states are set (matching / stale / absent, seeded) through the public BobState API; states of
    earlier edits stay, so directories of vanished variants carry naturally stale digests."""
    import gc
    import random
    d, specs = job[0], job[1]
    seed = job[2] if len(job) > 2 else 0
    from gen import c16_projects as G
    os.makedirs(d, exist_ok=True)
    cwd = os.getcwd()
    os.chdir(d)
    recs = []
    try:
        for step_no, spec in enumerate(specs):
            _write_project(G.render(spec))
            rec = {}
            try:
                with _quiet():
                    recipes, packages = load_packages("develop")
                    g = graph_record(packages, "develop")
                    rec["collects"] = [collect_probe(packages, g, random.Random("%s-%d-%d" % (seed, step_no, k)))
                                       for k in range(4)]
                del recipes, packages
            except Exception as e:  # noqa
                rec["error"] = "%s: %s" % (type(e).__name__, str(e)[:300])
                recs.append(rec)
                gc.collect()
                break
            gc.collect()
            # compact: valid steps in the order in which __touch asks for their workspace
            order = {p["id"]: p for p in g["pkgs"]}
            rec["steps"] = [[order[pid]["recipe"], lab, order[pid]["recipe"] if lab == "src" else order[pid]["pkgname"],
                             order[pid]["steps"][lab]["vid"], order[pid]["steps"][lab]["path"], order[pid]["steps"][lab]["base"]]
                            for pid in g["post"] for lab in ("dist", "build", "src") if order[pid]["steps"][lab]["valid"]]
            rec["table"] = _h_devdirs()
            recs.append(rec)
    finally:
        os.chdir(cwd)
    return recs


def collect_probe(packages, g, rr):
    """prime directory states for the workspaces of the current graph and call the real collectPaths"""
    import bob.state
    from bob.state import BobState
    from bob.cmds.build.clean import collectPaths
    try:
        st = BobState()
        seen = set()
        for p in g["pkgs"]:
            for lab in ("build", "dist"):
                s = p["steps"][lab]
                if not s["valid"] or not s["path"] or s["path"] in seen:
                    continue
                seen.add(s["path"])
                k = rr.random()
                if k < 0.55:
                    vid = bytes.fromhex(s["vid"])
                elif k < 0.75:
                    vid = hashlib.sha1(b"stale" + s["path"].encode() + bytes([rr.randrange(256)])).digest()
                elif k < 0.85:
                    st.delDirectoryState(s["path"])
                    continue
                else:
                    continue        # whatever an earlier edit left there
                st.setDirectoryState(s["path"], [vid, s["path"]] if lab == "build" else vid)
        used = collectPaths(packages.getRootPackage())
        states = []
        for d0 in st.getDirectories():
            v = st.getDirectoryState(d0, False)
            if isinstance(v, list):
                states.append([d0, "build", v[0].hex()])
            elif isinstance(v, bytes):
                states.append([d0, "pkg", v.hex()])
            else:
                states.append([d0, "src", ""])
    finally:
        bob.state.finalize()
    pkgs = [{"id": p["id"], "name": p["name"], "deps": p["deps"],
             "steps": {lab: {"valid": p["steps"][lab]["valid"], "path": p["steps"][lab]["path"], "vid": p["steps"][lab]["vid"]}
                       for lab in ("src", "build", "dist")}} for p in g["pkgs"]]
    return {"used": sorted(x for x in used if x is not None), "states": states, "root": g["root"], "pkgs": pkgs}


def check_collect_records(ctx, recs, case):
    """the property's wording on the real collectPaths: every workspace that belongs to a package of the current
    graph (stored digest absent or matching) must be reported as used - `bob clean` deletes what is not"""
    for i, rec, cp in [(i, rec, cp) for i, rec in enumerate(recs) for cp in rec.get("collects", [])]:
        live = live_paths(cp, cp["states"])
        used = set(cp["used"])
        twins = len({p["steps"]["dist"]["vid"] for p in cp["pkgs"]}) < len(cp["pkgs"])
        ctx.case(("collect", json.dumps(cp, sort_keys=True)), nontrivial=bool(cp["states"]),
                 sample={"collectPaths": {"packages": len(cp["pkgs"]), "states": len(cp["states"]), "used": len(used)}})
        ctx.count("collect", "identical-packages" if twins else "all-distinct")
        for path, kind in sorted(live.items()):
            if path not in used:
                owner = [p["name"] for p in cp["pkgs"] if any(p["steps"][l]["path"] == path for l in ("src", "build", "dist"))]
                ctx.violation("collectPaths does not report %s (%s workspace of %s, stored digest absent or matching) as used: "
                              "`bob clean` would delete an up-to-date result" % (path, kind, "/".join(owner)),
                              dict(case, upto=i + 1), "collectPaths-misses-live-workspace")
                break


def release_history(job):
    """one edit history on the real release persister; job = (dir, specs, orders) with orders[i] a list of
    fractions that select which steps are asked for their workspace and in which order"""
    import gc
    import random
    d, specs, seeds = job
    from gen import c16_projects as G
    import bob.state
    from bob.state import _BobState
    os.makedirs(d, exist_ok=True)
    cwd = os.getcwd()
    os.chdir(d)
    recs = []
    orig = _BobState.getByNameDirectory
    calls = []

    def wrapped(self, baseDir, digest, isSourceDir):
        res = orig(self, baseDir, digest, isSourceDir)
        calls.append([baseDir, digest, bool(isSourceDir), res])
        return res
    _BobState.getByNameDirectory = wrapped
    try:
        for spec, seed in zip(specs, seeds):
            _write_project(G.render(spec))
            rec = {"seed": seed}
            del calls[:]
            try:
                with _quiet():
                    recipes, packages = load_packages("release", persist=True)
                    post, pre, ids = traverse(packages.getRootPackage())
                    steps = []
                    for p in pre:
                        for s in (p.getCheckoutStep(), p.getBuildStep(), p.getPackageStep()):
                            if s.isValid():
                                steps.append((p, s))
                    r = random.Random(seed)
                    r.shuffle(steps)
                    asked = steps[:max(1, int(len(steps) * r.choice([0.3, 0.6, 1.0, 1.0])))]
                    got = []
                    for p, s in asked:
                        got.append([p.getRecipe().getName(), s.getLabel(), s.getVariantId().hex(), s.getWorkspacePath()])
                    # ask again (stable within the invocation) and through the read-only interrogator
                    from bob.builder import LocalBuilder
                    again = [[s.getVariantId().hex(), s.getWorkspacePath(),
                              LocalBuilder.makeRunnable(LocalBuilder.releaseNameInterrogator)(s, {})] for p, s in asked]
                    rec["asked"] = got
                    rec["again"] = again
                    rec["calls"] = [list(c) for c in calls]
                    rec["alldirs"] = sorted([d0, bool(b)] for d0, b in bob.state.BobState().getAllNameDirectores())
                del recipes, packages, steps, asked
            except Exception as e:  # noqa
                rec["error"] = "%s: %s" % (type(e).__name__, str(e)[:300])
            finally:
                bob.state.finalize()
                gc.collect()
            rec["state"] = _h_state()["byNameDirs"]
            recs.append(rec)
            if "error" in rec:
                break
    finally:
        _BobState.getByNameDirectory = orig
        os.chdir(cwd)
    return recs


def gen_specs(r, n, git_urls=None):
    from gen import c16_projects as G
    spec = G.initial(r, git_urls)
    specs, kinds = [spec], ["initial"]
    for _ in range(n - 1):
        for _ in range(r.choice([1, 1, 1, 2, 3])):
            spec, k = G.edit(r, spec)
        specs.append(spec)
        kinds.append(k)
    return specs, kinds


# ------------------------------------------------------------------ oracle checks on in-process records

def check_develop_records(ctx, recs, case):
    """property wording on the implementation's answers"""
    prev = None
    for i, rec in enumerate(recs):
        if "error" in rec:
            if "Cannot save directory mapping" in rec["error"] or rec["error"].startswith("AssertionError"):
                # the table could not be written / a visited step has no entry: contradicts refresh_total / visited_has_dir
                ctx.violation("priming the DevelopDirOracle failed: " + rec["error"], dict(case, upto=i + 1), "develop-prime-error")
            else:
                ctx.skip("develop history: cannot load project (%s)" % rec["error"][:80])
            return
        by_path = {}
        cur = {}
        first_base = {}
        for recipe, lab, name, vid, path, base in rec["steps"]:
            key = (recipe, vid)
            first_base.setdefault(key, base)
            if path is None:
                ctx.violation("valid step without workspace path", dict(case, upto=i + 1), "develop-no-path")
                continue
            by_path.setdefault(path, set()).add(key)
            ctx.case(("develop-step", recipe, vid, path, (prev or {}).get(key)), nontrivial=prev is not None and key in prev)
            if key in cur and cur[key] != path:
                ctx.violation("one (recipe, Variant-Id) has two directories: %r" % (key,), dict(case, upto=i + 1), "develop-key-two-dirs")
            cur[key] = path
        for path, keys in by_path.items():
            if len(keys) > 1:
                ctx.violation("steps with different (recipe, Variant-Id) share the workspace %s: %s" % (path, sorted(keys)),
                              dict(case, upto=i + 1), "develop-shared-dir")
        if prev is not None:
            for key, path in cur.items():
                if key in prev and prev[key] != path:
                    if (prev[key]).startswith(first_base[key]):
                        ctx.violation("surviving variant %r moved from %s to %s although its base directory %s still matches"
                                      % (key, prev[key], path, first_base[key]), dict(case, upto=i + 1), "develop-variant-moved")
                    else:
                        ctx.count("develop", "moved-because-base-changed")
        prev = cur


def check_release_records(ctx, recs, case):
    owner = {}     # path -> vid
    where = {}     # vid -> path
    for i, rec in enumerate(recs):
        if "error" in rec:
            if rec["error"].startswith("TypeError"):
                ctx.violation("release persister failed: " + rec["error"], dict(case, upto=i + 1), "release-prime-error")
            else:
                ctx.skip("release history: cannot load project (%s)" % rec["error"][:80])
            return
        for (recipe, lab, vid, path), (vid2, path2, path3) in zip(rec["asked"], rec["again"]):
            if path != path2 or path != path3:
                ctx.violation("workspace of one step not stable within one invocation / interrogator differs: %r" % ([path, path2, path3],),
                              dict(case, upto=i + 1), "release-unstable")
            ctx.case(("release-step", vid, path, where.get(vid)), nontrivial=vid in where or path in owner)
            if path in owner and owner[path] != vid:
                ctx.violation("steps with different Variant-Ids share the release workspace %s" % path, dict(case, upto=i + 1),
                              "release-shared-dir")
            owner[path] = vid
            if vid in where and where[vid] != path:
                ctx.violation("variant %s moved from %s to %s" % (vid, where[vid], path), dict(case, upto=i + 1), "release-variant-moved")
            where[vid] = path


# =====================================================================================================
# real runs
# =====================================================================================================

PRISTINE = {hashlib.sha1(("content of %s\n" % n).encode()).hexdigest()[:16] for n in ("repoA", "repoB")}


def git_dirty(fs, clone):
    """a git clone (directory that holds file.txt) has local modifications"""
    v = fs.get(clone + "/file.txt")
    return v is not None and v[2:] not in PRISTINE


def dirty_sources(fs, dirstates):
    """source workspaces whose git checkout was edited (what `git status` will report as modified)"""
    return sorted(d[0] for d in dirstates if d[1] == "src" and d[4] and git_dirty(fs, d[0] + "/g"))


def make_git_repos(ctx):
    """two tiny local repositories (master branch, one file)"""
    urls = []
    env = dict(os.environ, GIT_AUTHOR_NAME="v", GIT_AUTHOR_EMAIL="v@example.com", GIT_COMMITTER_NAME="v",
               GIT_COMMITTER_EMAIL="v@example.com", GIT_CONFIG_GLOBAL="/dev/null", GIT_CONFIG_SYSTEM="/dev/null")
    try:
        for n in ("repoA", "repoB"):
            d = os.path.join(ctx.tmp, n)
            os.makedirs(d)
            for cmd in (["git", "init", "-q", "-b", "master", "."], ["git", "add", "."], ["git", "commit", "-q", "-m", "init"]):
                if cmd[1] == "add":
                    with open(os.path.join(d, "file.txt"), "w") as f:
                        f.write("content of %s\n" % n)
                subprocess.run(cmd, cwd=d, env=env, check=True, stdout=subprocess.DEVNULL, stderr=subprocess.DEVNULL, timeout=60)
            urls.append("file://" + d)
    except Exception as e:  # noqa
        ctx.skip("git checkouts: cannot create local repositories (%s)" % e)
        return None
    return urls


def gen_real_script(r, mode, git_urls, rounds):
    """mode: develop | release | mixed (both kinds of builds in one project)"""
    from gen import c16_projects as G
    spec = G.initial(r, git_urls, small=True)

    def build_op(m=None):
        m = m or (mode if mode != "mixed" else r.choice(["develop", "release"]))
        if r.random() < 0.75 or not spec["apps"]:
            t = ["root"]
        else:
            t = ["root/" + r.choice(sorted(spec["apps"]))]
        if m == "develop":
            return {"op": "dev", "args": t, "mode": m}
        return {"op": "build", "args": ["--no-sandbox"] + t, "mode": m}

    def clean_ops():
        a = []
        m = mode if mode != "mixed" else r.choice(["develop", "release"])
        gm = m
        if r.random() < 0.2:
            m = "attic"
            a.append("--attic")
        elif m == "release":
            a.append("--release")
        if r.random() < 0.55:
            a.append("-s")
        if r.random() < 0.3:
            a.append("-f")
        if r.random() < 0.35:
            a.append("--dry-run")
        if r.random() < 0.5:
            a.append("-v")
        ops = [{"op": "clean", "args": a, "mode": gm, "cmode": m}]
        if "--dry-run" in a and r.random() < 0.7:
            ops.append({"op": "clean", "args": [x for x in a if x != "--dry-run"], "mode": gm, "cmode": m})
        return ops

    if mode == "mixed":
        # the project is used in both modes from the start
        m1 = r.choice(["develop", "release"])
        script = [{"op": "spec", "spec": spec}, build_op(m1), build_op("release" if m1 == "develop" else "develop")]
    else:
        script = [{"op": "spec", "spec": spec}, build_op()]
    for _ in range(rounds):
        scenario = r.random() < 0.5
        if scenario:
            # the user edits a checkout (a git clone if there is one) ...
            script.append({"op": "dirty", "pick": r.random()})
            k = r.random()
            if k < 0.5:
                # ... and the package disappears from the graph: the edited workspace becomes an orphan
                spec = json.loads(json.dumps(spec))
                for a in spec["apps"].values():
                    a["lib"] = False
            elif k < 0.9:
                # ... and its checkout variant changes (release: new directory, develop: same directory -> attic)
                spec = json.loads(json.dumps(spec))
                for n in spec["src_tags"]:
                    spec["src_tags"][n] = r.choice([t for t in G.TAGS if t != spec["src_tags"][n]])
                if spec["git_urls"]:
                    spec["git"] = r.choice([u for u in [None] + spec["git_urls"] if u != spec["git"]])
        for _ in range(r.choice([0, 1, 1, 2, 3]) if scenario else r.choice([1, 1, 2, 3])):
            spec, k = G.edit(r, spec)
        script.append({"op": "spec", "spec": spec})
        if r.random() < 0.7:
            script.append(build_op())
        if r.random() < 0.15:
            script.append({"op": "rmdir", "pick": r.random()})
        ops = clean_ops()
        if scenario and r.random() < 0.7:
            # sources without force: must keep what the user edited
            for o in ops:
                o["args"] = [x for x in o["args"] if x not in ("-f", "-s")] + ["-s"]
        script.extend(ops)
        if r.random() < 0.4:
            script.append(build_op())
    return script


def guaranteed_scripts(r):
    """short develop/release histories that always run (also on a loaded machine): identical packages from
    different recipes, multiPackage siblings with identical steps, one recipe under two package names, tools"""
    from gen import c16_projects as G
    out = []
    for extra, mode in ((["twinA", "twinB"], "develop"), (["mp-x", "mp-y", "foo", "foo-bar"], "develop"),
                        (["twinB", "twinA", "mp-y"], "release")):
        spec = G.initial(r, None, small=True)
        spec["root_extra"] = list(extra)
        spec["mp_same"] = True
        for a in spec["apps"].values():
            a["deps"] = [x for x in a["deps"] if x not in extra][:1]
            a["tool"] = True
        b = {"op": "dev", "args": ["root"], "mode": mode} if mode == "develop" else \
            {"op": "build", "args": ["--no-sandbox", "root"], "mode": mode}
        rel = ["--release"] if mode == "release" else []
        script = [{"op": "spec", "spec": spec}, b,
                  {"op": "clean", "args": rel + ["--dry-run", "-v"], "mode": mode, "cmode": mode},
                  {"op": "clean", "args": rel + ["-v"], "mode": mode, "cmode": mode}]
        spec2, k = G.edit(r, spec)
        script += [{"op": "spec", "spec": spec2}, dict(b), {"op": "clean", "args": rel + ["-s", "-v"], "mode": mode, "cmode": mode}]
        out.append(script)
    return out


def guaranteed_mixed_scripts(r):
    """mandatory histories of a project that is used in BOTH modes (`bob build` below work/ and `bob dev` below dev/):
    release build, develop build, edit, both again, then `bob clean` of each mode - with and without --dry-run / -s -
    and both builds once more (which must find nothing to do).  Four short scripts (they run in parallel)."""
    from gen import c16_projects as G

    def B(m):
        return {"op": "dev", "args": ["root"], "mode": "develop"} if m == "develop" else \
            {"op": "build", "args": ["--no-sandbox", "root"], "mode": "release"}

    def C(m, *a):
        return {"op": "clean", "args": (["--release"] if m == "release" else []) + list(a), "mode": m, "cmode": m}

    def project():
        spec = G.initial(r, None, small=True)
        spec["root_extra"] = spec["root_extra"][:1]
        for a in spec["apps"].values():
            a["deps"] = a["deps"][:1]
            a["lib"] = True
        return spec

    def edited(spec):
        # new variants of root and of one app (release: new directories, the old ones are garbage; develop: new
        # numbered directories or re-used ones) plus one random edit
        s2 = json.loads(json.dumps(spec))
        s2["tags"]["root"] = r.choice([t for t in G.TAGS if t != s2["tags"]["root"]])
        a = s2["apps"][r.choice(sorted(s2["apps"]))]
        a["tag"] = r.choice([t for t in G.TAGS if t != a["tag"]])
        a["v"] = r.choice([v for v in G.VALUES if v != a["v"]])
        s3, _ = G.edit(r, s2)
        return s3

    out = []
    for cm in ("develop", "release"):
        om = "release" if cm == "develop" else "develop"
        first, second = (om, cm) if r.random() < 0.5 else (cm, om)
        # (1) both modes freshly built, clean of one mode (dry run, then for real), both builds again
        spec = project()
        out.append([{"op": "spec", "spec": spec}, B(first), B(second),
                    C(cm, "--dry-run", *r.choice([[], ["-s"], ["-v"]])), C(cm, *r.choice([["-v"], ["-s", "-v"], []])),
                    B(om), B(cm)])
        # (2) both built, edit, both again (garbage in both modes), clean of one mode with -s, both builds again
        spec = project()
        out.append([{"op": "spec", "spec": spec}, B(first), B(second), {"op": "spec", "spec": edited(spec)}, B(second), B(first),
                    C(cm, *r.choice([["-s"], ["-s", "-v"], ["-s", "-f"], ["-v"]])), B(om)])
    return out


def run_real(job):
    """execute one script in a child process; job = (dir, script, repo, time limit) -> results (or error string)"""
    d, script, repo, limit = job
    from gen import c16_projects as G
    os.makedirs(d, exist_ok=True)
    cmds = []
    for s in script:
        if s["op"] == "spec":
            cmds.append({"op": "write", "files": G.render(s["spec"])})
        else:
            cmds.append(dict(s, bobroot=repo))
    sp, out = os.path.join(d, "script.json"), os.path.join(d, "results.json")
    with open(sp, "w") as f:
        json.dump(cmds, f)
    env = dict(os.environ, PYTHONPATH=os.path.join(repo, "pym"), PYTHONDONTWRITEBYTECODE="1",
               GIT_CONFIG_GLOBAL="/dev/null", GIT_CONFIG_SYSTEM="/dev/null", HOME=d)
    env.pop("MAKEFLAGS", None)
    import signal
    p = subprocess.Popen([sys.executable, os.path.abspath(__file__), "--helper", d, sp, out], env=env, cwd=d,
                         stdout=subprocess.PIPE, stderr=subprocess.STDOUT, start_new_session=True)
    timed_out = False
    try:
        stdout, _ = p.communicate(timeout=limit or 900)
    except subprocess.TimeoutExpired:
        timed_out = True
        try:
            os.killpg(p.pid, signal.SIGKILL)
        except OSError:
            pass
        stdout, _ = p.communicate()
    results = []
    if os.path.exists(out):
        for line in open(out):
            try:
                results.append(json.loads(line))
            except ValueError:
                break
    if timed_out:
        return {"timeout": True, "results": results}
    if p.returncode != 0:
        return "helper failed rc=%s: %s" % (p.returncode, stdout.decode("utf-8", "replace")[-1500:])
    return results


def _roots(before, after):
    """maximal paths that exist before and not after"""
    gone = sorted(p for p in before if p not in after)
    roots = []
    for p in gone:
        if not any(p.startswith(r + "/") for r in roots):
            roots.append(p)
    return roots


def _subtree(fs, p):
    return {k: v for k, v in fs.items() if k == p or k.startswith(p + "/")}


def live_paths(graph, dirstates):
    """the property's wording: paths whose content belongs to a package of the current graph"""
    st = {d[0]: d for d in dirstates}
    live = {}
    for p in graph["pkgs"]:
        s = p["steps"]["src"]
        if s["valid"] and s["path"]:
            live[s["path"]] = "src"
        s = p["steps"]["build"]
        if s["valid"] and s["path"]:
            x = st.get(s["path"])
            if x is None or (x[1] == "build" and x[2] == s["vid"]):
                live[s["path"]] = "build"
        s = p["steps"]["dist"]
        if s["path"]:
            x = st.get(s["path"])
            if x is None or (x[1] == "pkg" and x[2] == s["vid"]):
                live[s["path"]] = "dist"
    return live


def check_real(ctx, script, results, case):
    """oracle on the results of one script; returns the list of clean cases for the correspondence"""
    cleans = []
    if isinstance(results, dict) and results.get("timeout"):
        ctx.skip("a real run hit the time limit (the commands that finished were checked)")
        results = results["results"]
    if isinstance(results, str):
        ctx.skip("real run: " + results[:200])
        return cleans
    cmds = [s for s in script]
    fresh = set()          # modes with a complete build that was not followed by an edit / user interference
    cleaned = []           # the `bob clean` invocations since then (index, args)
    uptodate = {}          # mode -> workspaces (path -> kind) of the current graph right after that complete build
    ri = 0
    for idx, s in enumerate(cmds):
        if ri >= len(results):
            break
        res = results[ri]
        ri += 1
        here = dict(case, upto=idx + 1)
        if "helper_error" in res:
            ctx.skip("real run: helper error " + res["helper_error"][:200])
            break
        if s["op"] in ("spec", "rmdir", "dirty"):
            fresh.clear()
            uptodate.clear()
            del cleaned[:]
            continue
        if s["op"] in ("dev", "build"):
            ctx.count("real", s["op"] + ":" + res["rc"].split(":")[0])
            if res["rc"] != "ok":
                # a failing build is no statement about directories; the rest of this history cannot be judged
                ctx.skip("real run: bob %s failed (%s)" % (s["op"], res["rc"][:120]))
                break
            g = res.get("graph")
            if g is None:
                ctx.skip("real run: cannot load the package graph (%s)" % res.get("graph_error", "?")[:120])
                break
            # a directory handed to another variant must not keep the old content
            if s["args"][-1] == "root":
                fs = res["after"]["fs"]
                for p in g["pkgs"]:
                    for lab in ("build", "dist"):
                        st = p["steps"][lab]
                        if not st["valid"] or not st["path"] or st["marker"] is None:
                            continue
                        if st["path"] not in fs:
                            ctx.violation("workspace %s missing after full build" % st["path"], here, "workspace-missing")
                            continue
                        have = sorted(k[len(st["path"]) + 1:] for k in fs if k.startswith(st["path"] + "/"))
                        ctx.case(("handover", st["path"], st["vid"], tuple(have)), nontrivial=True)
                        if have != [st["marker"]]:
                            ctx.violation("workspace %s of %s/%s holds %r, its variant writes only %r (directory handed over without being emptied?)"
                                          % (st["path"], p["name"], lab, have, st["marker"]), here, "handover-not-pruned")
            check_graph_paths(ctx, g, s["mode"], here)
            cleans.append(build_event(res, here))
            if s["mode"] in fresh:
                # nothing was edited since the last complete build of this mode: only a `bob clean` in between (of
                # either mode) can be the reason why a step has to run again - an up-to-date result was lost
                ctx.case(("rebuild", s["op"], tuple(s["args"]), tuple(tuple(a) for _, a in cleaned),
                          json.dumps(g, sort_keys=True)), nontrivial=bool(cleaned))
                ctx.count("rebuild_after_clean", "%s:%s" % (s["mode"], "re-executed" if res.get("exec") else "nothing-to-do")
                          if cleaned else s["mode"] + ":no-clean-in-between")
                lost = [e for e in res.get("exec", []) if e[1] in uptodate.get(s["mode"], {})]
                if cleaned and lost:
                    ctx.violation("bob %s %s re-executes %s although nothing was edited since the last complete %s build: `bob clean %s` "
                                  "in between lost these up-to-date results"
                                  % (s["op"], " ".join(s["args"]), ", ".join("%s %s" % (a, p0) for a, p0 in lost[:6]), s["mode"],
                                     "` / `bob clean ".join(" ".join(a) for _, a in cleaned)),
                                  here, "clean-forces-reexecution")
            if s["args"][-1] == "root":
                fresh.add(s["mode"])
                fs = res["after"]["fs"]
                uptodate[s["mode"]] = {p["steps"][lab]["path"]: lab for p in g["pkgs"] for lab in ("build", "dist")
                                       if p["steps"][lab]["valid"] and p["steps"][lab]["path"] in fs}
            continue
        # ---- clean
        args, cmode = s["args"], s["cmode"]
        ctx.count("clean_mode", cmode + ("+dry" if "--dry-run" in args else "") + ("+s" if "-s" in args else "") + ("+f" if "-f" in args else ""))
        if res["rc"] != "ok":
            # the model (clean_total) says clean always terminates normally
            ctx.disagree("bob clean terminates normally (Model.doClean is total)", dict(here, args=args), res["rc"], "ok")
            break
        bfs, afs = res["before"]["fs"], res["after"]["fs"]
        bst, ast = res["before"]["state"], res["after"]["state"]
        g = res.get("graph")
        if g is None:
            ctx.skip("real run: cannot load the package graph (%s)" % res.get("graph_error", "?")[:120])
            break
        roots = _roots(bfs, afs)
        dirty = set(dirty_sources(bfs, bst["dirStates"]))
        changed = sorted(k for k in afs if k not in bfs or bfs[k] != afs[k])
        if "--dry-run" in args:
            if roots or changed or bst["pickle"] != ast["pickle"]:
                ctx.violation("bob clean %s --dry-run changed the project: removed %r changed %r state %s->%s"
                              % (args, roots[:5], changed[:5], bst["pickle"], ast["pickle"]), here, "dry-run-changed-project")
        known = {}
        if cmode == "attic":
            known = {p: "attic" for p, _ in bst["attic"]}
        elif cmode == "release":
            known = {os.path.join(d0, "workspace"): ("src" if issrc else "other") for k, n, d0, issrc in bst["byNameDirs"] if n is None}
        else:
            rel = {os.path.join(d0, "workspace") for k, n, d0, issrc in bst["byNameDirs"] if n is None}
            known = {d0[0]: d0[1] for d0 in bst["dirStates"] if d0[0] not in rel}
        live = live_paths(g, bst["dirStates"]) if cmode != "attic" else {}
        ast_d = {d0[0]: d0 for d0 in ast["dirStates"]}
        bst_d = {d0[0]: d0 for d0 in bst["dirStates"]}
        # the property for BOTH modes: a project is used with `bob dev` and `bob build`; whatever mode `bob clean` works
        # in, every workspace that belongs to a package of the current recipes in either mode and was up to date before
        # (exists, stored state matches the step) must still be there, unaltered, with its state
        others = []
        if cmode == "attic":
            others.append((s["mode"], g))
        og = res.get("graph_other")
        if og is None:
            ctx.count("other_mode_graph", "unavailable")
        else:
            others.append((og["mode"], og["graph"]))
        for om, ogr in others:
            olive = live_paths(ogr, bst["dirStates"])
            ok_before = sorted(p for p in olive if p in bfs and p in bst_d and p not in live)
            ctx.count("other_mode_uptodate", "%s-clean:%s-results=%d" % (cmode, om, min(len(ok_before), 8)))
            for p in ok_before:
                ctx.case(("other-mode", cmode, tuple(args), om, p, bst_d[p][5]), nontrivial=True)
                gone = p not in afs
                if gone or _subtree(bfs, p) != _subtree(afs, p) or bst_d.get(p) != ast_d.get(p) \
                        or any(l == "rm " + p for l in res["out"]):
                    owner = sorted(q["name"] for q in ogr["pkgs"] if any(q["steps"][l]["path"] == p for l in ("src", "build", "dist")))
                    ctx.violation("bob clean %s (%s mode) %s %s, the up-to-date %s workspace of %s of the current recipes in %s mode "
                                  "(stored state matched before; state afterwards: %s)"
                                  % (" ".join(args), cmode,
                                     "deleted" if gone else "lists for removal" if "--dry-run" in args else "altered", p, olive[p],
                                     "/".join(owner), om, "kept" if bst_d.get(p) == ast_d.get(p) else "dropped"),
                                  here, "clean-deletes-uptodate-other-mode")
        for d0 in [l[3:] for l in res["out"] if l.startswith("rm ")]:
            if d0 in live and d0 not in roots:
                ctx.violation("bob clean %s lists %s for removal which belongs to the current package graph (%s, state matches)"
                              % (args, d0, live[d0]), here, "clean-removed-live")
        for d0 in roots:
            if d0 not in known:
                ctx.violation("bob clean %s removed %s which is no directory Bob knows in this mode" % (args, d0), here, "clean-removed-unknown")
                continue
            if d0 in live:
                ctx.violation("bob clean %s removed %s which belongs to the current package graph (%s, state matches)" % (args, d0, live[d0]),
                              here, "clean-removed-live")
            if known[d0] == "attic" and "-f" not in args and git_dirty(bfs, d0):
                ctx.violation("bob clean %s removed the attic directory %s with local changes without -f" % (args, d0), here, "clean-removed-dirty-attic")
            if known[d0] == "src":
                if "-s" not in args:
                    ctx.violation("bob clean %s removed the source workspace %s without -s" % (args, d0), here, "clean-removed-source")
                elif "-f" not in args and d0 in dirty:
                    ctx.violation("bob clean %s removed the source workspace %s with local changes without -f" % (args, d0), here, "clean-removed-dirty-source")
        if changed:
            ctx.violation("bob clean %s modified files: %r" % (args, changed[:5]), here, "clean-modified-files")
        if cmode in fresh:
            # directly after a complete build every workspace of the current graph is an up-to-date result
            for p in g["pkgs"]:
                for lab in ("src", "build", "dist"):
                    st = p["steps"][lab]
                    if st["valid"] and st["path"] and st["path"] in bfs:
                        ctx.case(("fresh", tuple(args), st["path"], st["vid"]), nontrivial=True)
                        if _subtree(bfs, st["path"]) != _subtree(afs, st["path"]):
                            ctx.violation("bob clean %s removed/altered %s, the up-to-date %s result of %s right after a complete build"
                                          % (args, st["path"], lab, p["name"]), here, "clean-removed-fresh-result")
        for p, kind in live.items():
            if p in bfs:
                if _subtree(bfs, p) != _subtree(afs, p):
                    ctx.violation("bob clean %s altered the live workspace %s" % (args, p), here, "clean-altered-live")
                if bst_d.get(p) != ast_d.get(p):
                    ctx.violation("bob clean %s changed the state of the live workspace %s" % (args, p), here, "clean-state-live")
        nontrivial = any(k not in live for k in known if k in bfs)
        ctx.case(("clean", tuple(args), bst["pickle"], json.dumps(g, sort_keys=True), tuple(sorted(bfs))), nontrivial=nontrivial,
                 sample={"clean": args, "removed": roots, "known": len(known), "live": len(live)})
        ctx.count("clean_removed", min(len(roots), 5))
        if "--dry-run" not in args:
            cleaned.append((idx, list(args)))
        cleans.append(clean_event(res, args, cmode, here))
    return cleans


def check_graph_paths(ctx, g, mode, here):
    by_path = {}
    for p in g["pkgs"]:
        for lab in ("src", "build", "dist"):
            s = p["steps"][lab]
            if s["valid"] and s["path"]:
                key = (p["recipe"], s["vid"]) if mode == "develop" else s["vid"]
                by_path.setdefault(s["path"], set()).add(key)
    for path, keys in by_path.items():
        if len(keys) > 1:
            ctx.violation("after a real build: different variants share %s: %r" % (path, sorted(keys)), here, mode + "-shared-dir")


# =====================================================================================================
# oracle / correspond / replay
# =====================================================================================================

def _jobs(ctx):
    c = _CACHE.setdefault(id(ctx), {})
    if "jobs" in c:
        return c
    n_hist = ctx.scale(64, 600)
    n_edit = ctx.scale(8, 20)
    dev, rel = [], []
    for h in range(n_hist):
        r = ctx.subrng("develop", h)
        specs, kinds = gen_specs(r, n_edit)
        dev.append((os.path.join(ctx.tmp, "dev%d" % h), specs, r.randrange(1 << 30)))
    for h in range(ctx.scale(32, 300)):
        r = ctx.subrng("release", h)
        specs, kinds = gen_specs(r, n_edit)
        rel.append((os.path.join(ctx.tmp, "rel%d" % h), specs, [r.randrange(1 << 30) for _ in specs]))
    c["jobs"] = True
    c["dev"], c["rel"] = dev, rel
    return c


def _batched(ctx, fn, jobs, until, batch=16, least=1):
    """map fn over jobs in parallel batches while the time lasts (`until` = time_left() value to stop at);
    at least `least` batches are run.  Returns the results of the jobs that were run."""
    import time
    out = []
    last = 0.0
    nb = 0
    for i in range(0, len(jobs), batch):
        if nb >= least and ctx.time_left() - last * 1.1 < until:
            break
        t = time.time()
        out.extend(ctx.parallel(fn, jobs[i:i + batch], workers=batch))
        last = time.time() - t
        nb += 1
    return out


def _phase(ctx, name, t0):
    import time
    ctx.notes.setdefault("c16_phase_s", {})[name] = round(time.time() - t0, 1)


def oracle(ctx):
    import time
    t0 = time.time()
    # import once in the parent: the forked workers of ctx.parallel share the loaded modules
    with _quiet():
        import yaml  # noqa
        import bob.input, bob.builder, bob.state, bob.cmds.build.state, bob.scm  # noqa
        from gen import c16_projects  # noqa
    c = _jobs(ctx)
    total = max(ctx.time_left(), 20.0)
    _phase(ctx, "generate", t0)
    t0 = time.time()
    # (a) develop mode, in process
    c["dev_recs"] = _batched(ctx, develop_history, c["dev"], until=total * 0.78)
    c["dev"] = c["dev"][:len(c["dev_recs"])]
    ctx.count("histories", "develop", len(c["dev_recs"]))
    for h, ((d, specs, sd), recs) in enumerate(zip(c["dev"], c["dev_recs"])):
        check_develop_records(ctx, recs, {"kind": "develop", "specs": specs, "seed": sd})
        check_collect_records(ctx, recs, {"kind": "collect", "specs": specs, "seed": sd})
    _phase(ctx, "develop", t0)
    t0 = time.time()
    # (b) release mode, in process
    c["rel_recs"] = _batched(ctx, release_history, c["rel"], until=total * 0.66)
    c["rel"] = c["rel"][:len(c["rel_recs"])]
    ctx.count("histories", "release", len(c["rel_recs"]))
    for (d, specs, seeds), recs in zip(c["rel"], c["rel_recs"]):
        check_release_records(ctx, recs, {"kind": "release", "specs": specs, "seeds": seeds})
    _phase(ctx, "release", t0)
    t0 = time.time()
    # (c) real commands
    git_urls = make_git_repos(ctx)
    jobs, scripts = [], []
    n_real = ctx.scale(48, 480)
    for h in range(n_real):
        r = ctx.subrng("real", h)
        mode = r.choice(["develop", "develop", "release", "release", "mixed", "mixed"])
        script = gen_real_script(r, mode, git_urls if (git_urls and r.random() < 0.8) else None, ctx.scale(3, 6))
        scripts.append(script)
        jobs.append((os.path.join(ctx.tmp, "real%d" % h), script, ctx.repo, None))
    c["cleans"] = []
    reserve = total * 0.18
    # a guaranteed minimum of real dev/build + clean histories, whatever the load of the machine
    gs = guaranteed_mixed_scripts(ctx.subrng("guaranteed-mixed")) + guaranteed_scripts(ctx.subrng("guaranteed"))
    gjobs = [(os.path.join(ctx.tmp, "guar%d" % k), sc, ctx.repo, max(420.0, ctx.time_left())) for k, sc in enumerate(gs)]
    t = time.time()
    for sc, res in zip(gs, ctx.parallel(run_real, gjobs, workers=len(gjobs))):
        c["cleans"].extend(check_real(ctx, sc, res, {"kind": "real", "script": sc}))
        ctx.count("histories", "real-guaranteed")
    last, i, batch = time.time() - t, 0, 16
    while i < len(jobs):
        left = ctx.time_left() - reserve
        if left < max(last * 1.1, 20.0):
            break
        limit = max(45.0, left)
        t = time.time()
        results = ctx.parallel(run_real, [j[:3] + (limit,) for j in jobs[i:i + batch]], workers=batch)
        last = time.time() - t
        for script, res in zip(scripts[i:i + batch], results):
            c["cleans"].extend(check_real(ctx, script, res, {"kind": "real", "script": script}))
            ctx.count("histories", "real")
        i += batch
    if i < len(jobs):
        ctx.count("histories", "real-not-run-for-time", len(jobs) - i)
    _phase(ctx, "real", t0)


def _table_req(old, steps):
    return {"op": "refresh", "old": old, "visits": [[st[0].encode("utf8").hex(), st[3], st[5]] for st in steps]}


def correspond(ctx):
    import time
    t0 = time.time()
    try:
        _correspond(ctx)
    finally:
        _phase(ctx, "correspond", t0)


def _correspond(ctx):
    c = _CACHE.get(id(ctx), {})
    if "dev_recs" not in c:
        oracle(ctx)
        c = _CACHE[id(ctx)]
    # ---- develop: the table after every refresh, chained through the model's own table
    n = 0
    # the chain needs the model's previous table: step i of all histories goes through one driver process
    max_len = max((len(r) for r in c["dev_recs"]), default=0)
    tables = [[] for _ in c["dev_recs"]]
    for i in range(max_len):
        reqs, idxs = [], []
        for h, recs in enumerate(c["dev_recs"]):
            if i < len(recs) and "error" not in recs[i] and tables[h] is not None:
                reqs.append(_table_req(tables[h], recs[i]["steps"]))
                idxs.append(h)
        if not reqs:
            break
        outs = ctx.lean(DRIVER, reqs)
        for h, req, m in zip(idxs, reqs, outs):
            rec = c["dev_recs"][h][i]
            case = {"kind": "develop", "specs": c["dev"][h][1], "seed": c["dev"][h][2], "upto": i + 1}
            if "table" not in m:
                ctx.disagree("DevelopDirOracle refresh == Model.refresh", case, rec["table"], m)
                tables[h] = None
                continue
            bases = sorted(set(v[2] for v in req["visits"]))
            pref = {}
            for bdir in bases:
                pref.setdefault(bdir if (bdir == "" or bdir.endswith("/")) else bdir + "/", []).append(bdir)
            if any(len(v) > 1 for v in pref.values()):
                ctx.disagree("hypothesis NoTwin of dirs_injective holds for developNameFormatter", case,
                             [v for v in pref.values() if len(v) > 1], "no two base directories differ only by a trailing /")
            mt = sorted(m["table"])
            kept = m["kept"]
            new = len(mt) - kept
            ctx.count("refresh", "kept>0,new>0" if kept and new else "kept>0" if kept else "new>0" if new else "empty")
            ctx.case(("refresh", json.dumps(req, sort_keys=True)), nontrivial=bool(kept and new),
                     sample={"refresh": {"kept": kept, "new": new, "visits": len(req["visits"])}})
            n += 1
            if mt != rec["table"]:
                ctx.disagree("DevelopDirOracle refresh == Model.refresh", case, rec["table"], mt)
                tables[h] = None
                continue
            tables[h] = m["table"]
            # ready mode: getWorkspacePath() == lookup + "/workspace"
            look = dict(mt)
            for recipe, lab, name, vid, path, base in rec["steps"]:
                key = recipe.encode("utf8").hex() + vid
                want = look.get(key)
                ctx.case(("ready", key, want), nontrivial=True)
                if want is None or path != want + "/workspace":
                    ctx.disagree("Step.getWorkspacePath == Model.runnable(fmtReady)", dict(case, key=key), path, want)
    ctx.trace_validated(n)
    # ---- collectPaths on primed directory states (no build needed): real result == Model.collectPaths
    reqs, metas = [], []
    for h, recs in enumerate(c["dev_recs"]):
        for i, rec, cp in [(i, rec, cp) for i, rec in enumerate(recs) for cp in rec.get("collects", [])]:
            pkgs = [{"id": p["id"], "deps": p["deps"],
                     "co": [bool(p["steps"]["src"]["valid"]), p["steps"]["src"]["path"], p["steps"]["src"]["vid"]],
                     "b": [bool(p["steps"]["build"]["valid"]), p["steps"]["build"]["path"], p["steps"]["build"]["vid"]],
                     "p": [bool(p["steps"]["dist"]["valid"]), p["steps"]["dist"]["path"], p["steps"]["dist"]["vid"]]} for p in cp["pkgs"]]
            reqs.append({"op": "clean", "mode": "develop", "src": False, "force": False, "dryRun": True, "verbose": False,
                         "root": cp["root"], "fuel": len(pkgs) + 2, "pkgs": pkgs, "states": cp["states"], "byname": [],
                         "attic": [], "existing": [], "expendable": [], "atticExpendable": []})
            metas.append((cp, {"kind": "collect", "specs": c["dev"][h][1], "seed": c["dev"][h][2], "upto": i + 1}))
    outs = ctx.lean(DRIVER, reqs) if reqs else []
    for (cp, case), m in zip(metas, outs):
        mu = sorted(set(m.get("used", []))) if "used" in m else m
        ctx.case(("collect-model", json.dumps(cp, sort_keys=True)), nontrivial=bool(cp["states"]))
        if mu != cp["used"]:
            ctx.disagree("collectPaths == Model.collectPaths", case, cp["used"], mu)
    ctx.trace_validated(len(reqs))
    # ---- base directory formatters
    base_reqs, base_impl = [], []
    seen = set()
    for recs in c["dev_recs"][:40]:
        for rec in recs:
            for recipe, lab, nm, vid, path, base in rec.get("steps", []):
                if (lab, nm) not in seen:
                    seen.add((lab, nm))
                    base_reqs.append({"op": "base", "mode": "develop", "label": lab, "name": nm})
                    base_impl.append(base)
    from bob.builder import LocalBuilder

    class FakeStep:
        def __init__(self, lab, name):
            self.lab, self.name = lab, name

        def isCheckoutStep(self):
            return self.lab == "src"

        def getLabel(self):
            return self.lab

        def getPackage(self):
            return self

        def getRecipe(self):
            return self

        def getName(self):
            return self.name

        def getPackageName(self):
            return self.name
    r = ctx.subrng("names")
    for i in range(ctx.scale(1500, 20000)):
        nm = "".join(r.choice(["a", "b", "-", "_", "1", ":", "::", "::", ".", "+"]) for _ in range(r.randrange(0, 6)))
        lab = r.choice(["src", "build", "dist"])
        for mode, f in (("develop", LocalBuilder.developNameFormatter), ("release", LocalBuilder.releaseNameFormatter)):
            base_reqs.append({"op": "base", "mode": mode, "label": lab, "name": nm})
            base_impl.append(f(FakeStep(lab, nm), {}))
    for req, want, m in zip(base_reqs, base_impl, ctx.lean(DRIVER, base_reqs)):
        ctx.case(("base", req["mode"], req["label"], req["name"]), nontrivial="::" in req["name"])
        if m.get("base") != want:
            ctx.disagree("nameFormatter == Model.developBase/releaseBase", req, want, m.get("base"))
    # ---- release: by-name state
    reqs, metas = [], []
    for (d, specs, seeds), recs in zip(c["rel"], c["rel_recs"]):
        state = []
        for i, rec in enumerate(recs):
            if "error" in rec:
                break
            reqs.append({"op": "byname", "state": state, "calls": [cl[:3] for cl in rec["calls"]]})
            metas.append((rec, {"kind": "release", "specs": specs, "seeds": seeds, "upto": i + 1}, state))
            state = rec["state"]
    outs = ctx.lean(DRIVER, reqs) if reqs else []
    for req, (rec, case, state), m in zip(reqs, metas, outs):
        ctx.case(("byname", json.dumps(req, sort_keys=True)), nontrivial=bool(state) and bool(req["calls"]))
        ctx.count("byname", "calls=%d" % min(len(req["calls"]), 30 if len(req["calls"]) >= 30 else (len(req["calls"]) // 10) * 10))
        if "paths" not in m:
            ctx.disagree("getByNameDirectory == Model.getByName", case, rec["state"], m)
            continue
        if m["paths"] != [cl[3] for cl in rec["calls"]] or m["state"] != rec["state"] or sorted(m["all"]) != rec["alldirs"]:
            ctx.disagree("getByNameDirectory == Model.getByName", case,
                         {"paths": [cl[3] for cl in rec["calls"]], "state": rec["state"], "all": rec["alldirs"]}, m)
    ctx.trace_validated(len(reqs))
    correspond_real(ctx, c.get("cleans", []))


def correspond_real(ctx, events):
    """real command runs against the model: every `bob clean`, every PRUNE decision"""
    for e in events:
        if e["kind"] == "skip":
            ctx.skip("clean correspondence: " + e["why"])
    cl = [e for e in events if e["kind"] == "clean"]
    outs = ctx.lean(DRIVER, [e["req"] for e in cl]) if cl else []
    for e, m in zip(cl, outs):
        compare_clean(ctx, e, m)
    ctx.trace_validated(len(cl))
    # ---- the prune decision of bob dev / bob build: PRUNE messages vs. cookBuild / preparePackage
    reqs, metas = [], []
    for e in events:
        if e["kind"] == "build":
            for req, path, was_pruned in e["prune"]:
                reqs.append(req)
                metas.append((e, path, was_pruned))
    outs = ctx.lean(DRIVER, reqs) if reqs else []
    for req, (ev, path, was_pruned), m in zip(reqs, metas, outs):
        model_pruned = "emptyDir" in m["ops"] or "unlink" in m["ops"]
        ctx.case(("prune", json.dumps(req, sort_keys=True), path), nontrivial=req.get("present", req.get("there", False)))
        ctx.count("prune", "%s:%s" % (req["kind"], "pruned" if model_pruned else "kept" if req.get("present", req.get("there")) else "new"))
        if model_pruned != was_pruned:
            ctx.disagree("builder PRUNE decision == Model.cookBuild/preparePackage", dict(ev["here"], path=path), was_pruned, m["ops"])
    ctx.trace_validated(len(reqs))


def build_event(res, here):
    """what the correspondence needs from one bob dev / bob build run (snapshots are dropped)"""
    bfs = res["before"]["fs"]
    old = {d[0]: d for d in res["before"]["state"]["dirStates"]}
    pruned = set(l.split("PRUNE", 1)[1].strip().split(" (recipe changed)")[0] for l in res["out"] if "PRUNE" in l and "(recipe changed)" in l)
    out = []
    for d in res["after"]["state"]["dirStates"]:
        if d[1] not in ("build", "pkg"):
            continue
        o = old.get(d[0])
        if d[1] == "build":
            req = {"op": "prune", "kind": "build", "created": d[0] not in bfs, "present": d[0] in bfs, "force": False,
                   "old": o[5] if o else None, "new": d[5], "stored": None, "inputs": ""}
        else:
            req = {"op": "prune", "kind": "package", "there": d[0] in bfs, "fileOrLink": bfs.get(d[0], "d") != "d",
                   "old": o[5] if o else None, "new": d[5]}
        out.append((req, d[0], d[0] in pruned))
    return {"kind": "build", "prune": out, "here": here}


def clean_event(res, args, cmode, here):
    """model request and implementation observation of one `bob clean` run (snapshots are dropped)"""
    bst, bfs, g = res["before"]["state"], res["before"]["fs"], res["graph"]
    pkgs = []
    for p in g["pkgs"]:
        def st(lab):
            s = p["steps"][lab]
            return [bool(s["valid"]), s["path"], s["vid"]]
        pkgs.append({"id": p["id"], "co": st("src"), "b": st("build"), "p": st("dist"), "deps": p["deps"]})
    states = [[d[0], d[1], d[2]] for d in bst["dirStates"]]
    byname = [[d0, bool(issrc)] for k, n, d0, issrc in bst["byNameDirs"] if n is None]
    attic = [p for p, _ in bst["attic"]]
    cand = set(d[0] for d in bst["dirStates"]) | set(attic) | set(os.path.join(b[0], "workspace") for b in byname)
    existing = sorted(p for p in cand if p in bfs)
    # SCM status is an input of the model: taken from the SCM API (`status().expendable`) right before the run
    scm = res.get("scm") or {}
    if "src" not in scm:
        return {"kind": "skip", "why": "SCM status unavailable: " + str(scm.get("child_error"))}
    expendable = sorted(p for p, ok in scm["src"].items() if ok)
    attic_exp = sorted(p for p, ok in scm["attic"].items() if ok)
    req = {"op": "clean", "mode": cmode, "src": "-s" in args, "force": "-f" in args, "dryRun": "--dry-run" in args,
           "verbose": "-v" in args, "root": g["root"], "fuel": len(pkgs) + 2, "pkgs": pkgs, "states": states,
           "byname": byname, "attic": attic, "existing": existing, "expendable": expendable, "atticExpendable": attic_exp}
    ast = res["after"]["state"]
    impl = {"printed": [l[3:] for l in res["out"] if l.startswith("rm ")],
            "removed": _roots(bfs, res["after"]["fs"]),
            "states": sorted([d[0], d[1], d[2]] for d in ast["dirStates"]),
            "attic": sorted(p for p, _ in ast["attic"])}
    return {"kind": "clean", "args": args, "req": req, "impl": impl, "here": here}


def compare_clean(ctx, e, m):
    case = e["here"]
    if "del" not in m:
        ctx.disagree("doClean == Model.doClean", case, "ok", m)
        return
    model = {"printed": [o[1] for o in m["ops"] if o[0] == "print"],
             "removed": sorted(o[1] for o in m["ops"] if o[0] == "rm"),
             "states": sorted(m["states"]), "attic": sorted(m["attic"])}
    ctx.count("clean_corr", "del=%d" % min(len(m["del"]), 6))
    if e["impl"] != model:
        ctx.disagree("doClean == Model.doClean (printed rm lines, removed directories, remaining state)",
                     dict(case, args=e["args"]), e["impl"], model)


def replay(ctx, case):
    import shutil
    k = case.get("kind")
    d = os.path.join(ctx.tmp, "replay")
    shutil.rmtree(d, ignore_errors=True)
    upto = case.get("upto")
    if k == "develop":
        specs = case["specs"][:upto] if upto else case["specs"]
        check_develop_records(ctx, develop_history((d, specs, case.get("seed", 0))), {"kind": "develop", "specs": specs, "seed": case.get("seed", 0)})
    elif k == "collect":
        specs = case["specs"][:upto] if upto else case["specs"]
        check_collect_records(ctx, develop_history((d, specs, case.get("seed", 0))), {"kind": "collect", "specs": specs, "seed": case.get("seed", 0)})
    elif k == "release":
        specs = case["specs"][:upto] if upto else case["specs"]
        check_release_records(ctx, release_history((d, specs, case["seeds"])), {"kind": "release", "specs": specs, "seeds": case["seeds"]})
    elif k == "real":
        script = case["script"][:upto] if upto else case["script"]
        urls = make_git_repos(ctx)
        if urls:
            remap = {os.path.basename(u): u for u in urls}
            script = json.loads(json.dumps(script))
            for st in script:
                sp = st.get("spec")
                if sp:
                    sp["git_urls"] = [remap.get(os.path.basename(u), u) for u in sp.get("git_urls", [])]
                    if sp.get("git"):
                        sp["git"] = remap.get(os.path.basename(sp["git"]), sp["git"])
        check_real(ctx, script, run_real((d, script, ctx.repo, None)), {"kind": "real", "script": script})


MANIFEST = {
    "text": "Proved in Lean (Props/C16.lean) for all histories: after any sequence of refreshes of the develop directory table "
            "from the empty table no two keys (recipe name ++ Variant-Id, uniquely decodable) own the same directory and a key whose "
            "stored path still starts with its base directory keeps it; the release by-name counters never give one directory to two "
            "Variant-Ids and never move a Variant-Id; `bob clean` deletes only known, existing directories that belong to no package "
            "reachable from the root with matching or absent stored digest (source workspaces only with -s and -f or an expendable SCM "
            "status), keeps every such workspace and its state, and --dry-run yields only prints and an unchanged world; a workspace "
            "whose stored digest differs from the step now mapped to it is emptied and reset before the script runs (local model of "
            "the builder's decision). The hand-written models are tied to the source by differential runs: the real DevelopDirOracle "
            "on its sqlite file and the real release persister over generated edit histories, and real `bob dev/build/clean` runs in "
            "child processes whose printed rm lines, deleted directories and remaining state are compared with the model.",
    "note": "trusted: Lean kernel, harness/props/c16.py, harness/gen/c16_projects.py, sqlite3, os.path.join semantics (modelled, "
            "validated differentially), the traversal order over getDirectDepSteps() re-computed by the harness, SCM status as input",
    "technique": "Lean 4 proof over hand-written model + differential correspondence + property oracle on real command runs",
}


if __name__ == "__main__":
    if len(sys.argv) >= 5 and sys.argv[1] == "--helper":
        _helper_main(sys.argv[2:5])
