"""C09 - archive uploads are atomic and never overwrite.

All runs execute the REAL entry points (BaseArchive._uploadPackage, _uploadLocalFile, _downloadPackage with
a cache archive = Tee/MirrorLeecher/MirrorWriter, _downloadPackage as reader) of the current source in
forked child processes with strace attached (harness/gen/c09trace.py).

oracle (implementation only, no Lean):
  single     one process per scenario (package / .buildid / .fprnt / cache mirror; fresh, directories
             exist, destination already present; with and without fileMode; several payload sizes):
             fault free, EIO injected at EVERY system call that touches the archive, SIGKILL at every such
             call.  After each run: the artifact name is absent or a complete valid tgz equal to exactly one
             payload, a pre-existing artifact has the same inode and bytes, a failed upload published nothing.
  sched      2-4 real processes (uploaders with different payloads, mirrors, metadata uploaders, readers)
             single-stepped by the harness with SIGSTOP injected after every protocol system call, under
             directed (lost race at every position) and seeded random schedules with kills and one EIO per
             process; the invariants are checked on the real directory after EVERY step.
  stress     free running 2-8 uploaders/mirrors + polling readers on one Build-Id.
  tail       directed search for the payload size at which tarfile stops before the end of the upstream
             file (regression of F-C09-1): the cache copy must equal the upstream file.
correspond: every recorded run is replayed on the Lean model `drv_c09` (ArchiveFS.step): one model step per
             observed protocol operation, choice run/fail/kill as injected; the model must predict the kind and
             result of every operation (present/absent, EEXIST, which phase a write belongs to ...), the exit
             status of every process and the final directory (which names remain, sizes, modes).
"""
import hashlib
import json
import os
import random
import shutil
import signal
import time
import traceback

DRIVER = "drv_c09"
RULE = ("scenario = (entry point, payload size, fileMode, initial archive state) x (fault free | EIO at the k-th system "
        "call touching the archive, every k | SIGKILL at the k-th such call, every k), plus controlled multi-process "
        "schedules (directed lost-race positions and seeded random interleavings with kills/EIO) and free-running "
        "stress. A case is one executed run; distinct by (scenario, fault, schedule); non-trivial if at least one "
        "protocol operation beyond the exists-check was executed.")
ASSUMPTIONS = [
    "POSIX: link()/rename()/unlink()/open(O_EXCL) are atomic; a killed process leaves the file system as its last completed system call left it",
    "os.makedirs(exist_ok=True) is modelled as one operation (directories are never removed by the protocol); its failure = makedirs raises (an mkdir error is swallowed by makedirs when the directory exists meanwhile)",
    "tempfile.NamedTemporaryFile creates a fresh name (O_EXCL) in the given directory; its internal fstat/ioctl/lseek calls are not modelled (fault injection there is covered by the oracle only)",
    "io.BufferedWriter.close() = write what is buffered, then close(2); the buffered rest is written with one write(2)",
    "content is a sequence of abstract chunks (one per write call); gzip/tar validity of the bytes is C08's",
    "HTTP/WebDAV/Azure/custom back ends and the Windows branch of LocalArchiveUploader.__exit__ are not covered",
]

SIG_TAIL = "cache-mirror-truncated-tail"


# ------------------------------------------------------------------------------------------- fixtures

def _payload(seed, idx, size):
    r = random.Random("c09-%s-%s-%s" % (seed, idx, size))
    return r.randbytes(size)


def _T():
    from gen import c09trace
    return c09trace


class Fix:
    """files of one scenario below `wd`"""

    def __init__(self, wd, seed):
        T = _T()
        self.wd = wd
        self.seed = seed
        os.makedirs(wd, exist_ok=True)
        os.makedirs(os.path.join(wd, "c09w-meta"), exist_ok=True)
        self.audit = os.path.join(wd, "c09w-meta", "audit.json.gz")     # _pack stores it under its base name
        T.make_audit(self.audit)
        self.bid = T.bid_of("art-%s" % seed)
        self.payloads = {}
        # the default temporary directory of the children lives on ANOTHER file system (if there is one): code that
        # does not create its temporary file next to the destination cannot link()/rename() it into place
        self.tmpdir = _OTHER_TMP

    def cleanup(self):
        pass

    def content(self, idx, size):
        T = _T()
        d = os.path.join(self.wd, "c09w-c%d" % idx)
        if idx not in self.payloads:
            data = _payload(self.seed, idx, size)
            T.make_content(d, data)
            self.payloads[idx] = {"data": data}
        return d

    def dest(self, root, suffix=".tgz", bid=None):
        T = _T()
        return T._mk_archive({"path": root})._remoteName(bid or self.bid, suffix)

    def upload_inprocess(self, root, idx, size, file_mode=None):
        T = _T()
        spec = {"path": root}
        if file_mode is not None:
            spec["fileMode"] = file_mode
        a = T._mk_archive(spec)
        r = a._uploadPackage(self.bid, ".tgz", self.audit, self.content(idx, size))
        signal.signal(signal.SIGINT, signal.SIG_DFL)
        return r


def scan(root):
    out = {}
    for dp, _, fs in os.walk(root):
        for f in fs:
            p = os.path.join(dp, f)
            try:
                st = os.lstat(p)
            except FileNotFoundError:
                continue
            out[p] = {"size": st.st_size, "mode": st.st_mode & 0o777, "ino": st.st_ino, "nlink": st.st_nlink}
    return out


_OTHER_TMP = None      # set once per check run (before the worker pool is forked), removed at its end


def other_fs_tmpdir(wd):
    """a fresh directory on another file system than the scratch area `wd`, if there is one"""
    try:
        here = os.stat(wd).st_dev
        for cand in ("/dev/shm",):
            if os.path.isdir(cand) and os.access(cand, os.W_OK) and os.stat(cand).st_dev != here:
                d = os.path.join(cand, "bobverif-C09-tmp-%d" % os.getpid())
                os.makedirs(d, exist_ok=True)
                return d
    except OSError:
        pass
    return None


class other_tmp:
    """context manager: the children's default temporary directory for the duration of one oracle/replay run"""

    def __init__(self, ctx):
        self.ctx = ctx

    def __enter__(self):
        global _OTHER_TMP
        _OTHER_TMP = other_fs_tmpdir(self.ctx.tmp)
        if _OTHER_TMP is None:
            self.ctx.count("environment", "no second file system for the default temp dir")
        return _OTHER_TMP

    def __exit__(self, *exc):
        global _OTHER_TMP
        if _OTHER_TMP:
            shutil.rmtree(_OTHER_TMP, ignore_errors=True)
        _OTHER_TMP = None
        return False


# ------------------------------------------------------------------------------------------- oracle pieces

class DestWatch:
    """the property on the real directory: absent, or complete + equal to exactly one payload; once present never
    another inode / other bytes"""

    def __init__(self, dest, payloads, upstream=None):
        self.dest = dest
        self.payloads = payloads       # list of {"data": bytes}
        self.upstream = upstream       # mirror: bytes of the upstream file (cache copy must equal it)
        self.first = None
        self.findings = []

    def check(self, when):
        T = _T()
        r = T.read_artifact(self.dest)
        if r is None:
            if self.first is not None:
                self._add("artifact name disappeared (%s)" % when, "artifact-removed")
            return None
        st, data = r
        h = hashlib.sha1(data).hexdigest()
        if self.first is None:
            which, why = self._valid(data)
            self.first = {"ino": st.st_ino, "sha": h, "size": len(data), "which": which, "mode": st.st_mode & 0o777}
            if which is None:
                self._add("artifact name holds an incomplete/invalid artifact (%s): %s, %d bytes" % (when, why, len(data)),
                          "artifact-incomplete")
        else:
            if st.st_ino != self.first["ino"]:
                self._add("existing artifact replaced by another inode (%s)" % when, "artifact-replaced")
                self.first["ino"] = st.st_ino
            if h != self.first["sha"]:
                self._add("content of the existing artifact changed (%s): %d -> %d bytes" % (when, self.first["size"], len(data)),
                          "artifact-modified")
                self.first["sha"] = h
            if (st.st_mode & 0o777) != self.first["mode"]:
                self._add("mode of the existing artifact changed (%s)" % when, "artifact-mode-changed")
                self.first["mode"] = st.st_mode & 0o777
        return st

    def _valid(self, data):
        T = _T()
        if self.upstream is not None and data == self.upstream:
            return "upstream", "ok"
        which, why = T.validate_tgz(data, self.payloads)
        if which is not None and self.upstream is not None and data != self.upstream:
            # extractable, but not the upstream file
            if self.upstream.startswith(data):
                return None, "cache copy is a proper prefix of the upstream file (%d of %d bytes)" % (len(data), len(self.upstream))
            # another uploader's complete artifact is fine (package uploads into the same archive)
        return which, why

    def _add(self, what, sig):
        if not any(f["signature"] == sig for f in self.findings):
            self.findings.append({"what": what, "signature": sig})


# ------------------------------------------------------------------------------------------- single process scenarios

def _action(fix, spec, root, idx=0, tag="a"):
    """the real call of scenario `spec` against archive `root`"""
    a, dest = _action0(fix, spec, root, idx, tag)
    a["tmpdir"] = fix.tmpdir
    return a, dest


def _action0(fix, spec, root, idx, tag):
    k = spec["kind"]
    aspec = {"path": root}
    if spec.get("fileMode") is not None:
        aspec["fileMode"] = spec["fileMode"]
    if k == "package":
        return {"kind": k, "spec": aspec, "bid": fix.bid.hex(), "audit": fix.audit,
                "content": fix.content(idx, spec["size"])}, fix.dest(root)
    if k in ("buildid", "fprnt"):
        data = _payload(fix.seed, "meta%d" % idx, 20)
        return {"kind": k, "spec": aspec, "bid": fix.bid.hex(), "data": data.hex()}, fix.dest(root, "." + k)
    if k == "mirror":
        if spec.get("nofail"):
            aspec["flags"] = ["download", "upload", "cache", "nofail"]
        out = os.path.join(fix.wd, "c09w-out-%s" % tag)
        return {"kind": k, "src": {"path": fix.src_root}, "caches": [aspec], "bid": fix.bid.hex(),
                "audit_out": out + ".audit.json.gz", "out": out}, fix.dest(root)
    if k == "reader":
        out = os.path.join(fix.wd, "c09w-rd-%s" % tag)
        return {"kind": k, "spec": aspec, "bid": fix.bid.hex(), "audit_out": out + ".audit.json.gz", "out": out}, fix.dest(root)
    raise AssertionError(k)


def _prepare_root(fix, spec, root):
    """initial state of the archive `root`; returns the payload index list that may legitimately be found"""
    pre = spec.get("pre", "fresh")
    k = spec["kind"]
    legit = [0]
    if pre == "fresh":
        return legit
    if k in ("buildid", "fprnt"):
        dest = fix.dest(root, "." + k)
        os.makedirs(os.path.dirname(dest), exist_ok=True)
        if pre == "present":
            with open(dest, "wb") as f:
                f.write(b"old-metadata")
        return legit
    dest = fix.dest(root)
    os.makedirs(os.path.dirname(dest), exist_ok=True)
    if pre == "present":
        fix.upload_inprocess(root, 9, 700 + (spec["size"] % 300))
        legit.append(9)
    return legit


def _ensure_upstream(fix, spec):
    if spec["kind"] == "mirror" and not getattr(fix, "src_root", None):
        fix.src_root = os.path.join(fix.wd, "upstream")
        fix.upload_inprocess(fix.src_root, 0, spec["size"])
        fix.upstream = open(fix.dest(fix.src_root), "rb").read()


def run_single(fix, spec, run_id, inject=(), collect_calls=False):
    """one real run; -> record"""
    T = _T()
    root = os.path.join(fix.wd, "arch-%s" % run_id)
    _ensure_upstream(fix, spec)
    _prepare_root(fix, spec, root)
    action, dest = _action(fix, spec, root, tag=run_id)
    srcfile = fix.dest(fix.src_root) if spec["kind"] == "mirror" else None
    payloads = [fix.payloads[i] for i in sorted(fix.payloads)]
    watch = None
    if spec["kind"] in ("package", "mirror"):
        watch = DestWatch(dest, payloads, upstream=getattr(fix, "upstream", None) if spec["kind"] == "mirror" else None)
        watch.check("before the run")
    before = scan(root)
    ch = T.Child(action, fix.wd, run_id, inject=list(inject))
    try:
        ch.run_to_end(120)
    except T.TraceUnavailable:
        ch.kill()
        ch.finish()
        raise
    res, how = ch.finish()
    calls = T.parse_log(ch.new_lines() + ([ch.partial] if ch.partial else []))
    norm = T.Normaliser(root, dest, srcfile=srcfile, is_reader=spec["kind"] == "reader")
    events, rel = T.normalise(calls, norm)
    after = scan(root)
    rec = {"spec": spec, "run": run_id, "inject": list(inject), "events": events, "result": res, "how": how,
           "before": _rel(before, root), "after": _rel(after, root), "dest": os.path.relpath(dest, root),
           "nwrites": norm.nwrites, "npack": norm.writes_before_exit, "info": norm.summary(), "findings": [],
           "injected_seen": any(c.get("injected") for c in calls), "root": root}
    if collect_calls:
        rec["_calls"] = calls
        rec["_rel"] = rel
    # ---- the property on the real directory
    if watch is not None:
        watch.check("after the run")
        rec["findings"] += watch.findings
        rec["dest_which"] = watch.first["which"] if watch.first else None
    else:
        # metadata files are replaced atomically: old or new content, nothing else
        try:
            got = open(dest, "rb").read()
        except FileNotFoundError:
            got = None
        new = bytes.fromhex(action["data"])
        old = b"old-metadata" if spec.get("pre") == "present" else None
        if got not in (new, old):
            rec["findings"].append({"what": "metadata file holds neither the old nor the new content: %r" % (got[:40],),
                                    "signature": "meta-torn"})
    shutil.rmtree(root, ignore_errors=True)
    for p in (action.get("out"), action.get("audit_out")):
        if p:
            if os.path.isdir(p):
                shutil.rmtree(p, ignore_errors=True)
            elif os.path.exists(p):
                os.unlink(p)
    return rec


def _rel(files, root):
    return {os.path.relpath(p, root): v for p, v in files.items()}


def _failed_upload_clause(spec, rec):
    """a failed upload leaves nothing under the artifact name"""
    f = rec["fault"]
    if spec["kind"] in ("package", "mirror") and spec.get("pre", "fresh") != "present" and f["before_link"] \
            and not (f["what"] == "eio" and f["op"] == "statDest") and not (f["what"] == "eio" and not f["proto"]):
        failed = rec["how"] == "killed" or (rec["result"] or {}).get("res") in ("fail", "internal")
        if failed and rec["dest"] in rec["after"]:
            rec["findings"].append({"what": "upload failed (%s at %s #%d, before link) but the artifact name is bound"
                                    % (f["what"], f["sys"], f["k"]), "signature": "failed-upload-published"})


def single_task(args):
    """baseline + every EIO + every kill for one scenario (runs in a pool worker)"""
    spec, wd, deadline, limits = args
    T = _T()
    out = {"spec": spec, "records": [], "skipped": None, "n_points": 0, "n_done": 0, "not_run": False}
    floor = limits.get("floor", 0)
    fix = None
    if time.time() > deadline and not floor:
        out["not_run"] = True
        return out
    try:
        fix = Fix(wd, spec["seed"])
        base = run_single(fix, spec, "base", collect_calls=True)
        calls, rel = base.pop("_calls"), base.pop("_rel")
        base["fault"] = None
        out["records"].append(base)
        if base["result"] is None or base["how"] != "exit":
            out["skipped"] = "baseline run did not finish"
            return out
        # fresh fault free upload must publish (sanity of the scenario, also catches uploads that cannot work)
        if spec["kind"] in ("package", "mirror") and spec.get("pre", "fresh") != "present":
            if base["dest"] not in base["after"]:
                base["findings"].append({"what": "fault free upload into an archive without the artifact returned %r and the artifact "
                                                 "name is absent afterwards" % (base["result"],),
                                         "signature": "upload-does-not-publish"})
        ev_at = {e["at"]: e for e in base["events"]}
        link_at = None
        for e in base["events"]:
            if e["op"] in ("link", "replace"):
                link_at = e["at"]
        points = []
        for i in rel:
            c = calls[i]
            if c["sys"].startswith("+"):
                continue
            sysname, k = T.ordinal(calls, i)
            ev = ev_at.get(i)
            proto = ev is not None or c["sys"] in ("mkdir", "mkdirat")
            points.append({"i": i, "sys": sysname, "k": k, "proto": proto, "op": ev["op"] if ev else None,
                           "before_link": link_at is None or i < link_at, "is_link": i == link_at})
        out["n_points"] = len(points)
        # protocol operations first, interpreter-internal calls on the temporary file afterwards
        # most telling fault classes first (a run that is short of time still covers them)
        classes = [("write", "eio"), ("link", "kill"), ("unlink", "kill"), ("replace", "kill"), ("fetch", "eio"),
                   ("close", "eio"), ("link", "eio"), ("replace", "eio"), ("unlink", "eio"), ("chmod", "eio"),
                   ("close", "kill"), ("chmod", "kill"), ("write", "kill"), ("create", "eio"), ("statDest", "eio")]
        order = []
        for op, what in classes:
            cand = [p for p in points if p["op"] == op]
            if op == "fetch" and len(cand) > 3:
                cand = [cand[0], cand[len(cand) // 2], cand[-1]] + [c for i, c in enumerate(cand) if i not in (0, len(cand) // 2, len(cand) - 1)]
            order += [(p, what) for p in cand]
        seen = {(p["i"], w) for p, w in order}
        for p in points:
            if p["proto"]:
                order += [(p, w) for w in ("eio", "kill") if (p["i"], w) not in seen]
        order += [(p, "kill") for p in points if not p["proto"]] + [(p, "eio") for p in points if not p["proto"]]
        if limits.get("max_points") is not None:
            order = order[:limits["max_points"]]
        # a scenario is spread over several tasks (each with its own fault free run): part j takes every n-th point
        part, nparts = limits.get("part", (0, 1))
        order = order[part::nparts]
        if part != 0:
            out["records"] = []          # the fault free run is reported by part 0 only
        for n, (p, what) in enumerate(order):
            if time.time() > deadline and n >= floor:
                break
            inj = "%s:%s:when=%d" % (p["sys"], "error=EIO" if what == "eio" else "signal=SIGKILL", p["k"])
            rec = run_single(fix, spec, "%s%d" % (what[0], n), inject=[inj])
            rec["fault"] = {"what": what, "sys": p["sys"], "k": p["k"], "proto": p["proto"], "op": p["op"],
                            "before_link": p["before_link"], "is_link": p["is_link"]}
            _failed_upload_clause(spec, rec)
            out["records"].append(rec)
            out["n_done"] += 1
    except T.TraceUnavailable as e:
        out["skipped"] = "strace: %s" % e
    except Exception:
        out["skipped"] = "harness error in scenario: " + traceback.format_exc()[-1500:]
    finally:
        shutil.rmtree(wd, ignore_errors=True)
        if fix is not None:
            fix.cleanup()
    return out


# ------------------------------------------------------------------------------------------- controlled schedules

class Stepper:
    """N real processes, each stopped after every protocol system call; the harness picks who runs"""

    def __init__(self, fix, root, procs, rng, eio=None):
        T = _T()
        self.T = T
        self.fix = fix
        self.root = root
        self.procs = procs
        self.children = []
        self.norms = []
        self.events = []          # global order: (pid, event)
        self.killed = set()
        self.results = {}
        stop = T.available_syscalls()
        for i, ps in enumerate(procs):
            action, dest = _action(fix, ps, root, idx=i, tag="p%d" % i)
            inj = []
            stopset = list(stop)
            if eio and i in eio:
                sysname, k = eio[i]
                stopset = [s for s in stopset if s != sysname]
                inj.append("%s:error=EIO:when=%d" % (sysname, k))
            inj.append(",".join(stopset) + ":signal=SIGSTOP:when=1+")
            ch = T.Child(action, fix.wd, "p%d" % i, inject=inj)
            self.children.append(ch)
            srcfile = fix.dest(fix.src_root) if ps["kind"] == "mirror" else None
            self.norms.append(T.Normaliser(root, dest, srcfile=srcfile, is_reader=ps["kind"] == "reader"))

    def _drain(self, i):
        ch = self.children[i]
        got = []
        lines = ch.new_lines()
        if ch.exited and ch.partial:
            lines.append(ch.partial)
            ch.partial = ""
        for c in self.T.parse_log(lines):
            ev, _ = self.norms[i].feed(c)
            if ev is not None and ev["op"] not in ("exited",):
                got.append(ev)
                self.events.append((i, ev))
        return got

    def alive(self, i):
        return not self.children[i].exited

    def op(self, i, max_noise=400):
        """run process i until it has executed one protocol operation (or terminated); -> events"""
        ch = self.children[i]
        for _ in range(max_noise):
            if ch.exited:
                return []
            stopped = ch.cont(60)
            if not stopped:
                # strace writes the last lines when the tracee is gone
                try:
                    ch.strace.wait(timeout=20)
                except Exception:
                    pass
            got = self._drain(i)
            if got or not stopped:
                return got
        return []

    def kill(self, i):
        ch = self.children[i]
        if not ch.exited:
            ch.kill()
            try:
                ch.strace.wait(timeout=20)
            except Exception:
                pass
            got = self._drain(i)
            self.killed.add(i)
            if not any(e["op"] == "killed" for e in got):      # (strace usually reports the kill itself)
                self.events.append((i, {"op": "killed"}))

    def close(self):
        out = []
        for i, ch in enumerate(self.children):
            if not ch.exited:
                try:
                    ch.run_to_end(60)
                except Exception:
                    ch.kill()
            res, how = ch.finish()
            self._drain(i)
            out.append({"result": res, "how": "killed" if i in self.killed else how})
        return out


def sched_task(args):
    """one controlled multi-process schedule (runs in a pool worker)"""
    spec, wd, deadline = args
    T = _T()
    out = {"spec": spec, "skipped": None, "findings": [], "events": [], "procs": []}
    st = None
    fix = None
    try:
        fix = Fix(wd, spec["seed"])
        root = os.path.join(wd, "arch")
        procs = spec["procs"]
        for i, ps in enumerate(procs):
            if ps["kind"] in ("package",):
                fix.content(i, ps["size"])
        if any(ps["kind"] == "mirror" for ps in procs):
            mi = [i for i, ps in enumerate(procs) if ps["kind"] == "mirror"][0]
            fix.src_root = os.path.join(wd, "upstream")
            # the upstream artifact has its own payload (index 50)
            fix.upload_inprocess(fix.src_root, 50, procs[mi]["size"])
            fix.upstream = open(fix.dest(fix.src_root), "rb").read()
        if spec.get("pre") == "dirs":
            os.makedirs(os.path.dirname(fix.dest(root)), exist_ok=True)
        payloads = [fix.payloads[i] for i in sorted(fix.payloads)]
        dest = fix.dest(root)
        watch = DestWatch(dest, payloads)
        rng = random.Random("sched-%s" % json.dumps(spec, sort_keys=True))
        eio = {int(k): tuple(v) for k, v in (spec.get("eio") or {}).items()}
        st = Stepper(fix, root, procs, rng, eio=eio)
        n = len(procs)
        script = list(spec.get("script") or [])      # directed prefix: [pid, "op"|"kill"|"end"]
        steps = 0
        meta_seen = {}
        while steps < 4000:
            live = [i for i in range(n) if st.alive(i)]
            if not live or (time.time() > deadline + 5 and not spec.get("mandatory")):
                break
            if script:
                i, what = script.pop(0)
                if not st.alive(i):
                    continue
            else:
                i = rng.choice(live)
                what = "kill" if rng.random() < spec.get("pkill", 0.0) else "op"
            if what == "kill":
                st.kill(i)
            elif what == "end":
                while st.alive(i):
                    st.op(i)
                    steps += 1
                    watch.check("while process %d runs alone" % i)
            else:
                st.op(i)
            steps += 1
            watch.check("after step %d (process %d)" % (steps, i))
        ends = st.close()
        evs = st.events
        out["infos"] = [nm.summary() for nm in st.norms]
        st = None
        watch.check("at the end")
        out["findings"] = watch.findings
        out["procs"] = ends
        out["events"] = [[i, e] for i, e in evs]
        out["after"] = _rel(scan(root), root)
        out["dest"] = os.path.relpath(dest, root)
    except T.TraceUnavailable as e:
        out["skipped"] = "strace: %s" % e
    except Exception:
        out["skipped"] = "harness error in schedule: " + traceback.format_exc()[-1500:]
    finally:
        if st is not None:
            for ch in st.children:
                ch.kill()
                try:
                    ch.finish()
                except Exception:
                    pass
        if fix is not None:
            fix.cleanup()
    return out


# ------------------------------------------------------------------------------------------- free running stress

def stress_task(args):
    """free running uploaders (+ mirrors) with different payloads and polling readers on one Build-Id"""
    spec, wd, deadline = args
    T = _T()
    out = {"spec": spec, "findings": [], "skipped": None, "rounds": 0, "reads": 0, "winners": {}}
    try:
        rng = random.Random("stress-%s" % json.dumps(spec, sort_keys=True))
        for rnd in range(spec["rounds"]):
            if time.time() > deadline and not (spec.get("mandatory") and rnd == 0):
                break
            rwd = os.path.join(wd, "r%d" % rnd)
            fix = Fix(rwd, "%s-%d" % (spec["seed"], rnd))
            root = os.path.join(rwd, "arch")
            n = spec["uploaders"]
            for i in range(n):
                fix.content(i, rng.choice(spec["sizes"]))
            nm = spec.get("mirrors", 0)
            if nm:
                fix.src_root = os.path.join(rwd, "upstream")
                fix.upload_inprocess(fix.src_root, 50, rng.choice(spec["sizes"]))
                fix.upstream = open(fix.dest(fix.src_root), "rb").read()
            payloads = [fix.payloads[i] for i in sorted(fix.payloads)]
            dest = fix.dest(root)
            go = os.path.join(rwd, "go")
            pids = []
            for i in range(n + nm):
                pid = os.fork()
                if pid == 0:
                    try:
                        T._die_with_parent()
                        while not os.path.exists(go):
                            time.sleep(0.0002)
                        if i < n:
                            a, _ = _action(fix, {"kind": "package", "size": 0, "fileMode": 0o640 if i % 2 else None}, root, idx=i, tag="s%d" % i)
                        else:
                            a, _ = _action(fix, {"kind": "mirror", "size": 0, "fileMode": None}, root, idx=i, tag="s%d" % i)
                        r = T.perform(a)
                        with open(os.path.join(rwd, "res%d" % i), "w") as f:
                            json.dump(r, f)
                    finally:
                        os._exit(0)
                pids.append(pid)
            # polling readers (this process + forked ones): every successful open must yield a complete artifact,
            # and always the same one
            stop = os.path.join(rwd, "stop")
            rpids = []
            for k in range(spec.get("readers", 4) - 1):
                pid = os.fork()
                if pid == 0:
                    try:
                        T._die_with_parent()
                        w = DestWatch(dest, payloads)
                        cnt = 0
                        while not os.path.exists(stop):
                            w.check("polling reader %d in round %d" % (k + 1, rnd))
                            cnt += 1
                            time.sleep(0.0003)
                        w.check("polling reader %d at the end of round %d" % (k + 1, rnd))
                        with open(os.path.join(rwd, "rd%d" % k), "w") as f:
                            json.dump({"findings": w.findings, "reads": cnt, "first": w.first and w.first["sha"]}, f)
                    finally:
                        os._exit(0)
                rpids.append(pid)
            watch = DestWatch(dest, payloads)
            open(go, "w").close()
            left = set(pids)
            t_end = time.time() + 90
            while left and time.time() < t_end:
                watch.check("reader poll in round %d" % rnd)
                out["reads"] += 1
                time.sleep(0.0002)
                for pid in list(left):
                    p, st = os.waitpid(pid, os.WNOHANG)
                    if p == pid:
                        left.discard(pid)
            for pid in left:
                os.kill(pid, signal.SIGKILL)
                os.waitpid(pid, 0)
            open(stop, "w").close()
            for k, pid in enumerate(rpids):
                os.waitpid(pid, 0)
                try:
                    rr = json.load(open(os.path.join(rwd, "rd%d" % k)))
                except Exception:
                    continue
                out["reads"] += rr["reads"]
                for f in rr["findings"]:
                    watch._add(f["what"], f["signature"])
                if rr["first"] and watch.first is None:
                    watch.check("after the readers of round %d" % rnd)
                if rr["first"] and watch.first and rr["first"] != watch.first["sha"]:
                    watch._add("two readers found different artifacts under the same name", "artifact-replaced")
            watch.check("after round %d" % rnd)
            res = []
            for i in range(n + nm):
                try:
                    res.append(json.load(open(os.path.join(rwd, "res%d" % i)))["res"])
                except Exception:
                    res.append(None)
            timed_out = bool(left) or any(r is None for r in res)
            if timed_out:
                out["timeouts"] = out.get("timeouts", 0) + 1      # machine too slow: no verdict on the results of this round
            elif watch.first is None:
                watch._add("no uploader published although all ran fault free: %r" % (res,), "upload-does-not-publish")
            elif any(r not in ("ok", "skipped") for r in res):
                watch._add("fault free concurrent upload reported %r" % (res,), "concurrent-upload-fails")
            leftovers = [p for p in scan(root) if p != dest]
            if leftovers and not timed_out:
                watch._add("temporary files left behind by fault free uploads: %r" % ([os.path.basename(p) for p in leftovers][:4],),
                           "tmp-left-behind")
            for f in watch.findings:
                out["findings"].append(dict(f, round=rnd))
            if watch.first:
                out["winners"][str(watch.first["which"])] = out["winners"].get(str(watch.first["which"]), 0) + 1
            out["rounds"] += 1
            shutil.rmtree(rwd, ignore_errors=True)
            fix.cleanup()
    except Exception:
        out["skipped"] = "harness error in stress: " + traceback.format_exc()[-1500:]
    finally:
        shutil.rmtree(wd, ignore_errors=True)
    return out


# ------------------------------------------------------------------------------------------- F-C09-1 regression search

def tail_task(args):
    """find payload sizes for which the upstream .tgz ends just behind a read block boundary of tarfile
    (512 + k*10240) and mirror it into a cache: the cache copy must equal the upstream file"""
    spec, wd, deadline = args
    T = _T()
    out = {"spec": spec, "findings": [], "skipped": None, "tried": [], "hit": 0}
    try:
        fix = Fix(wd, spec["seed"])
        size = spec["start"]
        for attempt in range(14):
            if time.time() > deadline and attempt > 0 and not (spec.get("mandatory") and not out["hit"]):
                break
            up = os.path.join(wd, "up%d" % attempt)
            cache = os.path.join(wd, "cache%d" % attempt)
            d = os.path.join(wd, "c09w-t%d" % attempt)
            data = _payload(spec["seed"], "tail", 200000)[:size]
            T.make_content(d, data)
            a = T._mk_archive({"path": up})
            a._uploadPackage(fix.bid, ".tgz", fix.audit, d)
            signal.signal(signal.SIGINT, signal.SIG_DFL)
            srcfile = fix.dest(up)
            upstream = open(srcfile, "rb").read()
            resid = (len(upstream) - 512) % 10240
            out["tried"].append([size, len(upstream), resid])
            if 1 <= resid <= spec["want"] + 3:
                out["hit"] += 1
                outdir = os.path.join(wd, "c09w-out%d" % attempt)
                r = T.perform({"kind": "mirror", "src": {"path": up}, "caches": [{"path": cache}], "bid": fix.bid.hex(),
                               "audit_out": outdir + ".audit.json.gz", "out": outdir})
                signal.signal(signal.SIGINT, signal.SIG_DFL)
                got = T.read_artifact(fix.dest(cache))
                if r["res"] == "ok" and (got is None or got[1] != upstream):
                    n = -1 if got is None else len(got[1])
                    out["findings"].append({
                        "what": "cache mirror of a %d byte upstream artifact holds %d bytes (%s): the tail behind tarfile's "
                                "last read block is missing" % (len(upstream), n,
                                                                "a proper prefix" if got and upstream.startswith(got[1]) else "different data"),
                        "signature": SIG_TAIL, "size": size})
                if out["hit"] >= spec.get("hits", 1):
                    break
                size += 10240
                continue
            size += (spec["want"] - resid) % 10240
            if size > 190000:
                size = spec["start"] + attempt
    except Exception:
        out["skipped"] = "harness error in tail search: " + traceback.format_exc()[-1500:]
    finally:
        shutil.rmtree(wd, ignore_errors=True)
    return out


# ------------------------------------------------------------------------------------------- correspondence with the model

def _counts(evs, info):
    """(N, nPack, sizes) of one process: how many chunks it writes and how many of them before `__exit__`.
    `info` = Normaliser.summary(): whether (and after how many writes) LocalArchiveUploader.__exit__ was entered"""
    sizes = [e["size"] for e in evs if e["op"] == "write" and e.get("res") == "ok"]
    if info and info.get("marker") and not info.get("exit_failing"):
        npack = info["writes_before_exit"]
        flush = 1 if any(e["op"] == "write" and e.get("in_exit") for e in evs) else 0
        return max(npack + flush, len(sizes)), npack, sizes
    # `__exit__` not reached, or reached with an exception pending: every observed write belongs to the with-body
    # and the body was not finished
    n = len(sizes) + 1
    return n, n, sizes


def _real_label(e):
    op, res = e["op"], e.get("res")
    if op == "write":
        if res == "ok":
            return ["write", "ok", e["k"], bool(e.get("in_exit"))]
        return ["write", "inj" if res == "inj" else res, None, bool(e.get("in_exit"))]
    if op in ("link", "replace"):
        if not (e.get("src_is_tmp") and e.get("dst_is_dest")):
            return ["foreign", op, res]
        return [op, res]
    if op in ("statDest", "ensureDir", "create", "close", "chmod", "unlink", "mOpen", "rOpen", "fetch", "killed"):
        return [op, res] if op != "killed" else ["killed"]
    return ["foreign", op, res]


def _model_label(ev, kind):
    pre, post, ch = ev["pre"], ev["post"], ev["choice"]
    if ev.get("killed"):
        return ["dead", pre]
    if ch == "kill":
        return ["killed"]
    r = "inj" if ch in ("fail", "failFetch") else "ok"
    b = pre.split(":")[0]
    if b == "statDest":
        return ["statDest", "inj" if ch == "fail" else ("present" if post == "done:skipped" else "absent")]
    if b in ("ensureDir", "create", "chmod", "mOpen"):
        return [b, r]
    if b == "write":
        return ["write", r, int(pre.split(":")[1]) if r == "ok" else None, False]
    if b == "flush":
        return ["write", r, (ev["app"][0] % 1000) if (r == "ok" and ev["app"]) else None, True]
    if b in ("close", "fClose"):
        return ["close", r]
    if b == "publish":
        if kind in ("buildid", "fprnt"):
            return ["replace", r]
        return ["link", "inj" if ch == "fail" else ("ok" if post == "unlink:linked" else "eexist")]
    if b in ("unlink", "fUnlink"):
        return ["unlink", r]
    if b == "rOpen":
        return ["rOpen", "inj" if ch == "fail" else ("ok" if post.startswith("rRead") else "notFound")]
    if b == "fetch":
        return ["fetch", r]
    return ["unexpected", pre]


RES_OF_PC = {"done:ok": "ok", "done:lost": "ok", "done:skipped": "skipped", "done:failed": "fail",
             "done:notFound": "notFound", "done:read": "ok"}


def build_case(kinds, file_modes, evlist, ends, after, dest_rel, pre=None, infos=None, meta_rel=None):
    """-> (driver request, list of expectations) for one recorded run.
    kinds[i] of process i; evlist = [(pid, event)] in global order; ends[i] = {"result","how"};
    pre = None | {"kind", "size", "mode"} (an artifact/metadata file that existed before, modelled as process len(kinds))"""
    n = len(kinds)
    per = {i: [e for p, e in evlist if p == i] for i in range(n)}
    counts = {i: _counts(per[i], (infos or {}).get(i)) for i in range(n)}
    procs = []
    for i in range(n):
        N, npk, _ = counts[i]
        procs.append({"kind": kinds[i], "payload": [i * 1000 + j for j in range(N)], "nPack": npk, "consumed": N,
                      "fileMode": file_modes[i] is not None})
    sched, expect = [], []
    if pre is not None:
        procs.append({"kind": pre["kind"], "payload": [n * 1000], "nPack": 0, "consumed": 1, "fileMode": False})
        for _ in range(12):
            sched.append([n, "run"])
            expect.append(None)
    skip_mkdirfail = set()
    no_cache = set()     # mirrors that found the artifact in the cache: the download goes on without touching the cache
    for idx, (p, e) in enumerate(evlist):
        op, res = e["op"], e.get("res")
        if op == "exited" or idx in skip_mkdirfail:
            continue
        if p in no_cache and op != "killed":
            continue
        if op == "statDest" and res == "present" and kinds[p] == "mirror":
            no_cache.add(p)
        if op == "killed":
            sched.append([p, "kill"]); expect.append([p, ["killed"]]); continue
        if op == "fetch":
            if res == "inj":
                sched.append([p, "failFetch"]); expect.append([p, ["fetch", "inj"]])
            continue
        if op == "bodyFail":
            sched.append([p, "failFetch"]); expect.append([p, ["fetch", "inj"]])
            continue
        if op in ("srcClose", "rClose"):
            continue
        if op == "rRead":
            if res == "ok" and e.get("size") == 0:
                for _ in range(40):
                    sched.append([p, "run"]); expect.append(None)
            elif res != "ok":
                sched.append([p, "fail"]); expect.append(None)
            continue
        if op == "mkdirFail":
            # an injected mkdir failure that was not announced by an ensureDir event
            sched.append([p, "fail"]); expect.append([p, ["ensureDir", "inj"]]); continue
        choice = "fail" if res == "inj" else "run"
        lab = _real_label(e)
        if op == "ensureDir":
            # os.makedirs is one model operation: it fails iff one of its mkdir calls got the injected error
            for j in range(idx + 1, len(evlist)):
                if evlist[j][0] == p:
                    if evlist[j][1]["op"] == "mkdirFail":
                        choice = "fail"; lab = ["ensureDir", "inj"]; skip_mkdirfail.add(j)
                    break
        sched.append([p, choice]); expect.append([p, lab])
    req = {"op": "run", "procs": procs, "sched": sched}
    return req, {"expect": expect, "counts": counts, "kinds": kinds, "file_modes": file_modes, "ends": ends,
                 "after": after, "dest": dest_rel, "pre": pre, "n": n, "meta_rel": meta_rel, "infos": infos or {}}


def compare_case(req, exp, rep):
    """-> list of differences between the model's run and the recorded real run"""
    diffs = []
    n = exp["n"]
    kinds = exp["kinds"]
    evs = rep["events"]
    for j, (want, got) in enumerate(zip(exp["expect"], evs)):
        if want is None:
            continue
        p, lab = want
        ml = _model_label(got, kinds[p] if p < n else "pre")
        if ml != lab:
            diffs.append("step %d of process %d: implementation %r, model %r (pc %s -> %s)" % (j, p, lab, ml, got["pre"], got["post"]))
            if len(diffs) > 3:
                break
    fin = rep["final"]
    # exit status of every process
    for i in range(n):
        end = exp["ends"][i]
        mp = fin["procs"][i]
        if end["how"] == "killed":
            if not mp["killed"]:
                diffs.append("process %d was killed, model process is not" % i)
            continue
        if mp["killed"]:
            diffs.append("model process %d killed, real one exited" % i)
            continue
        if not mp["pc"].startswith("done:"):
            diffs.append("process %d has exited, the model process still is at %s" % (i, mp["pc"]))
            continue
        r = end["result"]
        if r is None:
            continue
        want = RES_OF_PC[mp["pc"]]
        if kinds[i] == "mirror" and want == "skipped":
            continue        # the rest of the download does not concern the cache archive any more
        got = r["res"]
        if got == "internal":
            got = "fail"
        if kinds[i] == "reader":
            continue
        if want != got:
            diffs.append("process %d returned %r (%s), model %s" % (i, r["res"], (r.get("msg") or "")[:80], mp["pc"]))
    sizes = {i: exp["counts"][i][2] for i in range(n)}
    # a reader that reached end of file has read exactly the bytes of the model reader's chunks
    for i in range(n):
        if kinds[i] == "reader" and exp["ends"][i]["how"] == "exit" and fin["procs"][i]["pc"] in ("done:read", "done:notFound"):
            tot, known = 0, True
            for c in fin["procs"][i]["acc"]:
                p, j = c // 1000, c % 1000
                if p < n and j < len(sizes[p]):
                    tot += sizes[p][j]
                else:
                    known = False
            got = (exp["infos"].get(i) or {}).get("read_bytes")
            if known and got is not None and got != tot:
                diffs.append("reader %d read %d bytes, the model reader read chunks %r = %d bytes" % (i, got, fin["procs"][i]["acc"], tot))
    # final directory

    def size_of(chunks):
        tot = 0
        for c in chunks:
            p, j = c // 1000, c % 1000
            if p >= n:
                tot += exp["pre"]["size"]
            elif j < len(sizes[p]):
                tot += sizes[p][j]
            else:
                return None
        return tot

    def mode_of(inode):
        o = inode["owner"]
        if o >= n:
            return exp["pre"]["mode"]
        return exp["file_modes"][o] if inode["mode"] else 0o600

    after = dict(exp["after"])
    names = [("art", exp["dest"])] if exp["dest"].endswith(".tgz") else []
    if exp["meta_rel"]:
        names += [(k, v) for k, v in exp["meta_rel"].items()]
    for mname, rel in names:
        m = fin.get(mname)
        real = after.pop(rel, None)
        if (m is None) != (real is None):
            diffs.append("%s: implementation %s, model %s" % (mname, "present" if real else "absent", "present" if m else "absent"))
        elif m is not None:
            sz = size_of(m["inode"]["chunks"])
            if sz is not None and sz != real["size"]:
                diffs.append("%s: %d bytes, model content %r = %d bytes" % (mname, real["size"], m["inode"]["chunks"], sz))
            if mode_of(m["inode"]) != real["mode"]:
                diffs.append("%s: mode %o, model %o" % (mname, real["mode"], mode_of(m["inode"])))
    left_real = sorted((v["size"], v["mode"]) for v in after.values())
    left_model = []
    for k, t in fin["tmp"]:
        sz = size_of(t["inode"]["chunks"])
        left_model.append((sz, mode_of(t["inode"])))
    if None in [x[0] for x in left_model]:
        if len(left_model) != len(left_real):
            diffs.append("temporary files left: implementation %r, model %d" % (left_real, len(left_model)))
    elif sorted(left_model) != left_real:
        diffs.append("temporary files left (size, mode): implementation %r, model %r" % (left_real, sorted(left_model)))
    return diffs


def case_of_single(rec, base):
    spec = rec["spec"]
    kind = spec["kind"]
    evlist = [(0, e) for e in rec["events"]]
    ends = [{"result": rec["result"], "how": rec["how"]}]
    pre = None
    if spec.get("pre") == "present":
        rel = rec["dest"]
        b = rec["before"].get(rel)
        if b is not None:
            pre = {"kind": "package" if kind in ("package", "mirror") else kind, "size": b["size"], "mode": b["mode"]}
    meta_rel = {kind: rec["dest"]} if kind in ("buildid", "fprnt") else None
    return build_case([kind], [spec.get("fileMode")], evlist, ends, rec["after"], rec["dest"], pre=pre,
                      infos={0: rec["info"]}, meta_rel=meta_rel)


def case_of_sched(out):
    spec = out["spec"]
    kinds = [p["kind"] for p in spec["procs"]]
    fms = [p.get("fileMode") for p in spec["procs"]]
    evlist = [(i, e) for i, e in out["events"]]
    meta_rel = {}
    for p in spec["procs"]:
        if p["kind"] in ("buildid", "fprnt"):
            meta_rel[p["kind"]] = out["dest"][:-4] + "." + p["kind"]
    return build_case(kinds, fms, evlist, out["procs"], out["after"], out["dest"],
                      infos={i: x for i, x in enumerate(out["infos"])}, meta_rel=meta_rel or None)


# ------------------------------------------------------------------------------------------- plans

def plan_single(ctx):
    r = ctx.subrng("single-plan")
    nsz = ctx.scale(1, 3)
    specs = []
    seed = ctx.seed * 1000
    for rep in range(nsz):
        sizes = [r.randrange(0, 300), r.randrange(9000, 24000), r.randrange(26000, 70000)]
        for kind in ("package", "mirror"):
            for pre in ("fresh", "present", "dirs"):
                for fm in (0o640, None):
                    for size in sizes:
                        seed += 1
                        specs.append({"mode": "single", "kind": kind, "size": size, "fileMode": fm, "pre": pre, "seed": seed})
        for kind in ("buildid", "fprnt"):
            for pre in ("fresh", "present", "dirs"):
                for fm in (0o640, None):
                    seed += 1
                    specs.append({"mode": "single", "kind": kind, "size": 0, "fileMode": fm, "pre": pre, "seed": seed})
        seed += 1
        specs.append({"mode": "single", "kind": "mirror", "size": sizes[1], "fileMode": None, "pre": "fresh", "seed": seed,
                      "nofail": True, "oracle_only": True})

    # the scenarios every run must contain come first
    def prio(sp):
        key = (sp["kind"], sp["pre"], sp["fileMode"] is not None, sp["size"] > 5000)
        first = [("package", "fresh", True, True), ("mirror", "fresh", True, True), ("buildid", "fresh", True, False),
                 ("package", "present", True, True), ("mirror", "present", False, True), ("fprnt", "present", False, False)]
        return first.index(key) if key in first else len(first) + r.random()
    specs.sort(key=prio)
    return _dev_limit(specs)


def plan_sched(ctx):
    r = ctx.subrng("sched-plan")
    specs = []
    seed = ctx.seed * 1000 + 500
    sz = lambda: r.choice([r.randrange(0, 300), r.randrange(9000, 30000)])
    # directed: A stops after j protocol operations, B runs completely (wins the race), A continues
    for j in (5, 8, 3, 9, 1, 2, 4, 6, 7, 10, 11, 12):      # the first two always run: in the middle of the data, just before link()
        seed += 1
        specs.append({"mode": "sched", "seed": seed, "pre": "fresh",
                      "procs": [{"kind": "package", "size": 12000, "fileMode": 0o640}, {"kind": "package", "size": 200, "fileMode": None}],
                      "script": [[0, "op"]] * j + [[1, "end"], [0, "end"]], "directed": "lost-race@%d" % j})
    for j in (3, 6, 8, 9, 10):
        seed += 1
        specs.append({"mode": "sched", "seed": seed, "pre": "fresh",
                      "procs": [{"kind": "package", "size": 12000, "fileMode": 0o640}, {"kind": "package", "size": 200, "fileMode": None},
                                {"kind": "reader"}],
                      "script": [[0, "op"]] * j + [[0, "kill"], [2, "end"], [1, "end"]], "directed": "kill@%d-then-other" % j})
    for j in (2, 5, 9):
        seed += 1
        specs.append({"mode": "sched", "seed": seed, "pre": "fresh",
                      "procs": [{"kind": "mirror", "size": 15000, "fileMode": None}, {"kind": "package", "size": 300, "fileMode": 0o640}],
                      "script": [[0, "op"]] * j + [[1, "end"], [0, "end"]], "directed": "mirror-lost-race@%d" % j})
    for j, script in enumerate([[[0, "end"], [1, "end"], [2, "end"]],
                                [[0, "op"]] * 9 + [[1, "op"], [1, "op"], [0, "end"], [1, "end"], [2, "end"]]]):
        seed += 1
        specs.append({"mode": "sched", "seed": seed, "pre": "fresh",
                      "procs": [{"kind": "package", "size": 12000, "fileMode": 0o640}, {"kind": "reader"},
                                {"kind": "package", "size": 300, "fileMode": None}],
                      "script": script, "directed": "reader-after-link@%d" % j})
    kinds = ["package", "package", "package", "mirror", "reader", "buildid", "fprnt", "buildid"]
    for n in range(ctx.scale(40, 600)):
        seed += 1
        k = r.choice([2, 2, 3, 3, 4])
        procs = []
        for i in range(k):
            kd = r.choice(kinds) if i else "package"
            if kd == "mirror" and any(p["kind"] == "mirror" for p in procs):
                kd = "package"
            procs.append({"kind": kd, "size": sz(), "fileMode": r.choice([None, 0o640, 0o604])})
        spec = {"mode": "sched", "seed": seed, "pre": r.choice(["fresh", "dirs"]), "procs": procs,
                "pkill": r.choice([0.0, 0.0, 0.01, 0.03])}
        if r.random() < 0.4:
            i = r.randrange(k)
            kd = procs[i]["kind"]
            if kd == "package":
                # (no mkdir errors here: os.makedirs swallows them when another process has created the directory
                # in the meantime, so "makedirs raises" is not determined by the injection alone; the single process
                # scenarios inject them)
                spec["eio"] = {str(i): r.choice([["write", r.randrange(1, 5)], ["link", 1], ["unlink", 1], ["chmod", 1],
                                                ["write", r.randrange(1, 4)]])}
            elif kd == "mirror":
                # (tarfile swallows chmod errors on extracted files: not injected here)
                spec["eio"] = {str(i): r.choice([["write", r.randrange(1, 7)], ["link", 1], ["write", r.randrange(1, 5)]])}
            elif kd in ("buildid", "fprnt"):
                spec["eio"] = {str(i): r.choice([["write", 1], ["rename", 1], ["chmod", 1], ["write", r.randrange(1, 4)]])}
        specs.append(spec)
    return _dev_limit(specs)


def _dev_limit(specs):
    """development aid: C09_DEV_LIMIT=n runs only the first n scenarios of every plan"""
    lim = int(os.environ.get("C09_DEV_LIMIT", "0") or 0)
    return specs[:lim] if lim > 0 else specs


_RECORDS = {"single": [], "sched": [], "complete": False}


def _report(ctx, findings, case):
    for f in findings:
        ctx.violation(f["what"], case, f["signature"])


def oracle(ctx):
    with other_tmp(ctx):
        _oracle(ctx)


def _oracle(ctx):
    T = _T()
    _RECORDS["single"], _RECORDS["sched"], _RECORDS["complete"] = [], [], False
    have_strace = T.strace_works()
    t0 = time.time()
    avail = max(40.0, ctx.time_left() - 12.0)          # keep a little for the model comparison
    phase = {}
    at = lambda frac: t0 + frac * avail
    # ---- (0) regression search for F-C09-1: needs no strace
    items = [({"mode": "tail", "seed": ctx.seed * 10 + i, "start": 2500 + 997 * i + 13 * ctx.seed, "want": 4 + i, "hits": 1,
               "mandatory": i == 0},
              os.path.join(ctx.tmp, "tail%d" % i), at(0.10)) for i in range(ctx.scale(3, 12))]
    for out in ctx.parallel(tail_task, items):
        if out["skipped"]:
            ctx.skip(out["skipped"][:300])
        ctx.count("tail_search", "hit" if out["hit"] else "no-hit")
        ctx.case(("tail", out["spec"]), nontrivial=bool(out["hit"]))
        for f in out["findings"]:
            ctx.violation(f["what"], dict(out["spec"], size=f.get("size")), f["signature"])
    phase["tail"] = round(time.time() - t0, 1)
    if not have_strace:
        ctx.skip("strace with fault injection is not available: traced scenarios skipped")
    else:
        T.available_syscalls()
        # ---- (1) single process scenarios: fault free, EIO everywhere, SIGKILL everywhere
        specs = plan_single(ctx)
        items = []
        for i, sp in enumerate(specs):
            nparts = 4 if i < 3 else 2
            for j in range(nparts):
                items.append((sp, os.path.join(ctx.tmp, "s%04d-%d" % (i, j)), at(0.55),
                              {"max_points": None, "floor": 4 if i < 3 else 0, "part": (j, nparts)}))
        outs = ctx.parallel(single_task, items)
        for out in outs:
            if out["not_run"]:
                ctx.count("single_scenarios", "not-run(out of time)")
                continue
            ctx.count("single_scenarios", "run")
            if out["skipped"]:
                ctx.skip(out["skipped"][:300])
            base = out["records"][0] if out["records"] else None
            for rec in out["records"]:
                f = rec.get("fault")
                nontriv = len(rec["events"]) > 2
                ctx.case(("single", rec["spec"], f and (f["what"], f["sys"], f["k"])), nontrivial=nontriv,
                         sample={"scenario": {k: rec["spec"][k] for k in ("kind", "size", "fileMode", "pre")}, "fault": f,
                                 "ops": ["%s:%s" % (e["op"], e.get("res", "")) for e in rec["events"]][:24],
                                 "result": rec["result"], "end": rec["how"]})
                ctx.count("single_kind", rec["spec"]["kind"] + "/" + rec["spec"].get("pre", "fresh"))
                ctx.count("fault", "none" if not f else "%s@%s" % (f["what"], f["op"] or ("noise:" + f["sys"])))
                ctx.count("outcome", rec["how"] if rec["how"] == "killed" else (rec["result"] or {}).get("res", "no-result"))
                if f and f["what"] == "eio" and not rec["injected_seen"]:
                    ctx.count("fault", "eio-not-hit")
                _report(ctx, rec["findings"], {"mode": "single", "spec": rec["spec"], "fault": f})
                rec["_base"] = base
                _RECORDS["single"].append(rec)
            if out["records"] and out["records"][0].get("fault") is None:
                ctx.count("single_points", "planned", out["n_points"] * 2)
            ctx.count("single_points", "done", out["n_done"])
        phase["single"] = round(time.time() - t0, 1)
        # ---- (2) controlled multi process schedules
        specs = plan_sched(ctx)
        for sp in specs[:2]:
            sp["mandatory"] = True
        # directed schedules and random ones alternate, so that a short run sees both
        directed = [sp for sp in specs if sp.get("directed")]
        rnd = [sp for sp in specs if not sp.get("directed")]
        mixed = []
        while directed or rnd:
            if directed:
                mixed.append(directed.pop(0))
            if rnd:
                mixed.append(rnd.pop(0))
        items = [(sp, os.path.join(ctx.tmp, "m%04d" % i), at(0.82)) for i, sp in enumerate(mixed)]
        for out in ctx.parallel(sched_wrapper, items):
            if out.get("not_run"):
                ctx.count("sched", "not-run(out of time)")
                continue
            if out["skipped"]:
                ctx.skip(out["skipped"][:300])
                continue
            ctx.case(("sched", out["spec"]), nontrivial=True,
                     sample={"schedule": out["spec"].get("directed", "random"), "procs": [p["kind"] for p in out["spec"]["procs"]],
                             "ops": ["%d:%s:%s" % (i, e["op"], e.get("res", "")) for i, e in out["events"]][:40]})
            ctx.count("sched", out["spec"].get("directed", "random").split("@")[0])
            for i, e in out["events"]:
                if e["op"] == "link":
                    ctx.count("sched_link", e["res"])
                if e["op"] == "statDest":
                    ctx.count("sched_statDest", e["res"])
                if e["op"] == "rOpen":
                    ctx.count("sched_reader_open", e["res"])
            _report(ctx, out["findings"], {"mode": "sched", "spec": out["spec"]})
            _RECORDS["sched"].append(out)
        phase["sched"] = round(time.time() - t0, 1)
    # ---- (3) free running stress
    nst = ctx.scale(8, 48)
    items = [({"mode": "stress", "seed": ctx.seed * 100 + i, "rounds": ctx.scale(3, 25), "uploaders": 2 + i % 7,
               "mirrors": i % 2, "sizes": [300, 15000, 80000, 400000][:3 + (ctx.tier != "quick")], "mandatory": i < 2},
              os.path.join(ctx.tmp, "x%03d" % i), at(0.97)) for i in range(nst)]
    for out in ctx.parallel(stress_task, items, workers=max(2, min(8, (os.cpu_count() or 4) // 2))):
        if out["skipped"]:
            ctx.skip(out["skipped"][:300])
        for _ in range(out["rounds"]):
            ctx.case(("stress", out["spec"], _), nontrivial=True)
        ctx.count("stress", "rounds", out["rounds"])
        if out.get("timeouts"):
            ctx.count("stress", "rounds-without-verdict(timeout)", out["timeouts"])
        ctx.count("stress", "reader_polls", out["reads"])
        for w, c in out["winners"].items():
            ctx.count("stress_winner", w, c)
        _report(ctx, out["findings"], {"mode": "stress", "spec": out["spec"]})
    phase["stress"] = round(time.time() - t0, 1)
    ctx.notes["oracle_phase_end_s"] = phase
    _RECORDS["complete"] = True


def sched_wrapper(args):
    spec, wd, deadline = args
    if time.time() > deadline and not spec.get("mandatory"):
        return {"spec": spec, "not_run": True, "skipped": None}
    try:
        return sched_task(args)
    finally:
        shutil.rmtree(wd, ignore_errors=True)


def correspond(ctx):
    if not _RECORDS["complete"]:
        oracle(ctx)
    reqs, exps, cases = [], [], []
    for rec in _RECORDS["single"]:
        if rec["spec"].get("oracle_only"):
            continue
        f = rec.get("fault")
        if f and f["what"] == "eio" and not f["proto"]:
            continue            # error inside CPython's tempfile/io plumbing: not modelled, oracle only
        if f and f["what"] == "eio" and not rec["injected_seen"]:
            continue
        if f and f["what"] == "eio" and f["op"] in ("srcClose", "rRead", "rClose"):
            continue
        base = rec.get("_base")
        try:
            req, exp = case_of_single(rec, base)
        except Exception as e:  # noqa
            ctx.skip("cannot build model case: %s" % e)
            continue
        reqs.append(req)
        exps.append(exp)
        cases.append({"mode": "single", "spec": rec["spec"], "fault": f,
                      "ops": ["%s:%s" % (e["op"], e.get("res", "")) for e in rec["events"]]})
    for out in _RECORDS["sched"]:
        try:
            req, exp = case_of_sched(out)
        except Exception as e:  # noqa
            ctx.skip("cannot build model case: %s" % e)
            continue
        reqs.append(req)
        exps.append(exp)
        cases.append({"mode": "sched", "spec": out["spec"],
                      "ops": ["%d:%s:%s" % (i, e["op"], e.get("res", "")) for i, e in out["events"]]})
    if not reqs:
        ctx.skip("no traced run to compare with the model")
        return
    reps = ctx.lean(DRIVER, reqs)
    nops = 0
    for req, exp, rep, case in zip(reqs, exps, reps, cases):
        if "events" not in rep:
            ctx.disagree("driver", case, None, rep)
            continue
        diffs = compare_case(req, exp, rep)
        nops += len([x for x in exp["expect"] if x is not None])
        ctx.count("corr", "agree" if not diffs else "differ")
        for ev in rep["events"]:
            ctx.count("model_pc", ev["pre"].split(":")[0])
        if diffs:
            ctx.disagree("real run == ArchiveFS.step along the observed schedule (operations, exit status, final directory)",
                         case, diffs, {"final": rep["final"], "events": [[e["pid"], e["pre"], e["choice"], e["post"]] for e in rep["events"]][:60]})
    ctx.trace_validated(len(reqs))
    ctx.notes["model_steps_compared"] = nops


def replay(ctx, case):
    with other_tmp(ctx):
        _replay(ctx, case)


def _replay(ctx, case):
    mode = case.get("mode")
    wd = os.path.join(ctx.tmp, "replay")
    far = time.time() + 600
    if mode == "tail" or "start" in case:
        out = tail_task((dict(case, hits=3), wd, far))
        for f in out["findings"]:
            ctx.violation(f["what"], case, f["signature"])
    elif mode == "single":
        T = _T()
        spec, f = case["spec"], case.get("fault")
        fix = Fix(wd, spec["seed"])
        try:
            if f is None:
                rec = run_single(fix, spec, "replay")
                if spec["kind"] in ("package", "mirror") and spec.get("pre", "fresh") != "present" and rec["dest"] not in rec["after"]:
                    rec["findings"].append({"what": "fault free upload does not publish: %r" % (rec["result"],),
                                            "signature": "upload-does-not-publish"})
            else:
                inj = "%s:%s:when=%d" % (f["sys"], "error=EIO" if f["what"] == "eio" else "signal=SIGKILL", f["k"])
                rec = run_single(fix, spec, "replay", inject=[inj])
                rec["fault"] = f
                _failed_upload_clause(spec, rec)
            _report(ctx, rec["findings"], case)
        except T.TraceUnavailable as e:
            ctx.skip("strace: %s" % e)
        finally:
            fix.cleanup()
            shutil.rmtree(wd, ignore_errors=True)
    elif mode == "sched":
        out = sched_wrapper((case["spec"], wd, far))
        _report(ctx, out.get("findings") or [], case)
    elif mode == "stress":
        for i in range(5):
            out = stress_task((dict(case["spec"], rounds=max(10, case["spec"].get("rounds", 3))), wd + str(i), far))
            _report(ctx, out["findings"], case)
            if out["findings"]:
                break


MANIFEST = {
    "text": "Proved in Lean (Props/C09.lean) about a transition system of any number of uploader / cache-mirror / metadata-uploader / "
            "reader processes over one archive directory, for ALL schedules, kill points and injected I/O errors: artifact_complete (a bound "
            "artifact name holds the closed, complete payload of exactly one uploader or mirror), artifact_immutable + reader_reads_artifact "
            "(a bound name keeps inode and content forever, readers read exactly that), failed_leaves_nothing (failure edge / kill before link "
            "never binds the name, only the temporary name may remain), meta_overwritable_only (replace() only for .buildid/.fprnt). The model "
            "is a hand-written transliteration of LocalArchive._openUploadFile, LocalArchiveUploader.__exit__, Tee/MirrorWriter/MirrorLeecher and "
            "the upload/download drivers; it is tied to the current source by constants regenerated with ast (overwrite flags, suffixes, call order "
            "in __exit__, drain loop) and by a differential run: strace'd real processes (fault free, EIO and SIGKILL at every system call on the "
            "archive, real multi-process schedules single-stepped with SIGSTOP) replayed step by step on the model. The property oracle checks the "
            "real directory after every run / step and under free-running multi-process stress.",
    "note": "trusted: Lean kernel, harness/props/c09.py + harness/gen/c09trace.py, tools/consts/c09.py, strace, POSIX atomicity of link/rename/"
            "unlink/O_EXCL, CPython tempfile/io buffering (abstracted, validated differentially); not covered: HTTP/WebDAV/Azure/custom back ends, "
            "Windows branch, gzip/tar validity (C08), machine crash durability (no fsync in the protocol)",
    "technique": "Lean 4 invariant proof over a hand-written concurrent model + strace based differential correspondence + on-disk oracle",
}
