"""C17 - string substitution and conditions follow the documented language.

oracle:      (a) fragment trees of the documented grammar, rendered by this file's own renderer and
                 evaluated by this file's own evaluator of the documented rules (independent of the
                 Lean model) vs. the real Env.substitute;
             (b) text protected by the three documented quoting rules comes back unchanged;
             (c) raw strings: only ParseError or a value, never another exception;
             (d) infix condition == function-call form, through the real pyparsing grammar.
correspond:  the same streams (plus one-character mutations) through the Lean model `drv_c17`;
             plus the generated trees through the Lean *spec* (Model/SubstSpec.lean: render, eval, WF - the
             right-hand side of theorem subst_render_eval) against this file's render/spec_eval.
"""
import random
import re

DRIVER = "drv_c17"
RULE = ("streams: (a) fragment trees from the documented substitution grammar (depth<=5, all forms, names over "
        "set/unset/empty variables) rendered to text; (b) raw strings over an alphabet weighted to the meta characters "
        "$ { } ( ) , : - + \" ' \\ plus letters, blanks, unicode; (c) one-character mutations of (a); (d) protected "
        "strings; (e) IfExpression trees rendered as infix and as function calls. A case is distinct by its "
        "(text, environment, nounset) triple and non-trivial if the text contains at least one meta character.")
ASSUMPTIONS = ["regex/fnmatch based string functions (match, resubst, matchScm) are outside the model",
               "pyparsing's text->AST step of IfExpressions is validated by differential runs only",
               "plugin string functions are not covered"]

META = "\\\"'$"
NAME_START = "ABCDEFGHIJKLMNOPQRSTUVWXYZ_abcdefghijklmnopqrstuvwxyz"
NAME_CHARS = NAME_START + "0123456789"
WS = "\t\n\x0b\x0c\r\x1c\x1d\x1e\x1f \x85\xa0                　"

ENVS = [
    {"A": "a", "B": "", "C": "x y", "T": "true", "F": "false", "Z": "0", "N": "A", "Q": "it's \"q\" $A \\", "UML": "ä€", "a": "lower"},
    {"A": "1", "F": " FALSE ", "N": "U"},
    {},
]
TOOLS = {"tc": {"CC": "gcc", "E": ""}, "other": {}}


# ------------------------------------------------------------------ the documented language (spec)

class SpecError(Exception):
    pass


def is_false(v):
    return v.strip().lower() in ("", "0", "false")


def spec_fun(name, args, sandbox, tools):
    def arity(*ns):
        if len(args) not in ns:
            raise SpecError("arity")
    t = lambda b: "true" if b else "false"
    if name == "eq":
        arity(2); return t(args[0] == args[1])
    if name == "ne":
        arity(2); return t(args[0] != args[1])
    if name == "not":
        arity(1); return t(is_false(args[0]))
    if name == "or":
        return t(any(not is_false(a) for a in args))
    if name == "and":
        return t(all(not is_false(a) for a in args))
    if name == "if-then-else":
        arity(3); return args[2] if is_false(args[0]) else args[1]
    if name == "subst":
        arity(3); return args[2].replace(args[0], args[1])
    if name == "strip":
        arity(1); return args[0].strip()
    if name == "is-sandbox-enabled":
        arity(0); return t(sandbox)
    if name == "is-tool-defined":
        arity(1); return t(args[0] in tools)
    if name == "get-tool-env":
        arity(2, 3)
        if args[0] not in tools:
            raise SpecError("tool")
        v = tools[args[0]].get(args[1], args[2] if len(args) == 3 else None)
        if v is None:
            raise SpecError("toolvar")
        return v
    raise SpecError("unknown function")


def spec_eval(frags, env, nounset, sandbox, tools, subst=True):
    out = []
    for f in frags:
        k = f[0]
        if k in ("lit", "esc"):
            out.append(f[1])
        elif k == "sq":
            out.append(f[1])
        elif k == "dq":
            out.append(spec_eval(f[1], env, nounset, sandbox, tools, subst))
        elif k == "bare":
            v = env.get(f[1])
            if v is None:
                if subst and nounset:
                    raise SpecError("unset " + f[1])
                v = ""
            out.append(v)
        elif k == "var":
            name = spec_eval(f[1], env, nounset, sandbox, tools, subst)
            v = env.get(name)
            if v is None:
                if subst and nounset:
                    raise SpecError("unset " + name)
                v = ""
            out.append(v)
        elif k in ("dflt", "altv"):
            name = spec_eval(f[1], env, nounset, sandbox, tools, subst)
            unset = name not in env or (f[2] and env[name] == "")
            if k == "dflt":
                d = spec_eval(f[3], env, nounset, sandbox, tools, subst and unset)
                out.append(d if unset else env[name])
            else:
                a = spec_eval(f[3], env, nounset, sandbox, tools, subst and not unset)
                out.append("" if unset else a)
        elif k == "call":
            words = [spec_eval(w, env, nounset, sandbox, tools, subst) for w in f[1]]
            if subst:
                out.append(spec_fun(words[0], words[1:], sandbox, tools))
        else:
            raise AssertionError(k)
    return "".join(out)


def render(frags, delims=""):
    """concrete syntax; a literal that is meta in the current context is written as an escape"""
    out = []
    for f in frags:
        k = f[0]
        if k == "lit":
            c = f[1]
            out.append("\\" + c if (c in META or c in delims) else c)
        elif k == "esc":
            out.append("\\" + f[1])
        elif k == "sq":
            out.append("'" + f[1] + "'")
        elif k == "dq":
            out.append('"' + render(f[1], '"') + '"')
        elif k == "bare":
            out.append("$" + f[1])
        elif k == "var":
            out.append("${" + render(f[1], ":-+}") + "}")
        elif k == "dflt":
            out.append("${" + render(f[1], ":-+}") + (":" if f[2] else "") + "-" + render(f[3], "}") + "}")
        elif k == "altv":
            out.append("${" + render(f[1], ":-+}") + (":" if f[2] else "") + "+" + render(f[3], "}") + "}")
        elif k == "call":
            out.append("$(" + ",".join(render(w, ",)") for w in f[1]) + ")")
    return "".join(out)


# ------------------------------------------------------------------ generators

VARNAMES = ["A", "B", "C", "T", "F", "Z", "N", "Q", "UML", "a", "U", "UNSET_1", "_x"]
LITCHARS = "abAB01 xyz_.-+:,(){}/=\t\nä€\U0001F600" + META
FUNS = ["eq", "ne", "not", "or", "and", "if-then-else", "subst", "strip", "is-sandbox-enabled",
        "is-tool-defined", "get-tool-env", "nofun"]
FUN_ARITY = {"eq": 2, "ne": 2, "not": 1, "or": 2, "and": 2, "if-then-else": 3, "subst": 3, "strip": 1,
             "is-sandbox-enabled": 0, "is-tool-defined": 1, "get-tool-env": 2, "nofun": 1}


def gen_word(r):
    k = r.random()
    if k < 0.35:
        return r.choice(["true", "false", "0", "", " ", "a", "tc", "CC", "E", "x y", "A"])
    return "".join(r.choice("abAB01 _") for _ in range(r.randrange(4)))


def gen_frags(r, depth, n=None, namectx=False, in_dq=False):
    n = r.randrange(1, 4) if n is None else n
    out = []
    prev_bare = False
    for _ in range(n):
        k = r.random()
        if prev_bare:
            # a bare variable must not be followed by a name character; force a non-name fragment
            k = 0.31 if k < 0.3 else k
        prev_bare = False
        if namectx and k > 0.55 and depth > 0:
            k = r.choice([0.2, 0.5])
        if k < 0.3:
            c = r.choice(LITCHARS)
            if prev_bare and c in NAME_CHARS:
                c = "."
            out.append(("lit", c))
        elif k < 0.36:
            out.append(("esc", r.choice(LITCHARS + "nrt")))
        elif k < 0.44:
            out.append(("sq", "".join(r.choice(LITCHARS.replace("'", "")) for _ in range(r.randrange(4)))))
        elif depth <= 0:
            for ch in gen_word(r):
                out.append(("lit", ch))
        elif k < 0.52:
            if in_dq:
                # a double quote directly inside double quotes closes them: not expressible
                out.append(("sq", "q"))
            else:
                out.append(("dq", gen_frags(r, depth - 1, in_dq=True)))
        elif k < 0.62:
            out.append(("bare", r.choice(VARNAMES)))
            prev_bare = True
        elif k < 0.72:
            out.append(("var", gen_name(r, depth - 1)))
        elif k < 0.82:
            out.append(("dflt", gen_name(r, depth - 1), r.random() < 0.5, gen_frags(r, depth - 1, r.randrange(0, 3))))
        elif k < 0.9:
            out.append(("altv", gen_name(r, depth - 1), r.random() < 0.5, gen_frags(r, depth - 1, r.randrange(0, 3))))
        else:
            f = r.choice(FUNS)
            ar = FUN_ARITY[f]
            if r.random() < 0.12:
                ar = max(0, ar + r.choice([-1, 1]))
            elif f in ("or", "and"):
                ar = r.randrange(0, 4)
            elif f == "get-tool-env" and r.random() < 0.5:
                ar = 3
            words = [[("lit", ch) for ch in f]]
            for _ in range(ar):
                if r.random() < 0.5:
                    words.append([("lit", ch) for ch in gen_word(r)])
                else:
                    words.append(gen_frags(r, depth - 1, r.randrange(0, 3)))
            out.append(("call", words))
    # fix bare variable followed by name char literal (render would merge them)
    fixed = []
    for i, f in enumerate(out):
        fixed.append(f)
        if f[0] == "bare" and i + 1 < len(out):
            nx = out[i + 1]
            first = None
            if nx[0] == "lit":
                first = nx[1]
            if first is not None and first in NAME_CHARS:
                fixed.append(("sq", ""))
    return fixed


def gen_name(r, depth):
    if r.random() < 0.8 or depth <= 0:
        return [("lit", ch) for ch in r.choice(VARNAMES)]
    # indirect: ${${N}} / computed names
    return [("var", [("lit", "N")])] if r.random() < 0.5 else [("lit", "U"), ("bare", "N")] if r.random() < 0.3 else gen_frags(r, depth, 1, namectx=True)


def gen_raw(r):
    n = r.randrange(0, 14)
    alpha = "${}(),:-+\"'\\" * 3 + "ABab_01 eqnot," + "ä\n"
    s = "".join(r.choice(alpha) for _ in range(n))
    if r.random() < 0.3:
        s = s.replace("(", "(" + r.choice(["eq", "not", "or", "if-then-else", "subst", "strip", "match", "resubst"]) + ",", 1)
    return s


def mutate(r, s):
    if not s:
        return r.choice(META)
    i = r.randrange(len(s))
    k = r.random()
    if k < 0.4:
        return s[:i] + s[i + 1:]
    if k < 0.8:
        return s[:i] + r.choice("${}(),:-+\"'\\a ") + s[i:]
    return s[:i] + r.choice("${}(),:-+\"'\\a ") + s[i + 1:]


# ------------------------------------------------------------------ implementation access

def make_env(env, sandbox, tools):
    from bob.stringparser import Env, DEFAULT_STRING_FUNS, EXTRA_STRING_FUNS

    class T:
        def __init__(self, e):
            self.environment = e
    e = Env(env)
    funs = dict(DEFAULT_STRING_FUNS)
    funs.update(EXTRA_STRING_FUNS)
    e.setFuns(funs)
    e.setFunArgs({"sandbox": sandbox, "__tools": {k: T(v) for k, v in tools.items()}})
    return e


ERRKIND = [("Unexpected end of string", "unexpectedEnd"), ("Unexpected end after escape", "endAfterEscape"),
           ("Missing closing", "missingSQuote"), ("Invalid $-subsitituion", "invalidDollar"),
           ("Unset variable", "unsetVar"), ("Unterminated variable", "unterminatedVar"),
           ("Unknown function", "unknownFun"), ("Unknown string function", "unknownFun"),
           ("get-tool-env:", "funError"), ("Expected function name", "funError"), ("expects", "funArity")]


def impl_subst(text, env, nounset, sandbox, tools):
    from bob.errors import ParseError
    e = make_env(env, sandbox, tools)
    try:
        return ("ok", e.substitute(text, "p", nounset))
    except ParseError as x:
        msg = str(x.slogan)
        for pat, kind in ERRKIND:
            if pat in msg:
                return ("err", kind)
        return ("err", "other:" + msg[:60])
    except RecursionError:
        return ("err", "recursion")
    except Exception as x:  # noqa
        return ("internal", "%s: %s" % (type(x).__name__, x))


def esc_all(s):
    return "".join("\\" + c for c in s)


def esc_meta(s):
    return "".join("\\" + c if c in META else c for c in s)


def gen_plain(r):
    n = r.randrange(0, 10)
    alpha = META * 2 + "${}(),:-+ab \nä" + WS[:6]
    return "".join(r.choice(alpha) for _ in range(n))


# ------------------------------------------------------------------ IfExpression trees

def gen_ifexpr(r, depth):
    k = r.random()
    if depth <= 0 or k < 0.25:
        if r.random() < 0.5:
            return {"lit": r.choice(["a", "", "0", "false", "TRUE", " x", "$A", "b c", "${B:-d}", "$(eq,a,a)"]), "q": "'"}
        s = r.choice(["a", "", "0", "false", "$A", "${B:-d}", "${U:-}", "$(eq,$A,a)", "x$T", "${Z}", "'q'"])
        return {"lit": s, "q": '"'}
    if k < 0.4:
        f = r.choice(["eq", "ne", "not", "or", "and", "if-then-else", "strip", "is-sandbox-enabled"])
        ar = FUN_ARITY[f] if f not in ("or", "and") else r.randrange(1, 4)
        return {"call": f, "args": [gen_strexpr(r, depth - 1) for _ in range(ar)]}
    if k < 0.55:
        return {"not": gen_ifexpr(r, depth - 1)}
    if k < 0.8:
        return {"str": r.choice(["==", "!=", "<", ">", "<=", ">="]), "l": gen_strexpr(r, depth - 1), "r": gen_strexpr(r, depth - 1)}
    return {"bool": r.choice(["&&", "||"]), "l": gen_ifexpr(r, depth - 1), "r": gen_ifexpr(r, depth - 1)}


def gen_strexpr(r, depth):
    e = gen_ifexpr(r, 0) if depth <= 0 or r.random() < 0.7 else \
        {"call": r.choice(["eq", "not", "strip", "if-then-else"]), "args": None}
    if "call" in e and e["args"] is None:
        e["args"] = [gen_strexpr(r, depth - 1) for _ in range(FUN_ARITY[e["call"]])]
    return e


def infix_text(e):
    if "lit" in e:
        return e["q"] + e["lit"] + e["q"]
    if "call" in e:
        return e["call"] + "(" + ", ".join(infix_text(a) for a in e["args"]) + ")"
    if "not" in e:
        return "!(" + infix_text(e["not"]) + ")"
    op = e.get("str") or e.get("bool")
    return "(" + infix_text(e["l"]) + ") " + op + " (" + infix_text(e["r"]) + ")"


# documented precedence (bobpaths manpage, decreasing): ! < <= > >= == != && ||
PREC = {"!": 9, "<": 8, "<=": 7, ">": 6, ">=": 5, "==": 4, "!=": 3, "&&": 2, "||": 1}


def infix_min_text(e, parent=0, right=False):
    """the same tree written with only the parentheses the documented precedence and
    left associativity require"""
    if "lit" in e:
        return e["q"] + e["lit"] + e["q"]
    if "call" in e:
        return e["call"] + "(" + ", ".join(infix_min_text(a) for a in e["args"]) + ")"
    if "not" in e:
        return "!" + infix_min_text(e["not"], PREC["!"])
    op = e.get("str") or e.get("bool")
    me = PREC[op]
    txt = infix_min_text(e["l"], me) + " " + op + " " + infix_min_text(e["r"], me, True)
    if me < parent or (me == parent and right):
        return "(" + txt + ")"
    return txt


FUNFORM = {"==": "eq", "!=": "ne", "&&": "and", "||": "or"}


def funcall_text(e):
    """the equivalent function-call form ($(eq,..) etc.); None when there is none (<, > ...)"""
    if "lit" in e:
        if e["q"] == "'":
            if "'" in e["lit"]:
                return None
            return "'" + e["lit"] + "'"
        return '"' + e["lit"] + '"'
    if "call" in e:
        args = [funcall_text(a) for a in e["args"]]
        if any(a is None for a in args):
            return None
        return "$(" + ",".join([e["call"]] + args) + ")"
    if "not" in e:
        a = funcall_text(e["not"])
        return None if a is None else "$(not," + a + ")"
    op = e.get("str") or e.get("bool")
    if op not in FUNFORM:
        return None
    l, r_ = funcall_text(e["l"]), funcall_text(e["r"])
    if l is None or r_ is None:
        return None
    return "$(" + FUNFORM[op] + "," + l + "," + r_ + ")"


def lean_expr(e):
    if "lit" in e:
        return {"lit": e["lit"], "subst": e["q"] == '"'}
    if "call" in e:
        return {"call": e["call"], "args": [lean_expr(a) for a in e["args"]]}
    if "not" in e:
        return {"not": lean_expr(e["not"])}
    if "str" in e:
        return {"str": e["str"], "l": lean_expr(e["l"]), "r": lean_expr(e["r"])}
    return {"bool": e["bool"], "l": lean_expr(e["l"]), "r": lean_expr(e["r"])}


def impl_ifexpr(text, env, sandbox, tools):
    from bob.errors import ParseError
    from bob.stringparser import IfExpression
    e = make_env(env, sandbox, tools)
    try:
        return ("ok", bool(IfExpression(text).evalExpression(e)))
    except ParseError:
        return ("err", "parse")
    except Exception as x:  # noqa
        return ("internal", "%s: %s" % (type(x).__name__, x))


def impl_evalstr(text, env, sandbox, tools):
    from bob.errors import ParseError
    e = make_env(env, sandbox, tools)
    try:
        return ("ok", bool(e.evaluate(text, "p")))
    except ParseError:
        return ("err", "parse")
    except Exception as x:  # noqa
        return ("internal", "%s: %s" % (type(x).__name__, x))


# ------------------------------------------------------------------ regex string functions (match, resubst)
# Documented (doc/manual/configuration.rst): $(match,string,pattern[,i]) -> "true"/"false" (re.search), 
# $(resubst,pattern,replacement,string[,i]) -> re.sub; the optional flag "i" ignores case. The value depends on the
# arguments only -- never on what was evaluated earlier in the same process.

RX_PATTERNS = ["^arm", "a+", "[a-c]x", "foo|bar", "(?i)q", "\\.c$", "x$", "^[A-Z]", "b", "arm", "o{2}", "[A-Z]+$",
               "^(foo|ARM)", "\\d+", "c"]
RX_SUBJECTS = ["ARM64", "armv7", "Foo.C", "main.c", "aAax", "BX cx", "Quux", "fooBAR", "FOO bar", "x86_64",
               "Readme.TXT", "abcABC", "aarch64-ARM", "qQ", "Cx.c"]
RX_REPLS = ["-", "Z", "_x_", "[\\g<0>]", "<>", "0"]
RX_BARE_OK = set(NAME_CHARS)


def rx_expected(call):
    """independent evaluator: Python's re with IGNORECASE iff the documented flag is given"""
    flags = re.IGNORECASE if call["i"] else 0
    if call["fn"] == "match":
        found = re.search(call["pat"], call["s"], flags) is not None
        return found if call["form"] == "cond" else ("true" if found else "false")
    return re.sub(call["pat"], call["repl"], call["s"], flags=flags)


def rx_quote(arg, form):
    if form == "bare" and arg and all(ch in RX_BARE_OK for ch in arg):
        return arg
    if form == "dq":
        return '"' + esc_meta(arg) + '"'
    return "'" + arg + "'"


def rx_text(call):
    form = call["form"]
    if call["fn"] == "match":
        args = [call["s"], call["pat"]]
    else:
        args = [call["pat"], call["repl"], call["s"]]
    if form == "cond":
        qa = ["'" + a + "'" for a in args] + (["'i'"] if call["i"] else [])
        return "%s(%s)" % (call["fn"], ", ".join(qa))
    qa = [rx_quote(a, form) for a in args] + (["i"] if call["i"] else [])
    return "$(%s,%s)" % (call["fn"], ",".join(qa))


def rx_impl(env, call):
    from bob.errors import ParseError
    from bob.stringparser import IfExpression
    text = rx_text(call)
    try:
        if call["form"] == "cond":
            return ("ok", bool(env.evaluate(IfExpression(text), "p")))
        return ("ok", env.substitute(text, "p"))
    except ParseError as x:
        return ("err", str(x.slogan)[:80])
    except Exception as x:  # noqa
        return ("internal", "%s: %s" % (type(x).__name__, x))


def gen_rx_sequence(r, n):
    """n calls over a small set of patterns, so that the same pattern string recurs with and without the flag and
    in both functions"""
    pats = r.sample(RX_PATTERNS, r.choice([1, 1, 2, 2, 3]))
    calls = []
    for _ in range(n):
        fn = r.choice(["match", "match", "resubst"])
        call = {"fn": fn, "pat": r.choice(pats), "s": r.choice(RX_SUBJECTS), "i": r.random() < 0.5,
                "form": r.choice(["sq", "dq", "bare", "cond"] if fn == "match" else ["sq", "dq", "bare"])}
        if fn == "resubst":
            call["repl"] = r.choice(RX_REPLS)
        calls.append(call)
    return calls


_RX_HISTORY = {}        # pattern string -> distinct calls already evaluated in this process (in order)


def rx_run_sequence(ctx, calls, record_history=True):
    """evaluate the calls in order in this process; a wrong value is reported together with every earlier call of this
    process that used the same pattern string (the only state the calls could share)"""
    env = make_env({}, False, {})
    for call in calls:
        got = rx_impl(env, call)
        want = ("ok", rx_expected(call))
        prior = list(_RX_HISTORY.get(call["pat"], []))
        if record_history and call not in prior:
            _RX_HISTORY.setdefault(call["pat"], []).append(dict(call))
        if got != want:
            case = {"kind": "regex-seq", "calls": prior + [dict(call)]}
            if got[0] == "internal":
                ctx.violation("internal exception from %r: %s" % (rx_text(call), got[1]), case,
                              "regex-function-internal-exception")
            else:
                ctx.violation("regex function value differs from documented semantics: %r = %r, documented value %r "
                              "(after %d earlier evaluation(s) with the same pattern in this process: %s)"
                              % (rx_text(call), got[1], want[1], len(prior),
                                 "; ".join(rx_text(c) for c in prior[:4])), case, "regex-function-value")
            return False
    return True


def regex_stream(ctx, tag, n_seq, n_calls, min_seq, frac):
    r = ctx.subrng("regex-seq", tag)
    for i in range(n_seq):
        if i >= min_seq and ctx.time_left() < frac * ctx.budget:
            ctx.skip("regex function stream (%s) cut by the time budget" % tag)
            break
        calls = gen_rx_sequence(r, n_calls)
        rx_run_sequence(ctx, calls)
        flags_by_pat = {}
        for c in calls:
            flags_by_pat.setdefault(c["pat"], set()).add(c["i"])
        mixed = any(len(v) == 2 for v in flags_by_pat.values())
        ctx.case(("regex-seq", tuple(rx_text(c) for c in calls)), nontrivial=mixed,
                 sample={"calls": [rx_text(c) for c in calls]})
        ctx.count("regex_seq", "same pattern with and without i" if mixed else "single flag setting")


# ------------------------------------------------------------------ case streams

def tree_cases(ctx, n, tag):
    r = ctx.subrng(tag)
    for i in range(n):
        fr = gen_frags(r, r.randrange(0, 5))
        env = r.choice(ENVS)
        yield {"frags": fr, "text": render(fr), "env": env, "nounset": r.random() < 0.6,
               "sandbox": r.random() < 0.5, "tools": TOOLS if r.random() < 0.7 else {}}


def check_tree(ctx, c):
    """oracle on one tree case; returns the implementation's outcome"""
    got = impl_subst(c["text"], c["env"], c["nounset"], c["sandbox"], c["tools"])
    try:
        want = ("ok", spec_eval(c["frags"], c["env"], c["nounset"], c["sandbox"], c["tools"]))
    except SpecError:
        want = ("err", None)
    if got[0] == "internal":
        ctx.violation("internal exception from substitute: " + got[1], _rec(c), "internal-exception")
    elif got[0] != want[0] or (got[0] == "ok" and got[1] != want[1]):
        ctx.violation("substitute(%r) = %r, documented rules give %r" % (c["text"], got, want), _rec(c),
                      classify_mismatch(c["text"]))
    return got


def classify_mismatch(text):
    return "substitution-value-mismatch"


def _rec(c):
    return {"kind": "tree", "text": c["text"], "frags": c.get("frags"), "env": c["env"], "nounset": c["nounset"],
            "sandbox": c["sandbox"], "tools": c["tools"]}


def oracle(ctx):
    # (0) regex string functions, documented semantics, history independent: mandatory first batch
    regex_stream(ctx, "first", 300, 6, 300, 0.0)
    n_tree = ctx.scale(12000, 300000)
    for n_done, c in enumerate(tree_cases(ctx, n_tree, "tree")):
        if n_done > 1500 and ctx.time_left() < 0.75 * ctx.budget:
            ctx.skip("tree stream cut by the time budget")
            break
        got = check_tree(ctx, c)
        ctx.case((c["text"], sorted(c["env"].items()), c["nounset"]), nontrivial=any(m in c["text"] for m in META),
                 sample={"text": c["text"], "env": c["env"], "nounset": c["nounset"], "result": got})
        ctx.count("tree_outcome", got[0] if got[0] != "err" else "err:" + str(got[1]))
    # (b) protected text
    r = ctx.subrng("protect")
    for i in range(ctx.scale(6000, 150000)):
        if i > 500 and ctx.time_left() < 0.6 * ctx.budget:
            ctx.skip("protect stream cut by the time budget")
            break
        s = gen_plain(r)
        env = r.choice(ENVS)
        forms = [("backslash", esc_all(s)), ("double", '"' + esc_meta(s) + '"')]
        if "'" not in s:
            forms.append(("single", "'" + s + "'"))
        for kind, text in forms:
            got = impl_subst(text, env, True, False, {})
            ctx.case((text, kind), nontrivial=bool(s))
            if got != ("ok", s):
                ctx.violation("text protected by %s quoting does not come back unchanged: substitute(%r) = %r, expected %r"
                              % (kind, text, got, s), {"kind": "protect", "text": text, "expect": s, "env": env},
                              "protect-" + kind + ("-escaped-delimiter" if got[0] == "err" else ""))
    # (c) raw strings: never an internal exception
    r = ctx.subrng("raw")
    for i in range(ctx.scale(15000, 400000)):
        if i > 1000 and ctx.time_left() < 0.5 * ctx.budget:
            ctx.skip("raw stream cut by the time budget")
            break
        s = gen_raw(r)
        env = r.choice(ENVS)
        got = impl_subst(s, env, r.random() < 0.5, False, TOOLS)
        ctx.case((s, "raw"), nontrivial=any(m in s for m in META))
        ctx.count("raw_outcome", got[0])
        if got[0] == "internal":
            ctx.violation("internal exception from substitute(%r): %s" % (s, got[1]),
                          {"kind": "raw", "text": s, "env": env}, "internal-exception")
    # (d) infix == function-call form
    r = ctx.subrng("infix")
    for i in range(ctx.scale(2500, 60000)):
        if i > 300 and ctx.time_left() < 0.4 * ctx.budget:
            ctx.skip("infix stream cut by the time budget")
            break
        e = gen_ifexpr(r, r.randrange(1, 4))
        env = r.choice(ENVS)
        sb = r.random() < 0.5
        it = infix_text(e)
        a = impl_ifexpr(it, env, sb, TOOLS)
        ctx.case((it, "infix"))
        ctx.count("infix_outcome", a[0])
        if a[0] == "internal":
            ctx.violation("internal exception from IfExpression(%r): %s" % (it, a[1]),
                          {"kind": "infix", "expr": e, "env": env, "sandbox": sb}, "ifexpr-internal-exception")
            continue
        mt = infix_min_text(e)
        if mt != it:
            m = impl_ifexpr(mt, env, sb, TOOLS)
            ctx.case((mt, "infix-min"))
            if m != a:
                ctx.violation("infix %r (documented precedence, = %r) evaluates to %r but the explicit grouping to %r"
                              % (mt, it, m, a), {"kind": "infix", "expr": e, "env": env, "sandbox": sb}, "infix-precedence")
                continue
        ft = funcall_text(e)
        if ft is None:
            continue
        # the string form is evaluated with nounset=True, string literals of an IfExpression with
        # nounset=False: compare only when no unset variable is involved (both succeed)
        b = impl_evalstr(ft, env, sb, TOOLS)
        if a[0] == "ok" and b[0] == "ok" and a[1] != b[1]:
            ctx.violation("infix %r evaluates to %r but function-call form %r to %r" % (it, a[1], ft, b[1]),
                          {"kind": "infix", "expr": e, "env": env, "sandbox": sb}, "infix-vs-funcall")
    # the documented grammar admits operators as operands of comparisons; generate those too
    for text in ['!"a" == "b"', '("a" == "b") == "c"', '"a" < "b" <= "c"', '("a" && "b") < "c"', '!("a") == "b"']:
        a = impl_ifexpr(text, ENVS[0], False, TOOLS)
        ctx.case((text, "infix-nested"))
        if a[0] == "internal":
            ctx.violation("internal exception from IfExpression(%r): %s" % (text, a[1]),
                          {"kind": "infix-text", "text": text, "env": ENVS[0]}, "ifexpr-operator-as-string-operand")
    # (f) regex string functions: larger time-gated stream (longer sequences)
    regex_stream(ctx, "stream", ctx.scale(3000, 60000), 10, 0, 0.3)


def correspond(ctx):
    correspond_spec(ctx)
    reqs, impl, cases = [], [], []

    def add(text, env, nounset, sandbox, tools, kind):
        got = impl_subst(text, env, nounset, sandbox, tools)
        reqs.append({"op": "subst", "text": text, "env": env, "nounset": nounset, "sandbox": sandbox, "tools": tools})
        impl.append(got)
        cases.append({"kind": kind, "text": text, "env": env, "nounset": nounset, "sandbox": sandbox, "tools": tools})

    r = ctx.subrng("corr")
    for n_c, c in enumerate(tree_cases(ctx, ctx.scale(8000, 200000), "corr-tree")):
        if n_c > 2000 and ctx.time_left() < 0.25 * ctx.budget:
            ctx.skip("correspondence tree stream cut by the time budget")
            break
        add(c["text"], c["env"], c["nounset"], c["sandbox"], c["tools"], "tree")
        if r.random() < 0.5:
            add(mutate(r, c["text"]), c["env"], c["nounset"], c["sandbox"], c["tools"], "mutated")
    for i in range(ctx.scale(10000, 300000)):
        if i > 2000 and ctx.time_left() < 0.15 * ctx.budget:
            ctx.skip("correspondence raw stream cut by the time budget")
            break
        add(gen_raw(r), r.choice(ENVS), r.random() < 0.5, r.random() < 0.5, TOOLS, "raw")
    for i in range(ctx.scale(3000, 60000)):
        s = gen_plain(r)
        add(r.choice([esc_all(s), '"' + esc_meta(s) + '"', "'" + s.replace("'", "") + "'"]), r.choice(ENVS), True, False, {}, "protect")
    # isFalse over the whole code point range (whitespace table, lower())
    isf = []
    for i in range(ctx.scale(3000, 30000)):
        core = r.choice(["", "0", "false", "FALSE", "fAlSe", "f", "1", "true", "K", "falſe"])
        pad = lambda: "".join(r.choice(WS + "ab​﻿᠎") if r.random() < 0.7 else chr(r.randrange(1, 0x3100)) for _ in range(r.randrange(3)))
        isf.append(pad() + core + pad())
    from bob.stringparser import isFalse
    out = ctx.lean(DRIVER, reqs + [{"op": "isfalse", "text": s} for s in isf])
    for c, got, m in zip(cases, impl, out[:len(reqs)]):
        ctx.case((c["text"], sorted(c["env"].items()), c["nounset"], "corr"), nontrivial=any(x in c["text"] for x in META))
        if "err" in m and m["err"] == "unsupported":
            ctx.count("corr", "unsupported-function")
            continue
        mm = ("ok", m["ok"]) if "ok" in m else ("err", m.get("err"))
        ctx.count("corr_" + c["kind"], mm[0] if mm[0] == "ok" else "err:" + str(mm[1]))
        if got[0] == "internal" or got[0] != mm[0] or got[1] != mm[1]:
            ctx.disagree("StringParser.parse == Model.StringParser.parse", c, list(got), list(mm))
    for s, m in zip(isf, out[len(reqs):]):
        ctx.case((s, "isfalse"))
        if bool(isFalse(s)) != m["ok"]:
            ctx.disagree("isFalse == Model.isFalse", {"text": s}, bool(isFalse(s)), m["ok"])
    ctx.trace_validated(len(reqs) + len(isf))
    # IfExpression: text -> (pyparsing) -> evaluation  vs  model evaluation of the generated tree
    reqs2, impl2, cases2 = [], [], []
    for i in range(ctx.scale(2500, 60000)):
        e = gen_ifexpr(r, r.randrange(1, 4))
        env = r.choice(ENVS)
        sb = r.random() < 0.5
        it = infix_text(e) if i % 2 else infix_min_text(e)
        impl2.append(impl_ifexpr(it, env, sb, TOOLS))
        reqs2.append({"op": "evalif", "expr": lean_expr(e), "env": env, "sandbox": sb, "tools": TOOLS, "nounset": False})
        cases2.append({"kind": "infix", "text": it, "env": env, "sandbox": sb})
    for c, got, m in zip(cases2, impl2, ctx.lean(DRIVER, reqs2)):
        ctx.case((c["text"], sorted(c["env"].items()), "evalif"))
        mm = ("ok", m["ok"]) if "ok" in m else ("err", "parse")
        if got != mm:
            ctx.disagree("IfExpression.evalExpression == Model.IfExpr.eval", c, list(got), list(mm))
    ctx.trace_validated(len(reqs2))


SPEC_ERRKIND = {"arity": "funArity", "tool": "funError", "toolvar": "funError", "unknown function": "unknownFun"}


def spec_outcome(c):
    """this file's evaluator of the documented rules, error kinds named as in the Lean model"""
    try:
        return ("ok", spec_eval(c["frags"], c["env"], c["nounset"], c["sandbox"], c["tools"]))
    except SpecError as x:
        msg = str(x)
        return ("err", "unsetVar" if msg.startswith("unset ") else SPEC_ERRKIND.get(msg, "other:" + msg))


def correspond_spec(ctx):
    """Lean's tree semantics (SubstSpec.render / eval / WF) == Python's render / spec_eval on generated trees.
    subst_render_eval is a statement about SubstSpec; this ties SubstSpec itself to the oracle's reading of the
    documentation, and shows that the generated trees are inside the proved fragment (WF)."""
    reqs, cases = [], []
    for c in tree_cases(ctx, ctx.scale(5000, 120000), "corr-spec"):
        reqs.append({"op": "speceval", "frags": c["frags"], "env": c["env"], "nounset": c["nounset"],
                     "sandbox": c["sandbox"], "tools": c["tools"]})
        cases.append(c)
    for c, m in zip(cases, ctx.lean(DRIVER, reqs)):
        ctx.case((c["text"], sorted(c["env"].items()), c["nounset"], "spec"), nontrivial=any(x in c["text"] for x in META))
        want = spec_outcome(c)
        got = ("ok", m["ok"]) if "ok" in m else ("err", m.get("err"))
        ctx.count("spec_eval", got[0] if got[0] == "ok" else "err:" + str(got[1]))
        ctx.count("spec_wf", "wf" if m.get("wf") else "not-wf")
        rec = {"kind": "spec", "text": c["text"], "frags": c["frags"], "env": c["env"], "nounset": c["nounset"],
               "sandbox": c["sandbox"], "tools": c["tools"]}
        if m.get("text") != c["text"]:
            ctx.disagree("render == Model.SubstSpec.render", rec, c["text"], m.get("text"))
        elif got != want:
            ctx.disagree("spec_eval == Model.SubstSpec.eval", rec, list(want), list(got))
        elif not m.get("wf"):
            ctx.disagree("generated tree is SubstSpec.WF (inside the fragment covered by subst_render_eval)", rec, True, False)


def replay(ctx, case):
    k = case.get("kind")
    if k == "regex-seq":
        rx_run_sequence(ctx, case["calls"], record_history=False)
        return
    if k == "tree":
        frags = _tuplify(case["frags"])
        c = dict(case, frags=frags)
        check_tree(ctx, c)
    elif k == "protect":
        got = impl_subst(case["text"], case["env"], True, False, {})
        if got != ("ok", case["expect"]):
            ctx.violation("protected text changed", case)
    elif k == "raw":
        got = impl_subst(case["text"], case["env"], True, False, TOOLS)
        if got[0] == "internal":
            ctx.violation("internal exception", case)
    elif k == "infix-text":
        if impl_ifexpr(case["text"], case["env"], False, TOOLS)[0] == "internal":
            ctx.violation("internal exception", case)
    elif k == "infix":
        e = case["expr"]
        a = impl_ifexpr(infix_text(e), case["env"], case["sandbox"], TOOLS)
        if a[0] == "internal":
            ctx.violation("internal exception", case)
        if impl_ifexpr(infix_min_text(e), case["env"], case["sandbox"], TOOLS) != a:
            ctx.violation("documented precedence not followed", case)
        ft = funcall_text(e)
        if ft is not None:
            b = impl_evalstr(ft, case["env"], case["sandbox"], TOOLS)
            if a[0] == "ok" and b[0] == "ok" and a[1] != b[1]:
                ctx.violation("infix != funcall", case)


def _tuplify(x):
    if isinstance(x, list):
        if x and isinstance(x[0], str) and x[0] in ("lit", "esc", "sq", "dq", "bare", "var", "dflt", "altv", "call"):
            return tuple(_tuplify(y) if isinstance(y, list) else y for y in x)
        return [_tuplify(y) for y in x]
    return x


MANIFEST = {
    "text": "Proved in Lean for all inputs (Props/C17.lean): the fast path of the parser is transparent, text protected by the "
            "documented quoting rules is returned unchanged, the parser terminates within 2*len+4 fuel (outOfFuel unreachable), infix "
            "operators equal their function-call forms, and parse(render t) = eval t (values and error kinds) for every well-formed tree of the "
            "documented fragment grammar, with laziness of the untaken :-/:+ branch as a corollary (all at full strength, no `_partial`). "
            "The tree semantics used in that theorem (Model/SubstSpec.lean) is itself compared with the Python evaluator of the documented "
            "rules on every generated tree. The model is a hand-written transliteration of StringParser/IfExpression; "
            "it is tied to the current source by a differential run (~25k strings per quick run, value and error kind compared) and "
            "by constants regenerated from the source. An independent Python evaluator of the documented rules is the property oracle.",
    "note": "trusted: Lean kernel, harness/props/c17.py, tools/consts/c17.py, CPython str.strip/lower/replace semantics (modelled, "
            "validated differentially), pyparsing text->AST, re/fnmatch based functions (outside the model)",
    "technique": "Lean 4 proof over hand-written model + differential correspondence + independent spec evaluator as oracle",
}
