"""C03 - package ids are pure, location independent and long-term stable.

oracle (implementation only): every generated project is written several times and evaluated by the real
  RecipeSet in separate interpreter processes:
     A  path .../a, sorted file creation order, PYTHONHASHSEED=0, sandbox off           (reference)
     B  another absolute path, shuffled creation order, PYTHONHASHSEED=1, old file timestamps
     C  a third path (blanks and non-ASCII characters), shuffled order, random PYTHONHASHSEED, other HOME / cwd depth
     D  like A with sandbox images enabled
     E* id-irrelevant single edits (weak variable value, meta environment, comments, key order, flags)
  Variant-Ids of all steps and Build-Ids (StepIR.getDigestCoro with harness supplied dependency digests, three
  platform/fingerprint configurations) must agree between A, B, C and E*; D must agree with A in the recipe half
  of every id, and completely for steps that are not fingerprinted inside a sandbox - except for steps that (or
  whose inputs) legitimately see the sandbox (sandbox variables declared as used, $(is-sandbox-enabled)).
  A Build-Id must not change when another variant of a weakly used tool is installed.
  Golden ids: `bob project -n --sandbox dumper root-X` on test/black-box/stable-variant-ids == specs/X.txt (a test).
correspond: all Variant-Ids and Build-Ids of configuration A and of the golden project are recomputed bit-exactly
  by the Lean model from the exported step descriptions.
"""
import json
import os
import shutil
import subprocess
import sys

DRIVER = "drv_c03"
RULE = ("projects from gen/projects.py (see C02). One evaluated case = one step of one project in one configuration "
        "(A reference, B/C other path + creation order + PYTHONHASHSEED + timestamps, D sandbox on, E id-irrelevant edit); "
        "distinct by (project, step, configuration); non-trivial if the step is valid. Build-Ids: 3 platform/fingerprint "
        "configurations per step. Golden: every step line of the five recorded reference dumps.")
ASSUMPTIONS = [
    "Build-Ids are computed by StepIR.getDigestCoro with harness supplied digests of the dependencies (source hashes / "
    "fingerprints are inputs, not recomputed); builder.py's live-build-id and fingerprint execution are not exercised",
    "the platform tag is an input of the Build-Id (b'' on Linux); 'w' and 'ml' are supplied to exercise it",
    "sandbox invariance is claimed for steps whose own description and whose inputs do not change when the sandbox is "
    "enabled; projects that query $(is-sandbox-enabled) are excluded from the on/off comparison",
    "CoreStep.getResultId / CoreTool.resultId / CoreSandbox.resultId (package merging) are not modelled",
    "tools and sandbox of a step are exported from its core view (what CoreStep.getDigest hashes); below a package that was "
    "merged by result id (known findings F-C04-2..5) the package-level getters Step.getTools/getSandbox - and with them "
    "StepIR.getDigestCoro in Variant-Id mode - can show another sandbox/tool set; such steps are counted (histogram "
    "core_vs_package_view), not compared",
    "golden ids are a test on five fixed roots (recorded values), labelled as such",
]

_CACHE = {}
_REPLAY_PERM = {}
HERE = os.path.dirname(os.path.dirname(os.path.abspath(__file__)))


# ---------------------------------------------------------------------- running configurations

def _run_jobs(item):
    """one interpreter process: (jobs, hashseed, extra_env, cwd) -> list of results"""
    jobs, hashseed, extra_env, timeout = item
    jf = jobs[0]["out"] + ".jobs.json"
    with open(jf, "w") as f:
        json.dump(jobs, f)
    env = dict(os.environ)
    env["PYTHONHASHSEED"] = str(hashseed)
    env["PYTHONDONTWRITEBYTECODE"] = "1"
    env.update(extra_env)
    try:
        p = subprocess.run([sys.executable, os.path.join(HERE, "gen", "evalproj.py"), jf], env=env, cwd=os.path.dirname(jf),
                           stdout=subprocess.PIPE, stderr=subprocess.PIPE, timeout=timeout)
    except subprocess.TimeoutExpired:
        return [{"timeout": True}] * len(jobs)
    out = []
    for j in jobs:
        if os.path.exists(j["out"]):
            with open(j["out"]) as f:
                out.append(json.load(f))
        else:
            out.append({"crash": "no output; rc=%s stderr=%s" % (p.returncode, p.stderr.decode("utf-8", "replace")[-400:])})
    return out


CONFIGS = ["A", "B", "C", "D"]


def _write_config(ctx, base, P, cfg, rng):
    """write project P for configuration cfg below `base`; returns (root, sandbox)"""
    if cfg == "A":
        root = os.path.join(base, "a")
        P.write(root)
    elif cfg == "B":
        root = os.path.join(base, "b", "somewhere", "else", "deeper")
        P.write(root, rng)
        for dp, dns, fns in os.walk(root):
            for fn in fns:
                t = 1000000000 + rng.randrange(10 ** 8)
                os.utime(os.path.join(dp, fn), (t, t))
    elif cfg == "C":
        root = os.path.join(base, "c dir with blanks", "ünïcode", "p")
        P.write(root, rng)
    elif cfg == "D":
        root = os.path.join(base, "d")
        P.write(root)
    else:
        root = os.path.join(base, cfg)
        P.write(root, rng)
    return root, cfg == "D"


def _evaluate_projects(ctx, plan, tag, deadline_left):
    """returns [{'project': json, 'edits': [...], 'results': {cfg: result}}].
    One interpreter per (hash seed, chunk of jobs): the jobs of several projects share a process, so that the
    interpreter start-up is paid once per chunk."""
    recs = []
    by_seed = {0: [], 1: [], 2: []}
    rng0 = ctx.subrng("cfg", tag)
    for pi, (P, edits) in enumerate(plan):
        rng = ctx.subrng("cfg", tag, pi)
        base = os.path.join(ctx.tmp, "%s-%d" % (tag, pi))
        rec = {"project": P.to_json(), "uses_query": sorted(P.uses_sandbox_query), "edits": [e for e, _ in edits],
               "edited": [Q.to_json() for _, Q in edits], "results": {}}
        recs.append(rec)
        for cfg in CONFIGS:
            root, sb = _write_config(ctx, base, P, cfg, rng)
            seed = {"A": 0, "B": 1, "C": 2, "D": 0}[cfg]
            by_seed[seed].append((pi, cfg, {"root": root, "sandbox": sb, "out": os.path.join(base, "out-%s.json" % cfg), "cap": 300,
                                            "bids": cfg in ("A", "B", "C"), "project": rec["project"] if cfg == "A" else None}))
        # M: the same project, every package computed from its own inputs (no reuse of earlier visits of a recipe)
        root, _ = _write_config(ctx, base, P, "M", rng)
        by_seed[1].append((pi, "M", {"root": root, "sandbox": False, "out": os.path.join(base, "out-M.json"), "cap": 300,
                                     "bids": False, "project": None, "memo": False}))
        # R: dependency lists that forward nothing to their siblings in another order
        Q, affected = _REPLAY_PERM.get("q") or P.permute_deps(rng)
        rec["permuted"] = sorted(affected)
        rec["permuted_project"] = Q.to_json()
        if affected:
            root, _ = _write_config(ctx, base, Q, "R", rng)
            by_seed[2].append((pi, "R", {"root": root, "sandbox": False, "out": os.path.join(base, "out-R.json"), "cap": 300,
                                         "bids": False, "project": None}))
        for k, (e, Q) in enumerate(edits):
            cfg = "E%d" % k
            root, sb = _write_config(ctx, base, Q, cfg, rng)
            by_seed[(pi + k) % 3].append((pi, cfg, {"root": root, "sandbox": False, "out": os.path.join(base, "out-%s.json" % cfg),
                                                    "cap": 300, "bids": True, "project": None}))
    items, index = [], []
    chunk = 12
    for seed, lst in by_seed.items():
        for off in range(0, len(lst), chunk):
            part = lst[off:off + chunk]
            hs = {0: 0, 1: 1, 2: rng0.randrange(2, 2 ** 32)}[seed]
            extra = {} if seed == 0 else {"HOME": os.path.join(ctx.tmp, "home%d" % seed), "LANG": "C", "TZ": "Asia/Tokyo"}
            # the first batch is mandatory: its interpreters get a fixed, generous time-out so that a seed explores the
            # same projects whatever the machine load is; later batches are bounded by what is left of the budget
            items.append(([j for _, _, j in part], hs, extra, 240 if deadline_left < 0 else max(20, min(90, ctx.time_left() * 0.5))))
            index.append([(pi, c) for pi, c, _ in part])
    import concurrent.futures as cf
    ex = cf.ThreadPoolExecutor(min(12, os.cpu_count() or 4, max(1, len(items))))
    try:
        futs = [ex.submit(_run_jobs, it) for it in items]
        for idx, fut in zip(index, futs):
            try:
                res = fut.result(timeout=None if deadline_left < 0 else max(1, ctx.time_left() - deadline_left + 5))
            except cf.TimeoutError:
                break
            for (pi, c), r in zip(idx, res):
                recs[pi]["results"][c] = r
            if deadline_left >= 0 and ctx.time_left() < deadline_left:
                break
    finally:
        # queued interpreters are dropped, running ones end by their own time-out
        ex.shutdown(wait=True, cancel_futures=True)
    return recs


# ---------------------------------------------------------------------- checks

def _ids(res, with_bid=True):
    out = {}
    for s in res["steps"]:
        out[s["key"]] = (s["vid"], tuple(b["id"] for b in s.get("bid", [])) if with_bid else ())
    return out


def _usable(r):
    return isinstance(r, dict) and "steps" in r


def check_project(ctx, rec, report=True):
    out = []

    def viol(what, case, sig):
        out.append((what, case, sig))
        if report:
            ctx.violation(what, case, sig)

    R = rec["results"]
    A = R.get("A")
    for c, r in R.items():
        if isinstance(r, dict) and ("crash" in r or "timeout" in r):
            ctx.skip("configuration %s: interpreter did not deliver (%s)" % (c, "timeout" if "timeout" in r else "crash"))
            if report:
                ctx.count("config", c + ":undelivered")
    if not _usable(A):
        # a project the generator got wrong (ParseError) must be rejected in every configuration alike
        if isinstance(A, dict) and "error" in A:
            for c, r in R.items():
                if _usable(r) and not c.startswith("E"):
                    viol("project is rejected in configuration A (%s) but accepted in %s" % (A["error"], c),
                         {"kind": "config", "project": rec["project"], "cfg": c}, "accepted-depends-on-" + c)
        return out
    ida = _ids(A)
    import hashlib
    pf = hashlib.sha1(json.dumps(rec["project"], sort_keys=True).encode()).hexdigest()[:12]
    for s in A["steps"]:
        if report and s["desc"].get("view_mismatch"):
            ctx.count("core_vs_package_view", "+".join(s["desc"]["view_mismatch"]))
        if report:
            ctx.case((pf, s["key"], "A"), nontrivial=s["valid"],
                     sample={"step": s["key"], "vid": s["vid"], "bid": [b["id"] for b in s["bid"]]})
        # Build-Id ignores which variant of a weakly used tool is installed
        for b in s.get("bid", []):
            if b["id"] != b["id_other_weak_tools"]:
                viol("Build-Id of %s changes when another variant of a weakly used tool (declared weak in the recipe: %s; "
                     "Step.toolDepWeak: %s) is installed" % (s["key"], s.get("spec_weak_tools"), s["tooldep_weak"]),
                     {"kind": "weaktool", "project": rec["project"], "key": s["key"]}, "build-id-depends-on-weak-tool-variant")
                break
    # B, C and the id-irrelevant edits agree with A
    for c, r in R.items():
        if c in ("A", "D", "M", "R") or not _usable(r):
            if c not in ("A", "D") and isinstance(r, dict) and "error" in r and not c.startswith("E"):
                viol("project is accepted in configuration A but rejected in %s: %s" % (c, r["error"]),
                     {"kind": "config", "project": rec["project"], "cfg": c}, "accepted-depends-on-" + c)
            continue
        idc = _ids(r)
        if report:
            ctx.count("config", c[0] + ":compared")
            for k in idc:
                ctx.case((pf, k, c))
        if idc != ida:
            bad = sorted(k for k in set(ida) | set(idc) if ida.get(k) != idc.get(k))
            what = "Variant-Id" if any(ida.get(k, ("",))[0] != idc.get(k, ("",))[0] for k in bad) else "Build-Id"
            if c.startswith("E"):
                e = rec["edits"][int(c[1:])]
                viol("%s of %s changes with the id-irrelevant edit %s of %s" % (what, bad[:3], e["kind"], e["target"]),
                     {"kind": "edit", "project": rec["project"], "edit": e, "edited": rec["edited"][int(c[1:])]},
                     "id-depends-on-" + e["kind"])
            else:
                viol("%s of %s differs between configuration A and %s (path / file creation order / hash seed / timestamps / environment)"
                     % (what, bad[:3], c), {"kind": "config", "project": rec["project"], "cfg": c},
                     "id-depends-on-location-or-order-or-hashseed")
    # M: ids do not depend on whether a package was reused from an earlier visit of its recipe (how often / in which
    # order it is reached); R: nor on the order of dependencies that forward nothing to each other - except for the
    # packages whose own dependency list was permuted and everything that consumes them
    da0 = {s["key"]: s for s in A["steps"]}
    M = R.get("M")
    if _usable(M):
        for s in M["steps"]:
            a = da0.get(s["key"])
            if report:
                ctx.case((pf, s["key"], "M"))
            if a is not None and a["valid"] and s["valid"] and a["vid"] != s["vid"]:
                viol("Variant-Id of %s is %s, but %s when every package is computed from its own inputs (no reuse of an earlier "
                     "visit of the recipe): the id depends on the order / number of times the package is reached"
                     % (s["key"], a["vid"], s["vid"]), {"kind": "reuse", "project": rec["project"], "key": s["key"]},
                     "id-depends-on-package-reuse-order")
                break
        if report:
            ctx.count("config", "M:compared")
    Rr = R.get("R")
    if _usable(Rr) and rec.get("permuted"):
        perm = set(rec["permuted"])
        dr = {s["key"]: s for s in Rr["steps"]}
        aff = {}

        def affected(k):
            if k in aff:
                return aff[k]
            aff[k] = True
            s = dr.get(k) or da0.get(k)
            t = s is None or s["pkg"] in perm or any(affected(x) for x in s["dep_keys"])
            if not t and k in da0 and k in dr:
                t = any(affected(x) for x in da0[k]["dep_keys"])
            aff[k] = t
            return t
        for k in sorted(set(da0) & set(dr)):
            t = affected(k)
            if report:
                ctx.count("dep_order", "legitimately changed" if t else "compared")
                ctx.case((pf, k, "R"))
            if not t and da0[k]["valid"] and dr[k]["valid"] and da0[k]["vid"] != dr[k]["vid"]:
                viol("Variant-Id of %s depends on the order of the dependencies of %s (%s / %s) although neither its package nor "
                     "anything it consumes was touched" % (k, sorted(perm), da0[k]["vid"], dr[k]["vid"]),
                     {"kind": "deporder", "project": rec["project"], "permuted_project": rec["permuted_project"],
                      "permuted": rec["permuted"], "key": k}, "id-depends-on-dependency-order")
                break
    # sandbox on/off
    D = R.get("D")
    if _usable(D) and not rec["uses_query"]:
        da = {s["key"]: s for s in A["steps"]}
        dd = {s["key"]: s for s in D["steps"]}
        if report:
            for s in D["steps"]:
                if s["desc"].get("view_mismatch"):
                    ctx.count("core_vs_package_view", "D:" + "+".join(s["desc"]["view_mismatch"]))
        taint = {}

        def own(s):
            d = s["desc"]
            return (d["script"], sorted(map(tuple, d["env"])), sorted((t["name"], t["path"], tuple(t["libs"])) for t in d["tools"]),
                    [a["valid"] for a in d["args"]], d["fingerprinted"], s["valid"])

        def tainted(k, depth=0):
            if k in taint:
                return taint[k]
            taint[k] = True   # cycles cannot occur; guard anyway
            a, d = da.get(k), dd.get(k)
            if a is None or d is None:
                return True
            deps_a = [x for x in a["dep_keys"]]
            # the sandbox step itself is an extra dependency when enabled: compare arguments and tools only
            nargs = len(d["desc"]["args"]) + len(d["desc"]["tools"])
            deps_d = d["dep_keys"][:nargs]
            t = own(a) != own(d) or deps_a[:nargs] != deps_d or len(a["desc"]["args"]) + len(a["desc"]["tools"]) != nargs
            if not t:
                t = any(tainted(x, depth + 1) for x in deps_d)
            taint[k] = t
            return t

        for k in sorted(set(da) & set(dd)):
            t = tainted(k)
            if report:
                ctx.count("sandbox_onoff", "exempt (sees the sandbox)" if t else "compared")
                ctx.case((pf, k, "D"))
            if t:
                continue
            va, vd = da[k]["vid"], dd[k]["vid"]
            if va[:40] != vd[:40]:
                viol("recipe half of the Variant-Id of %s depends on whether sandbox images are used (%s / %s)" % (k, va, vd),
                     {"kind": "sandbox", "project": rec["project"], "key": k}, "recipe-id-depends-on-sandbox")
            elif va != vd and not (dd[k]["desc"]["fingerprinted"] and dd[k]["desc"]["sandbox"]) and \
                    not _host_from_inputs(dd[k], da[k]):
                viol("Variant-Id of %s (not fingerprinted in a sandbox) depends on whether sandbox images are used (%s / %s)" % (k, va, vd),
                     {"kind": "sandbox", "project": rec["project"], "key": k}, "id-depends-on-sandbox")
    return out


def _host_from_inputs(d, a):
    """the host half of the id may legitimately differ because an *input* is fingerprinted inside the sandbox"""
    return [x["vid"][40:] for x in d["desc"]["args"]] != [x["vid"][40:] for x in a["desc"]["args"]]


# ---------------------------------------------------------------------- project / build tree location

LOC_CONFIGS = ["LA", "LB", "OA", "OB"]
_RR_DATA = {"payload.txt": b"recipe relative payload\n", "sub/more.bin": b"\x00\x01more"}


def _directed_location_project():
    """one recipe sub::root in recipes/sub/root.yaml that imports recipes/sub/data recipe-relative, and a plain import"""
    from gen import projects as G
    P = G.Project()
    P.recipes["sub/root"] = {"root": True,
                             "checkoutSCM": {"scm": "import", "url": "data", "recipeRelative": True},
                             "buildScript": "cp -a $1/* .", "packageScript": "cp -a $1/* ."}
    P.recipes["plain"] = {"root": True, "checkoutSCM": {"scm": "import", "url": "common"},
                          "buildScript": "cp -a $1/* .", "packageScript": "cp -a $1/* ."}
    P.recipes["sub/deeper/user"] = {"root": True, "depends": ["sub::root"],
                                    "checkoutSCM": [{"scm": "import", "url": "../data", "recipeRelative": True, "dir": "d"},
                                                    {"scm": "import", "url": "common", "dir": "c", "prune": True}],
                                    "buildScript": "echo $1 $2", "packageScript": "true"}
    P.files["recipes/sub/data/data.txt"] = b"payload\n"
    P.files["common/file.txt"] = b"common\n"
    return P


def _add_location_sensitive(P, rng):
    """C03-local post-processing of a generated project: recipe-relative (and plain) import SCMs, in recipes directly
    below recipes/ and in recipes of a sub-directory with the imported directory next to them"""
    Q = P.copy()
    for rel, data in _RR_DATA.items():
        Q.files["recipes/rrdata/" + rel] = data
        Q.files["recipes/loc/data/" + rel] = data
        Q.files["src/a/" + rel] = data
    stems = sorted(s for s, d in Q.recipes.items() if "multiPackage" not in d)
    touched = []
    for stem in rng.sample(stems, min(len(stems), rng.randrange(1, 4))):
        d = Q.recipes[stem]
        up = "../" * stem.count("/")
        scm = {"scm": "import", "url": up + "rrdata", "recipeRelative": True, "dir": "rr%d" % len(touched)}
        if rng.random() < 0.3:
            scm["prune"] = True
        old = d.get("checkoutSCM")
        d["checkoutSCM"] = [scm] if old is None else (list(old) + [scm] if isinstance(old, list) else [old, scm])
        if rng.random() < 0.4:
            d["checkoutSCM"].append({"scm": "import", "url": "src/a", "dir": "pl%d" % len(touched)})
        touched.append(stem)
    # a new root package in a sub-directory of recipes/ that consumes some of the touched packages
    deps = [s.replace("/", "::") for s in touched if rng.random() < 0.7]
    r = {"root": True, "checkoutSCM": {"scm": "import", "url": "data", "recipeRelative": True},
         "buildScript": "cp -a $1/* . ; echo \"${@:2}\"", "packageScript": "cp -a $1/* ."}
    if deps:
        r["depends"] = deps
    Q.recipes["loc/rrroot"] = r
    return Q


def _location_jobs(base, Q, rng):
    """(cfg, job) for the four locations: in-tree at A, in-tree at B (copy), out-of-tree build directories as set up by
    `bob init PROJECT BUILD` (cmds/misc.py doInit: BUILD/.bob-project holds the absolute project path) for both"""
    jobs = []
    la = Q.write(os.path.join(base, "la", "proj"))
    lb = Q.write(os.path.join(base, "lb", "some", "where else", "deeper", "proj"), rng)
    oa_p = Q.write(os.path.join(base, "oa", "p"))
    ob_p = Q.write(os.path.join(base, "ob", "x", "yy", "zzz", "p"), rng)
    oa = os.path.join(base, "oa", "build")
    ob = os.path.join(base, "ob", "bld", "tree")
    for proj, build in ((oa_p, oa), (ob_p, ob)):
        os.makedirs(build, exist_ok=True)
        with open(os.path.join(build, ".bob-project"), "w") as f:
            f.write(os.path.abspath(proj))
    for cfg, root in zip(LOC_CONFIGS, (la, lb, oa, ob)):
        jobs.append((cfg, {"root": root, "sandbox": False, "out": os.path.join(base, "out-%s.json" % cfg), "cap": 300,
                           "bids": True, "project": None}))
    return jobs


def _evaluate_locations(ctx, projects, tag, timeout):
    """projects: [(origin, Project)] -> [{'project': json, 'origin':…, 'results': {cfg: result}}]"""
    recs, items, index = [], [], []
    for pi, (origin, Q) in enumerate(projects):
        rng = ctx.subrng("loccfg", tag, pi)
        base = os.path.join(ctx.tmp, "%s-%d" % (tag, pi))
        recs.append({"project": Q.to_json(), "origin": origin, "results": {}})
        jobs = _location_jobs(base, Q, rng)
        # in-tree and out-of-tree evaluations in different interpreters (hash seeds 0 / 1)
        for hs, part in ((0, jobs[:2]), (1, jobs[2:])):
            items.append(([j for _, j in part], hs, {}, timeout))
            index.append([(pi, c) for c, _ in part])
    import concurrent.futures as cf
    ex = cf.ThreadPoolExecutor(min(12, os.cpu_count() or 4, max(1, len(items))))
    try:
        for idx, res in zip(index, ex.map(_run_jobs, items)):
            for (pi, c), r in zip(idx, res):
                recs[pi]["results"][c] = r
    finally:
        ex.shutdown(wait=True, cancel_futures=True)
    return recs


def check_location(ctx, rec, report=True):
    out = []

    def viol(what, sig):
        out.append((what, {"kind": "location", "project": rec["project"], "origin": rec.get("origin")}, sig))
        if report:
            ctx.violation(*out[-1])

    R = rec["results"]
    for c in LOC_CONFIGS:
        r = R.get(c)
        if not isinstance(r, dict) or "crash" in r or "timeout" in r:
            ctx.skip("location configuration %s: interpreter did not deliver (%s)" % (c, "timeout" if isinstance(r, dict) and "timeout" in r else "crash"))
            if report:
                ctx.count("location", c + ":undelivered")
    A = R.get("LA")
    if not _usable(A):
        if isinstance(A, dict) and "error" in A:
            if report:
                ctx.count("location", "rejected project")
            for c in LOC_CONFIGS[1:]:
                if _usable(R.get(c)):
                    viol("project is rejected in-tree (%s) but accepted in location configuration %s" % (A["error"], c),
                         "accepted-depends-on-project-location")
        return out
    import hashlib
    pf = hashlib.sha1(json.dumps(rec["project"], sort_keys=True).encode()).hexdigest()[:12]
    ida = _ids(A)
    nrr = sum(1 for s in A["steps"] if s.get("co") and s["valid"])
    for c in LOC_CONFIGS[1:]:
        r = R.get(c)
        if isinstance(r, dict) and "error" in r:
            viol("project is accepted in-tree but rejected in location configuration %s: %s" % (c, r["error"]),
                 "accepted-depends-on-project-location")
            continue
        if not _usable(r):
            continue
        idc = _ids(r)
        if report:
            ctx.count("location", c + ":compared")
            for k in idc:
                ctx.case((pf, k, c), nontrivial=nrr > 0)
        if idc != ida:
            bad = sorted(k for k in set(ida) | set(idc) if ida.get(k) != idc.get(k))
            what = "Variant-Id" if any(ida.get(k, ("",))[0] != idc.get(k, ("",))[0] for k in bad) else "Build-Id"
            names = {"LB": "in-tree at another absolute path", "OA": "from an out-of-tree build directory (bob init)",
                     "OB": "from an out-of-tree build directory of a copy at another absolute path"}
            k0 = bad[0]
            viol("%s of %s (%d steps) differs between the project evaluated in-tree and %s: %s / %s"
                 % (what, bad[:3], len(bad), names[c], ida.get(k0, (None,))[0], idc.get(k0, (None,))[0]),
                 "ids-depend-on-project-location")
            break
    return out


def location(ctx):
    """directed case first (mandatory), then post-processed generated projects (mandatory batch, fixed time-out)"""
    from gen import projects as G
    projects = [("directed", _directed_location_project())]
    for i in range(ctx.scale(7, 40)):
        rng = ctx.subrng("locproj", i)
        projects.append(("gen%d" % i, _add_location_sensitive(G.gen_project(rng, rng.randrange(3, 9)), rng)))
    recs = _evaluate_locations(ctx, projects, "loc", 240)
    for rec in recs:
        check_location(ctx, rec)
    ctx.notes["location_projects"] = len(recs)


# ---------------------------------------------------------------------- golden ids

GOLDEN = ["checkouts", "env", "include", "sandbox", "tools"]


def golden(ctx, report=True):
    src = os.path.join(ctx.repo, "test", "black-box", "stable-variant-ids")
    if not os.path.isdir(src):
        ctx.skip("golden ids: reference project not found")
        return None
    dst = os.path.join(ctx.tmp, "golden")
    shutil.rmtree(dst, ignore_errors=True)
    shutil.copytree(src, dst)
    env = dict(os.environ, PYTHONPATH=os.path.join(ctx.repo, "pym"), PYTHONDONTWRITEBYTECODE="1")
    bad = []
    import multiprocessing.pool

    def run(name):
        # every root in its own copy: `bob project` writes caches into the project directory
        d = os.path.join(ctx.tmp, "golden-" + name)
        shutil.rmtree(d, ignore_errors=True)
        shutil.copytree(src, d)
        outp = os.path.join(dst, "out-%s.txt" % name)
        try:
            return subprocess.run([sys.executable, os.path.join(ctx.repo, "bob"), "project", "-n", "--sandbox", "dumper", "root-" + name, outp],
                                  cwd=d, env=env, stdout=subprocess.PIPE, stderr=subprocess.PIPE, timeout=max(20, min(90, ctx.time_left() - 30)))
        except subprocess.TimeoutExpired:
            return None
    with multiprocessing.pool.ThreadPool(len(GOLDEN)) as tp:
        procs = tp.map(run, GOLDEN)
    for name, p in zip(GOLDEN, procs):
        outp = os.path.join(dst, "out-%s.txt" % name)
        if p is None:
            ctx.skip("golden ids: bob project timed out for root-" + name)
            continue
        if p.returncode != 0 or not os.path.exists(outp):
            bad.append((name, "bob project failed: " + p.stderr.decode("utf-8", "replace")[-300:]))
            continue
        got = [l.rstrip() for l in open(outp, encoding="utf-8").read().splitlines()]
        want = [l.rstrip() for l in open(os.path.join(src, "specs", name + ".txt"), encoding="utf-8").read().splitlines()]
        n = sum(1 for l in want if l and not l.startswith(" "))
        if report:
            ctx.count("golden", name + (":equal" if got == want else ":different"), 1)
            for l in want:
                if l and not l.startswith(" "):
                    ctx.case(("golden", name, l))
        if got != want:
            diff = next((i for i, (x, y) in enumerate(zip(got, want)) if x != y), min(len(got), len(want)))
            bad.append((name, "line %d: got %r, recorded %r" % (diff + 1, got[diff] if diff < len(got) else None,
                                                                want[diff] if diff < len(want) else None)))
    for name, why in bad:
        if report:
            ctx.violation("recorded ids of root-%s (test/black-box/stable-variant-ids/specs/%s.txt) are not reproduced: %s" % (name, name, why),
                          {"kind": "golden", "root": name}, "golden-ids-changed")
    return bad


def oracle(ctx):
    golden(ctx)
    location(ctx)
    ctx.notes["golden"] = "test on 5 recorded reference dumps (labelled: a test, not a proof)"
    n = ctx.scale(48, 480)
    nedits = ctx.scale(3, 5)
    t0 = ctx.time_left()
    recs = []
    batch = 12
    done = 0
    mandatory = 24      # projects that are always evaluated completely, whatever the machine load is
    while done < n and (done < mandatory or ctx.time_left() > t0 * 0.5):
        plan = _plan_range(ctx, done, min(n, done + batch), nedits)
        part = _evaluate_projects(ctx, plan, "p%d" % done, t0 * 0.3 if done >= mandatory else -1)
        for rec in part:
            check_project(ctx, rec)
        if len(recs) < 100:      # kept for the correspondence
            recs.extend(part)
        done += len(plan)
    ctx.notes["projects"] = done
    _CACHE["recs"] = recs


def _plan_range(ctx, lo, hi, nedits):
    from gen import projects as G
    out = []
    for i in range(lo, hi):
        rng = ctx.subrng("proj", i)
        P = G.gen_project(rng, rng.randrange(3, 12))
        edits = []
        tries = 0
        while len(edits) < nedits and tries < 40:
            tries += 1
            Q = P.copy()
            e = rng.choice(G.IRRELEVANT_EDITS)(Q, rng)
            if e is not None and e.relevant is False:
                edits.append((e.as_dict(), Q))
        out.append((P, edits))
    return out


# ---------------------------------------------------------------------- correspondence

def _golden_descs(ctx):
    """export every step of the golden project in-process (plugins are loaded from the project directory)"""
    from gen import evalproj
    src = os.path.join(ctx.repo, "test", "black-box", "stable-variant-ids")
    dst = os.path.join(ctx.tmp, "golden-corr")
    shutil.rmtree(dst, ignore_errors=True)
    shutil.copytree(src, dst)
    return evalproj.evaluate(dst, True, None, 5000, bids=True)


def correspond(ctx):
    from gen import stepdesc as S
    recs = _CACHE.get("recs")
    if recs is None:
        recs = _evaluate_projects(ctx, _plan_range(ctx, 0, 3, 1), "corr", 10)
    reqs, want, cases = [], [], []
    seen = set()

    def add(res, origin):
        for s in res["steps"]:
            d = s["desc"]
            k = json.dumps(d, sort_keys=True)
            if k not in seen:
                seen.add(k)
                reqs.append(S.lean_vid_request(d))
                want.append(d["vid"])
                cases.append({"kind": "vid", "origin": origin, "key": s["key"], "desc": d})
            for b in s.get("bid", []):
                k2 = json.dumps(b["req"], sort_keys=True)
                if k2 not in seen:
                    seen.add(k2)
                    reqs.append(b["req"])
                    want.append(b["id"])
                    cases.append({"kind": "bid", "origin": origin, "key": s["key"], "req": b["req"]})
    for rec in recs:
        for c in ("A", "D"):
            r = rec["results"].get(c)
            if _usable(r):
                add(r, c)
    g = _golden_descs(ctx)
    if _usable(g):
        add(g, "golden")
        ctx.count("corr", "golden-steps", len(g["steps"]))
    else:
        ctx.skip("golden project could not be loaded in-process: %s" % (g,))
    if not reqs:
        return
    for c, w, got in zip(cases, want, ctx.lean(DRIVER, reqs)):
        ctx.case(("corr", c["kind"], json.dumps(c.get("desc") or c.get("req"), sort_keys=True)))
        ctx.count("corr", c["kind"] + ":" + ("host" if len(w) > 40 else "plain"))
        if got.get("ok") != w:
            ctx.disagree("Step.getVariantId / StepIR.getDigestCoro == Digest.variantId / buildId with SHA-1", c, w, got.get("ok"))
    ctx.trace_validated(len(reqs))


# ---------------------------------------------------------------------- replay

def replay(ctx, case):
    from gen import projects as G
    k = case.get("kind")
    if k == "golden":
        golden(ctx)
        return
    if k == "location":
        rec = _evaluate_locations(ctx, [(case.get("origin"), G.Project.from_json(case["project"]))], "replayloc", 240)[0]
        for what, c, sig in check_location(ctx, rec, report=False):
            ctx.violation(what, c, sig)
        return
    P = G.Project.from_json(case["project"])
    edits = []
    if k == "edit":
        edits = [(case["edit"], G.Project.from_json(case["edited"]))]
    if k == "deporder":
        _REPLAY_PERM["q"] = (G.Project.from_json(case["permuted_project"]), set(case["permuted"]))
    try:
        rec = _evaluate_projects(ctx, [(P, edits)], "replay", -1)[0]
    finally:
        _REPLAY_PERM.clear()
    for what, c, sig in check_project(ctx, rec, report=False):
        ctx.violation(what, c, sig)


MANIFEST = {
    "text": "Proved in Lean (Props/C03.lean) about the shared digest model: permuting the tool map and the environment of a step "
            "(any dict/set iteration order) leaves the Variant-Id and Build-Id encodings unchanged; the recipe half of a Variant-Id "
            "never depends on the sandbox and the whole id only for steps fingerprinted inside an enabled sandbox; with relaxTools "
            "the Build-Id ignores provider, path and libraries of weakly used tools; in a step DAG the ids are uniquely determined by "
            "the nodes (recipe content). The model has no path/time/order parameter; that the implementation has none either is "
            "measured on every run: each generated project is evaluated in separate interpreters under different absolute paths, "
            "file creation orders, PYTHONHASHSEEDs, timestamps, with sandbox on/off and after id-irrelevant edits, all ids must agree "
            "and equal the Lean recomputation (SHA-1 in Lean, bit exact). The recorded ids of test/black-box/stable-variant-ids are "
            "reproduced (a test, labelled as such).",
    "note": "trusted: Lean kernel, harness/props/c03.py + harness/gen/*.py, tools/consts/c03.py, CPython; Build-Ids use harness "
            "supplied source hashes/fingerprints; resultId-based package merging not modelled",
    "technique": "Lean 4 proof over hand-written model + differential correspondence (bit-exact ids) + multi-configuration purity oracle",
}
