"""C02 - Variant-Id separates exactly what a step executes and consumes.

oracle (implementation only, no Lean): generated projects (gen/projects.py) and their single-edit neighbours are
  written to disk, parsed with the real RecipeSet and every reachable step is read twice:
  digest side  = Step.getVariantId(),
  execution side = what the step runs and consumes (getScript, getEnv restricted to the variables the recipe text
  declares strong, getTools, getArguments, SCM / assertion properties).
  Over all steps of a project family:  same kind and same Variant-Id  <=>  same execution side.
  Plus: declared variables accumulate checkout <= build <= package and declared (also weak) variables reach the
  execution environment; id-irrelevant edits keep every id; edit + revert in place restores every id.
correspond: every exported step description -> Lean recomputes the Variant-Id bit exactly (CoreStep.getDigest and
  StepIR.getDigestCoro), synthetic descriptions through StepIR.fromData (weird strings, 0..40 byte digests),
  mergeScripts / joinScripts on random fragments, checkout digest script composition, weak/strong split.
"""
import json
import os
import random
import shutil

DRIVER = "drv_c02"
RULE = ("projects: random recipe trees (3..12 recipe files, classes with inheritance, multiPackage, environment / "
        "privateEnvironment / provideVars / provideTools / provideDeps / provideSandbox, {checkout,build,package}{Vars,VarsWeak,"
        "Tools,ToolsWeak}, Setup/Script/Finalize fragments with $<<file>> includes, git/url/import SCMs, asserts, fingerprints) "
        "plus single-edit neighbours (script text/placement, include content, variable value/list, tool path/libs/env, "
        "dependency list/use/env, SCM attributes, asserts, class order, sandbox, fingerprint, comments, key order, flags). "
        "One evaluated case = one step of one written project; distinct by (kind, Variant-Id, execution side); non-trivial "
        "if the step is valid. Synthetic cases = one StepDesc / fragment list each, distinct by content.")
ASSUMPTIONS = [
    "SHA-1 is a parameter H of the model; 'equal ids => equal inputs' theorems assume collision freedom of H on the two encodings compared",
    "strings contain no lone surrogates (Python would raise in .encode) and are shorter than 2^32 code points (struct.error otherwise)",
    "the executed script is compared modulo the recipe/class names in `_BOB_SOURCES[$LINENO]=` marker lines and in the temporary "
    "file variables of $<<file>> includes (they are not meant to be part of the id)",
    "svn/cvs SCM descriptions, plugin properties/states and PowerShell fragments are not generated",
    "tool names are not part of the Variant-Id (only the order they induce); the property lists (variant, path, libs) only",
]

F1 = "F-C02-1-host-part-undelimited"
F2 = "F-C02-2-digest-script-groups-undelimited"
F3 = "F-C02-3-tool-host-part-not-in-vid"

_CACHE = {}


# ---------------------------------------------------------------------- workers (module level: fork pool)

def _eval_member(item):
    from gen import evalproj
    from gen import projects as G
    root, pj, sandbox, oseed, cap = item
    proj = G.Project.from_json(pj)
    os.makedirs(root, exist_ok=True)
    proj.write(root, random.Random(oseed))
    try:
        res = evalproj.evaluate(root, sandbox, proj, cap)
        if "steps" in res:
            # reference that is independent of the reuse of already calculated packages: the same project with every
            # package computed from its own inputs
            alone = evalproj.evaluate(root, sandbox, None, cap, memo=False)
            if "steps" in alone:
                res["alone"] = {s["key"]: s["vid"] for s in alone["steps"] if s["valid"]}
        return res
    finally:
        shutil.rmtree(root, ignore_errors=True)


def _eval_revert(item):
    """write P, evaluate, write P' in place, evaluate, write P in place again, evaluate: key -> vid each time"""
    from gen import evalproj
    from gen import projects as G
    root, pj, qj, sandbox, cap = item
    P, Q = G.Project.from_json(pj), G.Project.from_json(qj)
    os.makedirs(root, exist_ok=True)
    out = []
    for k, proj in enumerate((P, Q, P)):
        proj.write(root, None, atomic=k > 0)
        r = evalproj.evaluate(root, sandbox, None, cap)
        out.append(None if "error" in r else {s["key"]: s["vid"] for s in r["steps"]})
    shutil.rmtree(root, ignore_errors=True)
    return out


# ---------------------------------------------------------------------- checks on evaluated members

def _semkey(rec):
    return json.dumps(rec["sem"], sort_keys=True)


def _host_regroup(a, b):
    """two lists of hex ids that agree in every recipe half and in the concatenation of the host halves but not
    position by position: exactly the ambiguity of the undelimited host part"""
    return len(a) == len(b) and a != b and [x[:40] for x in a] == [x[:40] for x in b] \
        and "".join(x[40:] for x in a) == "".join(x[40:] for x in b)


def classify_collision(a, b):
    """signatures of the reasons why two steps with the same Variant-Id have different execution sides"""
    sa, sb = a["sem"], b["sem"]
    sigs = []
    for k in sorted(set(sa) | set(sb)):
        if sa.get(k) == sb.get(k):
            continue
        if k == "args" and _host_regroup(sa["args"], sb["args"]):
            sigs.append(F1)
        elif k == "tools" and len(sa[k]) == len(sb[k]) and all(x[0][:40] == y[0][:40] and x[1:] == y[1:] for x, y in zip(sa[k], sb[k])):
            sigs.append(F3)
        elif k == "script" and a.get("frag_digest_order") is not None and a.get("frag_digest_order") == b.get("frag_digest_order") \
                and a.get("frag_exec_order") != b.get("frag_exec_order"):
            sigs.append(F2)
        else:
            sigs.append("vid-collision-" + k)
    return sigs or ["vid-collision"]


def classify_impure(a, b):
    """signature of the reason why two steps with the same execution side have different Variant-Ids"""
    da, db = a["desc"], b["desc"]
    diff = [k for k in da if k != "vid" and da[k] != db[k]]
    if diff == ["script"] and a.get("frag_exec_order") is not None and a.get("frag_exec_order") == b.get("frag_exec_order") \
            and a.get("frag_digest_order") != b.get("frag_digest_order"):
        # same executed fragment sequence, but the digest script lists the Finalize digests in class order while
        # they run in reverse class order: the converse face of F-C02-2
        return F2
    return "vid-not-a-function-of-what-is-executed"


def _member_case(members, idx):
    pj, sandbox = members[idx]["project"], members[idx]["sandbox"]
    return {"project": pj, "sandbox": sandbox, "edit": members[idx].get("edit")}


def check_family(ctx, members, report=True):
    """members: [{'project': json, 'sandbox': b, 'edit': dict|None, 'result': evaluate(...)}]; member 0 is the base.
    Returns the list of (what, case, signature) violations (also sent to ctx when `report`)."""
    out = []

    def viol(what, case, sig):
        out.append((what, case, sig))
        if report:
            ctx.violation(what, case, sig)

    by_vid, by_sem = {}, {}
    for mi, m in enumerate(members):
        res = m["result"]
        if res is None or "error" in res:
            continue
        pkgenv = {}
        for rec in res["steps"]:
            if "sem" not in rec:
                continue
            kind, vid, sk = rec["label"] + (":valid" if rec["valid"] else ":invalid"), rec["vid"], _semkey(rec)
            if report and rec["desc"].get("view_mismatch"):
                ctx.count("core_vs_package_view", "+".join(rec["desc"]["view_mismatch"]))
            if report:
                ctx.case((kind, vid, sk), nontrivial=rec["valid"],
                         sample={"step": rec["key"], "vid": vid, "edit": m.get("edit")} if mi == 1 else None)
                ctx.count("step_kind", kind)
            if not rec["valid"]:
                # an invalid step (no main script) executes nothing and its id is never consumed (invalid arguments are
                # not hashed, it has no workspace); it still hashes its Setup fragments, so it is left out of the iff
                continue
            # (1) same kind, same id => same execution side
            first = by_vid.setdefault((kind, vid), (sk, mi, rec))
            if first[0] != sk:
                for sig in classify_collision(first[2], rec):
                    viol("steps %s (member %d) and %s (member %d) have the same Variant-Id %s but differ in what they execute/consume (%s)"
                         % (first[2]["key"], first[1], rec["key"], mi, vid, sig),
                         {"kind": "pair", "expect": "collision", "a": dict(_member_case(members, first[1]), key=first[2]["key"]),
                          "b": dict(_member_case(members, mi), key=rec["key"])}, sig)
            # (2) same kind, same execution side => same id
            first = by_sem.setdefault((kind, sk), (vid, mi, rec))
            if first[0] != vid:
                viol("steps %s (member %d) and %s (member %d) execute and consume the same but have Variant-Ids %s / %s"
                     % (first[2]["key"], first[1], rec["key"], mi, first[0], vid),
                     {"kind": "pair", "expect": "pure", "a": dict(_member_case(members, first[1]), key=first[2]["key"]),
                      "b": dict(_member_case(members, mi), key=rec["key"])}, classify_impure(first[2], rec))
            pkgenv.setdefault(rec["key"].rsplit(":", 1)[0], {})[rec["label"]] = rec
        # (5) the id of a step does not depend on whether its package was reused from an earlier visit of the recipe
        alone = res.get("alone") or {}
        for rec in res["steps"]:
            if rec["valid"] and rec["key"] in alone and alone[rec["key"]] != rec["vid"]:
                viol("step %s has Variant-Id %s, but %s when its package is computed from its own inputs (no reuse of an "
                     "earlier visit of the recipe): declared variables / inputs of this visit are not what the id says"
                     % (rec["key"], rec["vid"], alone[rec["key"]]),
                     {"kind": "member", "expect": "alone", "m": _member_case(members, mi), "key": rec["key"]},
                     "variant-id-depends-on-package-reuse")
                break
        # (3) declarations accumulate checkout <= build <= package; declared variables reach the execution environment
        for pk, st in pkgenv.items():
            chain = [st[k] for k in ("src", "build", "dist") if k in st and st[k]["valid"]]
            for lo, hi in zip(chain, chain[1:]):
                missing = [k for k in lo["env_keys"] if k not in hi["env_keys"]]
                if missing:
                    viol("variables %s are in the environment of %s but not of %s" % (missing, lo["key"], hi["key"]),
                         {"kind": "member", "expect": "accumulate", "m": _member_case(members, mi), "key": hi["key"]},
                         "env-does-not-accumulate")
            if "dist" in st:
                full = st["dist"]["env"]
                for r in chain:
                    lost = [k for k in r["declared"] if k in full and r["env"].get(k) != full[k]]
                    if lost:
                        viol("declared variables %s are missing from the execution environment of %s" % (lost, r["key"]),
                             {"kind": "member", "expect": "declared-in-env", "m": _member_case(members, mi), "key": r["key"]},
                             "declared-variable-not-in-env")
    # (4) id-irrelevant edits keep every id
    base = members[0]["result"]
    if base and "steps" in base:
        bv = {s["key"]: s["vid"] for s in base["steps"]}
        for mi, m in enumerate(members[1:], 1):
            e, res = m.get("edit"), m["result"]
            if not e or e.get("relevant") is not False or not res or "steps" not in res:
                continue
            for s in res["steps"]:
                if s["key"] in bv and bv[s["key"]] != s["vid"]:
                    viol("edit %s (%s) must not change ids but changed %s" % (e["kind"], e["target"], s["key"]),
                         {"kind": "edit", "expect": "irrelevant", "base": _member_case(members, 0), "m": _member_case(members, mi),
                          "key": s["key"]}, "id-irrelevant-edit-changes-id-" + e["kind"])
                    break
    return out


class _Policies:
    """stand-in for the RecipeSet argument of bob.scm.getScm: all policies at their new behaviour"""

    def getPolicy(self, name, location=None):
        return True

    def getProjectRoot(self):
        return ""

    def getPreMirrors(self):
        return []

    def getFallbackMirrors(self):
        return []


def gen_scm_spec(r):
    from gen import projects as G
    k = r.random()
    if k < 0.7:
        s = G._gen_scm(r, r.randrange(3))
    elif k < 0.85:
        s = {"scm": "svn", "url": r.choice(["svn://svn.test/a", "svn://svn.test/b"]), "dir": "s%d" % r.randrange(3)}
        if r.random() < 0.5:
            s["revision"] = r.choice([7, 123, "HEAD"])
    else:
        s = {"scm": "cvs", "cvsroot": r.choice([":ext:cvs.test:/r", "/local/cvs"]), "module": r.choice(["m", "n"]),
             "dir": "s%d" % r.randrange(3)}
        if r.random() < 0.5:
            s["rev"] = r.choice(["v1", "HEAD"])
    s.pop("if", None)
    return s


def edit_scm_spec(r, s):
    s = dict(s)
    k = r.choice(sorted(x for x in s if x != "scm"))
    v = s[k]
    if isinstance(v, bool):
        s[k] = not v
    elif isinstance(v, int):
        s[k] = v + 1
    elif isinstance(v, list):
        s[k] = v + ["mx"]
    elif k.startswith("digest") or k == "commit":
        s[k] = ("%x" % ((int(v[0], 16) + 1) % 16)) + v[1:]
    else:
        s[k] = str(v) + "e"
    return s, k


def scm_views(spec):
    from bob.scm import getScm
    scm = getScm(dict(spec, __source="Recipe x", recipe="recipes/x.yaml"), [], _Policies())
    from gen.stepdesc import scm_sem
    return scm.asDigestScript(), scm_sem(scm.getProperties(False))


def check_scm_pair(ctx, a, b, key, report=True):
    from bob.errors import ParseError
    try:
        (da, sa), (db, sb) = scm_views(a), scm_views(b)
    except ParseError:
        return False
    if (da == db) != (sa == sb):
        if report:
            ctx.violation("SCM descriptions %r / %r: digest lines %r / %r but documented meaning %r / %r" % (a, b, da, db, sa, sb),
                          {"kind": "scm-pair", "a": a, "b": b}, "scm-digest-line-" + ("collision" if da == db else "not-pure")
                          + "-" + a["scm"] + "-" + key)
        return True
    return False


def assert_views(spec):
    from bob.input import CheckoutAssert
    a = CheckoutAssert(dict(spec, __source="x"))
    p = a.getProperties()
    return a.asDigestScript(), (p["file"], p["digestSHA1"], p["start"], p["end"])


def oracle_scm(ctx):
    """the symbolic description of SCMs and assertions, pair by pair, through the public SCM classes"""
    r = ctx.subrng("scm")
    for i in range(ctx.scale(3000, 60000)):
        a = gen_scm_spec(r)
        b, k = edit_scm_spec(r, a) if r.random() < 0.8 else (gen_scm_spec(r), "other")
        ctx.case(("scm", json.dumps([a, b], sort_keys=True)))
        ctx.count("scm_pairs", a["scm"])
        check_scm_pair(ctx, a, b, k)
    for i in range(ctx.scale(400, 5000)):
        a = {"file": r.choice(["a.txt", "b c.txt"]), "digestSHA1": r.choice(["da39", "a999"])}
        if r.random() < 0.5:
            a["start"] = r.randrange(1, 4)
        if r.random() < 0.5:
            a["end"] = r.randrange(4, 9)
        b = dict(a)
        k = r.choice(["file", "digestSHA1", "start", "end"])
        b[k] = (b.get(k, 1 if k == "start" else 20) + 1) if k in ("start", "end") else b[k] + "0"
        ctx.case(("assert", json.dumps([a, b], sort_keys=True)))
        (da, sa), (db, sb) = assert_views(a), assert_views(b)
        if (da == db) != (sa == sb):
            ctx.violation("checkoutAssert %r / %r: digest lines %r / %r" % (a, b, da, db), {"kind": "assert-pair", "a": a, "b": b},
                          "assert-digest-line-" + k)


def _family(ctx, i, nedits, size_lo=3, size_hi=12):
    from gen import projects as G
    rng = ctx.subrng("family", i)
    P = G.gen_project(rng, rng.randrange(size_lo, size_hi))
    members = [{"project": P.to_json(), "edit": None}]
    it = P.edits(rng)
    for _ in range(nedits):
        e, Q = next(it)
        members.append({"project": Q.to_json(), "edit": e.as_dict()})
    sandbox = rng.random() < 0.6
    for m in members:
        m["sandbox"] = sandbox
    return members


def _witness_families():
    from gen import projects as G
    fams = []
    for mk in (G.witness_host_collision, G.witness_finalize_order, G.witness_tool_host):
        fams.append([{"project": mk().to_json(), "edit": None, "sandbox": True}])
    return fams


def _evaluate_families(ctx, fams, tag, cap=400):
    """evaluate all members of a few families in this process"""
    _warm()
    for fi, fam in enumerate(fams):
        for mi, m in enumerate(fam):
            root = os.path.join(ctx.tmp, "%s-%d-%d" % (tag, fi, mi))
            m["result"] = _eval_member((root, m["project"], m["sandbox"], "%s/%d/%d" % (ctx.seed, fi, mi), cap))
    return fams


def _stream(ctx, fn, batches, deadline_left):
    """results of fn over successive batches (lists of items) from one fork pool.  A new batch is started only while
    `ctx.time_left()` is above `deadline_left`, a started batch is always completed, and the pool is shut down
    gracefully (close + join with nothing outstanding: `terminate()` on a pool with idle workers was seen to block).
    Yields (batch, results)."""
    import multiprocessing as mp
    _warm()
    pool = None
    try:
        for batch in batches:
            if ctx.time_left() < deadline_left:
                break
            if pool is None:
                pool = mp.get_context("fork").Pool(min(16, os.cpu_count() or 4))
            yield batch, pool.map(fn, batch, chunksize=1)
    finally:
        if pool is not None:
            pool.close()
            pool.join()


def _account_family(ctx, fam):
    nerr = sum(1 for m in fam if m["result"] is None or "error" in m["result"])
    ctx.count("members", "parse-error", nerr)
    ctx.count("members", "ok", len(fam) - nerr)
    for m in fam[1:]:
        ctx.count("edit_kind", m["edit"]["kind"])
        if m["result"] and "steps" in m["result"] and fam[0]["result"] and "steps" in fam[0]["result"]:
            b = {s["key"]: s["vid"] for s in fam[0]["result"]["steps"]}
            ch = sum(1 for s in m["result"]["steps"] if b.get(s["key"]) not in (None, s["vid"]))
            ctx.count("edit_effect", "changes-ids" if ch else "keeps-ids")
    check_family(ctx, fam)


def oracle(ctx):
    import time
    nfam = ctx.scale(60, 1500)
    nedits = ctx.scale(12, 40)
    nmin = 6          # families that are always evaluated (in this process), whatever the machine load is
    all_fams = []
    t_oracle = ctx.time_left()
    t0 = time.time()
    oracle_scm(ctx)
    # the reproductions of the known collisions are always part of the stream
    wf = _evaluate_families(ctx, _witness_families(), "wit")
    for fam in wf:
        check_family(ctx, fam)
    all_fams.extend(wf)
    done = 0
    for fi in range(min(nmin, nfam)):
        fam = _evaluate_families(ctx, [_family(ctx, fi, nedits)], "min%d" % fi)[0]
        _account_family(ctx, fam)
        all_fams.append(fam)
        done += 1
    ctx.notes["t_minimal_s"] = round(time.time() - t0, 1)
    groups = []

    def batches():
        fi = nmin
        while fi < nfam:
            group = [_family(ctx, k, nedits) for k in range(fi, min(nfam, fi + 2))]
            groups.append(group)
            yield [(os.path.join(ctx.tmp, "fam-%d-%d-%d" % (fi, gi, mi)), m["project"], m["sandbox"], "%s/%d/%d/%d" % (ctx.seed, fi, gi, mi), 400)
                   for gi, fam in enumerate(group) for mi, m in enumerate(fam)]
            fi += len(group)

    # on an overloaded machine (the always-evaluated part was slow) a pool round would overrun the budget
    gate = t_oracle * 0.6 if ctx.notes["t_minimal_s"] < 45 else float("inf")
    for _, results in _stream(ctx, _eval_member, batches(), gate):
        it = iter(results)
        for fam in groups[-1]:
            for m in fam:
                m["result"] = next(it)
            _account_family(ctx, fam)
            if len(all_fams) < 200:      # kept for the revert check and the correspondence; the others are done with
                all_fams.append(fam)
            done += 1
    ctx.notes["families"] = done
    ctx.notes["t_families_s"] = round(time.time() - t0, 1)
    if done < nfam:
        ctx.notes["families_cut_by_time"] = nfam - done
    # edit + revert in place restores the ids
    items2, meta = [], []
    r = ctx.subrng("revert")
    for fi, fam in enumerate(all_fams[len(wf):][:ctx.scale(24, 300)]):
        if len(fam) < 2:
            continue
        mi = r.randrange(1, len(fam))
        items2.append((os.path.join(ctx.tmp, "rev-%d" % fi), fam[0]["project"], fam[mi]["project"], fam[0]["sandbox"], 400))
        meta.append((fam, mi))
    # the first two in this process (always), the others from a pool while time permits
    for it, (fam, mi) in list(zip(items2, meta))[:2]:
        check_revert(ctx, fam, mi, _eval_revert(it))
    rest = list(zip(items2, meta))[2:]
    chunks = [rest[i:i + 8] for i in range(0, len(rest), 8)]
    ci = 0
    for _, results in _stream(ctx, _eval_revert, ([it for it, _ in c] for c in chunks), t_oracle * 0.42):
        for (_, (fam, mi)), res in zip(chunks[ci], results):
            check_revert(ctx, fam, mi, res)
        ci += 1
    ctx.notes["t_oracle_s"] = round(time.time() - t0, 1)
    _CACHE["fams"] = all_fams


def check_revert(ctx, fam, mi, res, report=True):
    ids0, ids1, ids2 = res
    ctx.case(("revert", fam[mi]["edit"]["kind"], json.dumps(ids0, sort_keys=True)[:2000]), nontrivial=ids0 != ids1)
    if ids0 is None or ids2 is None:
        return False
    if ids0 != ids2:
        bad = sorted(k for k in set(ids0) | set(ids2) if ids0.get(k) != ids2.get(k))[:3]
        if report:
            ctx.violation("edit %s and its revert (in place) do not restore the ids of %s" % (fam[mi]["edit"]["kind"], bad),
                          {"kind": "revert", "base": {"project": fam[0]["project"], "sandbox": fam[0]["sandbox"]},
                           "m": {"project": fam[mi]["project"], "sandbox": fam[mi]["sandbox"], "edit": fam[mi]["edit"]}},
                          "revert-does-not-restore-ids")
        return True
    return False


# ---------------------------------------------------------------------- correspondence

def _warm():
    """import Bob in the parent so that forked workers do not pay for it"""
    import bob.input  # noqa
    import bob.cmds.build.build  # noqa
    import bob.intermediate  # noqa
    import gen.projects, gen.stepdesc, gen.evalproj  # noqa


_SYNTH = []


def _synth_classes():
    if _SYNTH:
        return _SYNTH[0]
    _SYNTH.append(_synth_classes0())
    return _SYNTH[0]


def _synth_classes0():
    from bob.intermediate import StepIR

    class StubStep:
        def __init__(self, digest, valid=True):
            self.digest, self.valid = digest, valid

        def isValid(self):
            return self.valid

    class StubTool:
        def __init__(self, step, path, libs):
            self.step, self.path, self.libs = step, path, libs

        def getStep(self):
            return self.step

        def getPath(self):
            return self.path

        def getLibs(self):
            return self.libs

    class StubSandbox:
        def __init__(self, step):
            self.step = step

        def getStep(self):
            return self.step

    class SynthStep(StepIR):
        JENKINS = False

        def mungeStep(self, s):
            return s

        def mungePackage(self, p):
            return p

        def mungeRecipe(self, r):
            return r

        def mungeSandbox(self, s):
            return s

        def mungeTool(self, t):
            return t

        def mungeRecipeSet(self, r):
            return r
    return SynthStep, StubStep, StubTool, StubSandbox


ALPHA = ["a", "b", "Z", "0", " ", "\n", "ä", "€", "\U0001F600", "\x00", "\x7f", "߿", "ࠀ", "￿", "\U00010000", "/", "="]


def _rstr(r, maxlen=6):
    n = r.choice([0, 0, 1, 1, 2, 3, maxlen, 40]) if r.random() < 0.97 else 300
    return "".join(r.choice(ALPHA) for _ in range(n))


def _rdigest(r):
    n = r.choice([20, 20, 20, 40, 40, 0, 7, 19, 21, 39, 41]) if r.random() < 0.15 else r.choice([20, 40])
    return bytes(r.randrange(256) for _ in range(n))


def gen_synth(r):
    names = r.sample(["a", "b", "ab", "a b", "", "ä", "B", "zz", "\U0001F600"], r.randrange(0, 4))
    tools = [{"name": n, "prov": _rdigest(r).hex(), "path": _rstr(r), "libs": [_rstr(r) for _ in range(r.randrange(0, 3))],
              "weak": r.random() < 0.4} for n in names]
    keys = r.sample(["K", "KK", "k", "", "Ä", "A_B", "\U00010000", "z"], r.randrange(0, 4))
    return {"script": r.choice([None, "", _rstr(r, 12), "x\ny"]),
            "tools": tools, "env": [[k, _rstr(r)] for k in keys],
            "args": [{"vid": _rdigest(r).hex(), "valid": r.random() < 0.8} for _ in range(r.randrange(0, 4))],
            "fingerprinted": r.random() < 0.5, "sandbox": _rdigest(r).hex() if r.random() < 0.5 else None}


def impl_synth(d, mode, platform, fingerprint):
    """run StepIR.getDigestCoro on a synthetic description"""
    SynthStep, StubStep, StubTool, StubSandbox = _synth_classes()
    data = {"isFingerprinted": d["fingerprinted"],
            "sandbox": StubSandbox(StubStep(bytes.fromhex(d["sandbox"]))) if d["sandbox"] is not None else None,
            "digestScript": d["script"],
            "tools": {t["name"]: StubTool(StubStep(bytes.fromhex(t["prov"])), t["path"], t["libs"]) for t in d["tools"]},
            "toolKeysWeak": sorted(t["name"] for t in d["tools"] if t["weak"]),
            "arguments": [StubStep(bytes.fromhex(a["vid"]), a["valid"]) for a in d["args"]],
            "digestEnv": {k: v for k, v in d["env"]}}
    st = SynthStep.fromData(data)

    async def calc(steps):
        return [s.digest for s in steps]

    from gen.stepdesc import run_coro
    if mode == "vid":
        return run_coro(st.getDigestCoro(calc)).hex()
    return run_coro(st.getDigestCoro(calc, fingerprint=fingerprint, platform=platform, relaxTools=True)).hex()


def synth_request(d, mode, platform, fingerprint):
    from gen import stepdesc as S
    if mode == "vid":
        return S.lean_vid_request(d)
    r = S.lean_vid_request(d, op="bid", platform=platform.hex())
    if fingerprint is not None:
        r["host"] = fingerprint.hex()
    return r


def gen_frags(r):
    texts = [None, None, "", "a", "b\n", "echo x", "ä"]
    digs = [None, None, "", "d1", "d2", "da39a3ee5e6b4b0d3255bfef95601890afd80709", "x\ny"]
    n = r.randrange(0, 5)
    consistent = r.random() < 0.7
    out = []
    for _ in range(n):
        fr = []
        for _ in range(3):
            t = r.choice(texts)
            d = (None if t is None else r.choice(digs[3:])) if consistent else r.choice(digs)
            fr.append([t, d])
        out.append(fr)
    return out


def impl_merge(frags, glue):
    from bob.input import mergeScripts
    from bob.utils import joinScripts
    fr = [tuple(tuple(p) for p in f) for f in frags]
    s, m, d = mergeScripts(fr, glue)
    return {"setup": s, "main": m, "digest": d, "script": joinScripts([s or "", m or ""], glue) or ""}


def correspond(ctx):
    import time
    from gen import stepdesc as S
    t0 = time.time()
    fams = _CACHE.get("fams")
    if fams is None:
        fams = _evaluate_families(ctx, _witness_families() + [_family(ctx, i, 4) for i in range(6)], "corr")
    # R1: exported descriptions of real steps
    reqs, want, cases = [], [], []
    seen = set()
    for fam in fams:
        for m in fam:
            res = m.get("result")
            if not res or "steps" not in res:
                continue
            for rec in res["steps"]:
                d = rec["desc"]
                k = json.dumps(d, sort_keys=True)
                if k in seen:
                    continue
                seen.add(k)
                reqs.append(S.lean_vid_request(d))
                want.append(d["vid"])
                cases.append({"kind": "step", "key": rec["key"], "desc": d})
    if reqs:
        for c, w, got in zip(cases, want, ctx.lean(DRIVER, reqs)):
            ctx.case(("corr-step", json.dumps(c["desc"], sort_keys=True)), nontrivial=c["desc"]["valid"])
            ctx.count("corr_step", "fingerprint-host" if len(w) > 40 else "plain")
            if got.get("ok") != w:
                ctx.disagree("Step.getVariantId == Digest.variantId sha1 (exported description)", c, w, got.get("ok"))
        ctx.trace_validated(len(reqs))
    ctx.notes["t_corr_steps_s"] = round(time.time() - t0, 1)
    # R4 / R5: checkout digest script composition, weak/strong split
    reqs, want, cases = [], [], []
    from gen import projects as G
    seenp = set()
    for fam in fams:
        for m in fam:
            res = m.get("result")
            if not res or "steps" not in res:
                continue
            proj = None
            for rec in res["steps"]:
                if "co" in rec:
                    k = json.dumps(rec["co"], sort_keys=True)
                    if k not in seenp:
                        seenp.add(k)
                        reqs.append(dict(rec["co"], op="codigest"))
                        want.append(("codigest", rec["desc"]["script"]))
                        cases.append({"kind": "codigest", "key": rec["key"], "co": rec["co"]})
                if rec["label"] == "dist" and "declared" in rec:
                    proj = proj or G.Project.from_json(m["project"])
                    vd, td = proj.spec_decls(rec["pkg"])
                    pk = rec["key"].rsplit(":", 1)[0]
                    sib = {r2["label"]: r2 for r2 in res["steps"] if r2["key"].rsplit(":", 1)[0] == pk}
                    k = json.dumps([vd, td, rec["env"], sorted(sib)], sort_keys=True)
                    if k in seenp:
                        continue
                    seenp.add(k)
                    reqs.append({"op": "split", "self": vd[-1], "inherit": vd[:-1], "env": [[a, b] for a, b in rec["env"].items()]})
                    want.append(("split", sib))
                    cases.append({"kind": "split", "key": rec["key"], "decls": vd, "env": rec["env"]})
                    reqs.append({"op": "toolsplit", "self": td[-1], "inherit": td[:-1]})
                    want.append(("toolsplit", sib))
                    cases.append({"kind": "toolsplit", "key": rec["key"], "decls": td})
    if reqs:
        lab = {"src": "checkout", "build": "build", "dist": "package"}
        for c, (kind, w), got in zip(cases, want, ctx.lean(DRIVER, reqs)):
            ctx.case(("corr-" + kind, json.dumps(c, sort_keys=True, default=repr)))
            ctx.count("corr_other", kind)
            if kind == "codigest":
                if got.get("ok") != (w or ""):
                    ctx.disagree("CoreCheckoutStep.getDigestScript == Scripts.checkoutDigestScript", c, w, got.get("ok"))
            elif kind == "split":
                for l, r2 in w.items():
                    if not r2["valid"]:
                        continue
                    mod = got[lab[l]]
                    impl_dig = sorted(map(list, r2["desc"]["env"]))
                    impl_env = sorted([a, b] for a, b in r2["env"].items())
                    if sorted(mod["digestEnv"]) != impl_dig or sorted(mod["env"]) != impl_env:
                        ctx.disagree("digestEnv/env of a step == PrepareTail.stepEnv", dict(c, step=r2["key"]),
                                     {"digestEnv": impl_dig, "env": impl_env}, mod)
            else:
                for l, r2 in w.items():
                    if not r2["valid"]:
                        continue
                    mod = got[lab[l]]
                    if mod["dep"] != r2["tooldep"] or mod["weak"] != r2["tooldep_weak"]:
                        ctx.disagree("Step.toolDep/toolDepWeak == PrepareTail.toolDep/toolDepWeak", dict(c, step=r2["key"]),
                                     {"dep": r2["tooldep"], "weak": r2["tooldep_weak"]}, mod)
        ctx.trace_validated(len(reqs))
    ctx.notes["t_corr_split_s"] = round(time.time() - t0, 1)
    # R2: synthetic descriptions through StepIR.getDigestCoro
    r = ctx.subrng("synth")
    reqs, want, cases = [], [], []
    for i in range(ctx.scale(4000, 120000)):
        if ctx.time_left() < 12 and i >= 300:
            break
        d = gen_synth(r)
        mode = r.choice(["vid", "vid", "bid"])
        platform = r.choice([b"", b"w", b"ml"])
        fp = r.choice([None, b"", bytes(20), bytes(range(40))])
        reqs.append(synth_request(d, mode, platform, fp))
        want.append(impl_synth(d, mode, platform, fp))
        cases.append({"kind": "synth", "desc": d, "mode": mode, "platform": platform.hex(), "fingerprint": None if fp is None else fp.hex()})
    for c, w, got in zip(cases, want, ctx.lean(DRIVER, reqs)):
        ctx.case(("synth", json.dumps(c, sort_keys=True)), nontrivial=bool(c["desc"]["tools"] or c["desc"]["env"] or c["desc"]["args"]))
        ctx.count("corr_synth", c["mode"] + (":host" if len(w) > 40 else ""))
        if got.get("ok") != w:
            ctx.disagree("StepIR.getDigestCoro == Digest.variantId/buildId sha1 (synthetic description)", c, w, got.get("ok"))
    ctx.trace_validated(len(reqs))
    ctx.notes["t_corr_synth_s"] = round(time.time() - t0, 1)
    # R3: mergeScripts / joinScripts
    r = ctx.subrng("merge")
    reqs, want, cases = [], [], []
    for i in range(ctx.scale(4000, 100000)):
        if ctx.time_left() < 6 and i >= 300:
            break
        fr = gen_frags(r)
        glue = r.choice(["\ncd \"${BOB_CWD}\"\n", "\n", "", ";"])
        reqs.append({"op": "merge", "frags": fr, "glue": glue})
        want.append(impl_merge(fr, glue))
        cases.append({"kind": "merge", "frags": fr, "glue": glue})
    for c, w, got in zip(cases, want, ctx.lean(DRIVER, reqs)):
        ctx.case(("merge", json.dumps(c, sort_keys=True)), nontrivial=len(c["frags"]) > 1)
        g = {k: got.get(k) for k in ("setup", "main", "digest", "script")}
        if g != w:
            ctx.disagree("mergeScripts/joinScripts == Scripts.mergeScripts", c, w, g)
    ctx.trace_validated(len(reqs))
    ctx.notes["t_corr_total_s"] = round(time.time() - t0, 1)


# ---------------------------------------------------------------------- replay

def _reeval(ctx, m, tag):
    root = os.path.join(ctx.tmp, tag)
    return {"project": m["project"], "sandbox": m["sandbox"], "edit": m.get("edit"),
            "result": _eval_member((root, m["project"], m["sandbox"], "replay", 2000))}


def replay(ctx, case):
    k = case.get("kind")
    if k == "pair":
        fam = [_reeval(ctx, case["a"], "ra"), _reeval(ctx, case["b"], "rb")]
        keys = {case["a"]["key"], case["b"]["key"]}
        for m in fam:
            if "steps" in m["result"]:
                m["result"]["steps"] = [s for s in m["result"]["steps"] if s["key"] in keys]
        for what, c, sig in check_family(ctx, fam, report=False):
            if c.get("kind") == "pair":
                ctx.violation(what, c, sig)
    elif k == "member":
        fam = [_reeval(ctx, case["m"], "rm")]
        for what, c, sig in check_family(ctx, fam, report=False):
            if c.get("kind") == "member":
                ctx.violation(what, c, sig)
    elif k == "edit":
        fam = [_reeval(ctx, case["base"], "rb"), _reeval(ctx, case["m"], "rm")]
        for what, c, sig in check_family(ctx, fam, report=False):
            if c.get("kind") == "edit":
                ctx.violation(what, c, sig)
    elif k == "scm-pair":
        check_scm_pair(ctx, case["a"], case["b"], "replay")
    elif k == "assert-pair":
        (da, sa), (db, sb) = assert_views(case["a"]), assert_views(case["b"])
        if (da == db) != (sa == sb):
            ctx.violation("checkoutAssert digest lines", case, "assert-digest-line")
    elif k == "revert":
        res = _eval_revert((os.path.join(ctx.tmp, "rr"), case["base"]["project"], case["m"]["project"], case["base"]["sandbox"], 2000))
        fam = [dict(case["base"], edit=None), case["m"]]
        check_revert(ctx, fam, 1, res)


MANIFEST = {
    "text": "Proved in Lean (Props/C02.lean) about a transliteration of DigestHasher / CoreStep.getDigest / mergeScripts / the "
            "weak-strong split: the length-prefixed recipe encoding is injective on what a step executes and consumes (code-point "
            "counted UTF-8 strings are self-delimiting), equal ids <=> equal meaning under the framing hypothesis HostFramed, the id is "
            "a function of the meaning only (revert restores), id changes propagate to every dependent step, weak variables never "
            "enter the id but reach the environment, script fragments run Setup*, Script*, reversed Finalize*. The unrestricted "
            "iff is refuted for the model by concrete witnesses (undelimited host part, undelimited Script/Finalize groups of the "
            "digest script) which are replayed on real recipes (known findings F-C02-1..3). The model is tied to the current "
            "source by bit-exact recomputation of every generated step's Variant-Id with a Lean SHA-1 and by regenerated constants.",
    "note": "trusted: Lean kernel, harness/props/c02.py + harness/gen/*.py, tools/consts/c02.py, CPython hashlib/struct; SHA-1 "
            "collision freedom is a hypothesis on the two compared encodings; svn/cvs, plugins, PowerShell not covered",
    "technique": "Lean 4 proof over hand-written model + differential correspondence (bit-exact ids) + implementation-level iff oracle",
}
