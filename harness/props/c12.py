"""C12 - checkouts converge to the recipe and never destroy user work.

oracle:      generated source universes (bare git repositories with branches/tags/moving refs, import
             directories, file:// tarballs and files) and histories interleaving recipe SCM edits, upstream
             operations, user operations in dev/src/... and real `bob dev [--clean-checkout] [--no-attic]`,
             `bob clean -s [--dry-run]`, `bob clean --attic [--dry-run]` child processes.  After every Bob
             invocation every user-created file token and commit id must still be found under the project
             (workspace or attic, commits reachable from a ref or HEAD); `--dry-run` changes nothing; at the
             end an untouched source workspace must equal a fresh checkout of the final recipe in an empty
             project.  Independent of the Lean model.
correspond:  the same histories through the Lean model `drv_c12` (decision per SCM directory, error kind,
             directory state + digests, attic registry, HEAD/branch/remote/tag positions, dirty and untracked
             sets of every clone), every git command Bob issued checked against the `GitContract` clauses,
             plus direct streams: GitScm/UrlScm.canSwitch on spec pairs, the ScmStatus taint table,
             checkoutsFromState/AtticTracker on directory sets, GitScm.switch/invoke/status on real clones.
"""
import hashlib
import itertools
import json
import os
import random
import re
import shutil
import subprocess
import sys
import time

DRIVER = "drv_c12"
RULE = ("histories of 8-14 (thorough 20-30) events over a generated universe (2-3 bare git repositories with 3-6 commits on "
        "master, branches dev/rel, lightweight and annotated tags, optional .gitignore covering nested SCM names; one "
        "mirror; import directories; file:// tarball and plain file): recipe SCM edits (url, branch, tag, commit, dir, "
        "kind, add/remove/nested SCM, url digest), upstream ops (commit, rewrite, new/moved tag, new/deleted branch, "
        "import and file changes), user ops in a checked out clone (dirty file, untracked file, staged file, commit, new "
        "branch + commit, branch switch, detached HEAD, commit on detached HEAD), package use/unuse, and Bob commands "
        "run for real; every fourth history is a short scenario that forces a critical coincidence (user work in a nested clone "
        "whose parent goes to the attic, then clean --attic; user work + unused package + clean -s; the user's own directory "
        "where the recipe then wants a checkout).  A case = one Bob invocation in its history context (distinct by history seed and position); it is "
        "non-trivial when a recipe/upstream/user change preceded it.  Direct streams: spec pairs over all modelled "
        "properties (distinct by pair), all 2^10 taint sets, random directory sets incl. ./, //, names sorting before '.', "
        "and switch/update/status cases on real clones (distinct by (clone state, old spec, new spec)).")
ASSUMPTIONS = [
    "git itself is trusted up to the GitContract clauses, which are validated against git 2.39 on every command Bob issues in the runs",
    "the user creates no tags and does not edit refs/remotes; recipes name upstream commits only (SpecUp)",
    "user work = dirty/untracked/staged files and commits held by a local branch or detached HEAD inside a git SCM directory "
    "registered in the workspace state; files outside SCM directories, the stash and the reflog are not covered",
    "submodules, shallow clones, rebase:true, rev: refs/..., svn/cvs, http(s) and the url SCM's extraction tools are not covered",
    "deterministic checkouts (tag/commit/url with digest) assume immutable upstream: after an upstream tag move convergence is not claimed",
    "upstream branches move forward or are rewritten to a diverging history (Bob then fails loudly); a pure rewind to an ancestor (also "
    "by switching to a lagging mirror url) is not generated: merge --ff-only reports 'up to date' and the workspace silently stays ahead",
    "import SCM: prune empties its directory by design; import/url content is never placed inside a nested SCM directory",
]

HERE = os.path.dirname(os.path.abspath(__file__))
RUNBOB = os.path.join(os.path.dirname(HERE), "gen", "c12_runbob.py")
PY = sys.executable

WS = "dev/src/app/1/workspace"
ATTIC = "dev/src/app/1/attic"
DIRS = [".", "a", "b", "a/sub", "sub", "nest", "b/nest", "+x"]
IGNORED = ["sub", "nest", "+x"]


# ====================================================================== recipes

def spec_yaml(s):
    lines = []
    first = True
    for k in ("scm", "url", "branch", "tag", "commit", "dir", "submodules", "digestSHA1", "digestSHA256", "extract", "prune"):
        if k in s and s[k] is not None:
            v = s[k]
            if isinstance(v, bool):
                v = "true" if v else "false"
            else:
                v = json.dumps(str(v))
            lines.append(("  - " if first else "    ") + "%s: %s" % (k, v))
            first = False
    return "\n".join(lines)


def write_recipes(w, specs, used, policies):
    os.makedirs(os.path.join(w.proj, "recipes"), exist_ok=True)
    with open(os.path.join(w.proj, "config.yaml"), "w") as f:
        f.write("policies:\n" + "".join("  %s: %s\n" % (k, "true" if v else "false") for k, v in sorted(policies.items())))
    with open(os.path.join(w.proj, "recipes", "root.yaml"), "w") as f:
        f.write("root: True\n" + ("depends: [app]\n" if used else "") + 'buildScript: "true"\npackageScript: "true"\n')
    with open(os.path.join(w.proj, "recipes", "app.yaml"), "w") as f:
        if specs:
            f.write("checkoutSCM:\n" + "\n".join(spec_yaml(s) for s in specs) + "\n")
        f.write('buildScript: "true"\npackageScript: "true"\n')


def norm(d):
    return os.path.normpath(d)


def comps(d):
    n = norm(d)
    return [] if n == "." else n.split("/")


def is_prefix(a, b):
    a, b = comps(a), comps(b)
    return len(a) <= len(b) and b[:len(a)] == a


def parse_valid(specs):
    """the nesting validation of CoreCheckoutStep (parent first, no native SCM below a non-native one)"""
    known = []
    for s in specs:
        p = s.get("dir", ".")
        native = s["scm"] == "git"
        for kp, kn in known:
            if is_prefix(p, kp):
                return False
            if is_prefix(kp, p) and native and not kn:
                return False
        known.append((p, native))
    return True


def model_spec(w, s, ubc):
    d = s.get("dir", ".")
    if s["scm"] == "git":
        branch = s.get("branch")
        if branch is None and not s.get("tag") and not s.get("commit"):
            branch = "master"
        return {"scm": "git", "url": s["url"], "branch": branch, "tag": s.get("tag"),
                "commit": w.cnum(s["commit"]) if s.get("commit") else None, "dir": d,
                "submodules": bool(s.get("submodules")), "ubc": bool(ubc)}
    if s["scm"] == "url":
        return {"scm": "url", "url": s["url"], "sha1": s.get("digestSHA1"), "sha256": s.get("digestSHA256"), "dir": d,
                "fileName": s["url"].split("/")[-1], "extract": s.get("extract", "auto"), "strip": 0, "fileMode": None,
                "sep": False}
    return {"scm": "import", "url": s["url"], "dir": d, "prune": bool(s.get("prune", False))}


# ====================================================================== history generation

def gen_git_spec(r, w, d, repo=None):
    repo = repo or r.choice(sorted(w.repos))
    bare = w.repos[repo]
    s = {"scm": "git", "url": "file://" + bare, "dir": d}
    k = r.random()
    rc, out = w.git(bare, "for-each-ref", "--format=%(refname)")
    refs = out.split()
    branches = [x[11:] for x in refs if x.startswith("refs/heads/")]
    tags = [x[10:] for x in refs if x.startswith("refs/tags/")]
    if k < 0.5 or not tags:
        s["branch"] = r.choice(branches + ["master"])
    elif k < 0.7:
        s["tag"] = r.choice(tags)
        if r.random() < 0.4:
            s["branch"] = r.choice(branches)
    else:
        rc, out = w.git(bare, "rev-list", "--all")
        s["commit"] = r.choice(out.split())
        if r.random() < 0.5:
            s["branch"] = r.choice(branches)
    return s


def gen_git_spec_on_branch(r, w, d, repo=None):
    """a commit (or tag) together with a branch that contains it: what `gitCommitOnBranch` expects"""
    repo = repo or r.choice(sorted(w.repos))
    bare = w.repos[repo]
    rc, out = w.git(bare, "for-each-ref", "--format=%(refname)", "refs/heads")
    branches = [x[11:] for x in out.split()]
    b = r.choice(branches)
    rc, out = w.git(bare, "rev-list", "-n", "6", b)
    return {"scm": "git", "url": "file://" + bare, "dir": d, "branch": b, "commit": r.choice(out.split())}


def gen_other_spec(r, w, d):
    k = r.random()
    if k < 0.5:
        url = r.choice(sorted(w.files))
        s = {"scm": "url", "url": url, "dir": d}
        if not url.endswith(".tar"):
            s["extract"] = "no"
        if r.random() < 0.5:
            from gen.c12world import sha1_file
            s["digestSHA1"] = sha1_file(w.files[url])
        return s
    s = {"scm": "import", "url": r.choice(sorted(w.imports)), "dir": d}
    if r.random() < 0.3:
        s["prune"] = r.random() < 0.5
    return s


def gen_initial(r, w, nested=False):
    if nested:
        # a git SCM with a git SCM nested in a directory that the parent repository (r0) ignores
        parent = r.choice([".", "a", "b"])
        sub = r.choice(["sub", "nest"])
        return [gen_git_spec(r, w, parent, "r0"),
                gen_git_spec(r, w, sub if parent == "." else parent + "/" + sub)]
    n = r.choice([1, 1, 2, 2, 3])
    specs = []
    root_kind = r.random()
    if root_kind < 0.45:
        # git in ".", nested SCMs in ignored or plain sub directories
        specs.append(gen_git_spec(r, w, "."))
        for d in r.sample(["sub", "nest", "a", "+x"], n - 1):
            specs.append(gen_git_spec(r, w, d) if r.random() < 0.8 else gen_other_spec(r, w, d))
    else:
        ds = r.sample(["a", "b"], min(n, 2))
        for d in ds:
            specs.append(gen_git_spec(r, w, d) if r.random() < 0.75 else gen_other_spec(r, w, d))
        if n == 3:
            parent = next((s for s in specs if s["scm"] == "git"), None)
            if parent is not None:
                specs.append(gen_git_spec(r, w, parent["dir"] + "/" + r.choice(["sub", "nest"])))
    return specs


def edit_specs(r, w, specs):
    """one recipe SCM edit; returns (new list, description)"""
    specs = [dict(s) for s in specs]
    k = r.random()
    gits = [i for i, s in enumerate(specs) if s["scm"] == "git"]
    if k < 0.45 and gits:
        i = r.choice(gits)
        old = specs[i]
        what = r.random()
        if what < 0.55:
            # other ref of the same repository
            repo = next(n for n, p in w.repos.items() if "file://" + p == old["url"])
            new = gen_git_spec_on_branch(r, w, old["dir"], repo) if r.random() < 0.35 else gen_git_spec(r, w, old["dir"], repo)
            desc = "edit-ref"
        elif what < 0.8:
            new = gen_git_spec(r, w, old["dir"])
            desc = "edit-url+ref"
        elif what < 0.9:
            new = dict(old)
            new["url"] = r.choice(["file://" + p for p in w.repos.values()])
            desc = "edit-url"
        else:
            new = dict(old)
            new["submodules"] = not old.get("submodules", False)
            desc = "edit-submodules"
        specs[i] = new
        return specs, desc
    if k < 0.55 and specs:
        i = r.randrange(len(specs))
        used = {norm(s["dir"]) for s in specs}
        cand = [d for d in DIRS if norm(d) not in used]
        if cand:
            specs[i]["dir"] = r.choice(cand)
            order_fix(specs)
            return specs, "edit-dir"
    if k < 0.7 and len(specs) < 4:
        used = {norm(s["dir"]) for s in specs}
        cand = [d for d in DIRS if norm(d) not in used]
        if cand:
            d = r.choice(cand)
            specs.append(gen_git_spec(r, w, d) if r.random() < 0.7 else gen_other_spec(r, w, d))
            if r.random() < 0.9:
                order_fix(specs)
            return specs, "add-scm"
    if k < 0.82 and len(specs) > 1:
        i = r.randrange(len(specs))
        del specs[i]
        return specs, "remove-scm"
    if k < 0.92 and specs:
        i = r.randrange(len(specs))
        d = specs[i]["dir"]
        if specs[i]["scm"] == "git":
            specs[i] = gen_other_spec(r, w, d)
        else:
            specs[i] = gen_git_spec(r, w, d) if r.random() < 0.6 else gen_other_spec(r, w, d)
        return specs, "edit-kind"
    urls = [i for i, s in enumerate(specs) if s["scm"] == "url"]
    if urls:
        i = r.choice(urls)
        from gen.c12world import sha1_file
        s = specs[i]
        if s.get("digestSHA1") and r.random() < 0.5:
            del s["digestSHA1"]
        else:
            s["digestSHA1"] = sha1_file(w.files[s["url"]]) if r.random() < 0.8 else "0" * 40
        return specs, "edit-digest"
    return specs, "edit-none"


def order_fix(specs):
    """parents before nested (what a recipe author has to do)"""
    specs.sort(key=lambda s: (len(comps(s["dir"])), ))


# ====================================================================== running Bob

def run_bob(w, args, log=True):
    env = dict(w.env)
    flag = os.path.join(w.base, "gitlog.on")
    if log:
        env["PATH"] = w.bindir + os.pathsep + env.get("PATH", "")
        open(flag, "w").close()
    elif os.path.exists(flag):
        os.unlink(flag)
    env["PYTHONDONTWRITEBYTECODE"] = "1"
    out = os.path.join(w.base, "state.json")
    if os.path.exists(out):
        os.unlink(out)
    try:
        p = subprocess.run([PY, RUNBOB, w.pym, w.proj, out] + args, env=env, stdout=subprocess.PIPE,
                           stderr=subprocess.STDOUT, timeout=600)
        rc, text = p.returncode, p.stdout.decode("utf-8", "replace")
    except subprocess.TimeoutExpired:
        return None, "timeout", {}
    finally:
        if os.path.exists(flag):
            os.unlink(flag)
    st = {}
    if os.path.exists(out):
        try:
            st = json.load(open(out))
        except Exception:
            st = {"error": "unreadable"}
    return rc, text, st


ANSI = re.compile(r"\x1b\[[0-9;]*m")


def parse_output(text):
    ev = []
    kind = None
    t = ANSI.sub("", text)
    for line in t.splitlines():
        m = re.match(r"\s+SWITCH\s+(\S+)", line)
        if m:
            ev.append(["switch", m.group(1)])
        m = re.match(r"\s+ATTIC\s+(\S+) \(move to \.\./attic/(\S+)\)", line)
        if m:
            ev.append(["attic", m.group(1), m.group(2)])
    if "inline switch not possible and move to attic disabled" in t:
        kind = "atticDisabled"
    elif "collides with existing file in workspace" in t:
        kind = "collides"
    elif "Parse error" in t:
        kind = "parse"
    m = re.findall(r"checkoutSCM: dir:([^,\n]+), url:[^\n]* failed", t)
    if m and kind is None:
        kind = "scmFailed:" + m[-1]
    return ev, kind


# ====================================================================== observation

class Obs:
    """what exists under the project: SCM directories by location, their abstract content"""

    def __init__(self, w, attic_index):
        self.w = w
        self.attic_index = attic_index

    def locations(self, state):
        """all SCM directories found on disk: git clones by walking, others by Bob's registrations"""
        w = self.w
        wsroot = os.path.join(w.proj, WS)
        atticroot = os.path.join(w.proj, ATTIC)
        locs = {}
        if os.path.isdir(atticroot):
            for name in sorted(os.listdir(atticroot)):
                if name not in self.attic_index:
                    self.attic_index[name] = len(self.attic_index)

        def walk(root, mk):
            if not os.path.isdir(root):
                return
            for dp, dn, fn in os.walk(root):
                if ".git" in dn:
                    dn.remove(".git")
                    rel = os.path.relpath(dp, root)
                    locs[mk(rel)] = ("git", dp)
        walk(wsroot, lambda rel: ("ws", tuple(comps(rel))))
        if os.path.isdir(atticroot):
            for name in os.listdir(atticroot):
                walk(os.path.join(atticroot, name), lambda rel, name=name: ("attic", self.attic_index[name], tuple(comps(rel))))
        # non-git SCMs known to Bob
        ds = (state.get("dirs") or {}).get(WS) or {}
        for d, ent in ds.items():
            spec = ent.get("spec") or {}
            p = os.path.join(wsroot, d)
            loc = ("ws", tuple(comps(d)))
            if spec.get("scm") in ("url", "import") and os.path.isdir(p) and loc not in locs:
                locs[loc] = (spec.get("scm"), p, spec)
        for ap, spec in (state.get("attic") or {}).items():
            spec = spec or {}
            loc = self.attic_loc(ap)
            if loc is None:
                continue
            p = os.path.join(w.proj, ap)
            if spec.get("scm") in ("url", "import") and os.path.isdir(p) and loc not in locs:
                locs[loc] = (spec.get("scm"), p, spec)
        return locs

    def attic_loc(self, ap):
        ap = os.path.normpath(ap)
        pre = os.path.normpath(ATTIC) + "/"
        if not ap.startswith(pre):
            return None
        rest = ap[len(pre):].split("/")
        if rest[0] not in self.attic_index:
            return None
        return ("attic", self.attic_index[rest[0]], tuple(rest[1:]))

    def contents(self, state, cache=None):
        locs = self.locations(state)
        out = {}
        for loc, info in locs.items():
            path = info[1]
            if cache is not None and path in cache and cache[path][0] == info[0]:
                out[loc] = cache[path][1]
                continue
            if info[0] == "git":
                nested = []
                for l2, i2 in locs.items():
                    if l2 != loc and i2[1].startswith(path + "/"):
                        nested.append(os.path.relpath(i2[1], path))
                repo, extra = self.w.abstract_repo(path, nested)
                out[loc] = {"git": repo, "extra": extra}
            elif info[0] == "url":
                fn = (info[2].get("fileName") or info[2].get("url", "").split("/")[-1])
                fp = os.path.join(path, fn)
                if os.path.isfile(fp):
                    from gen.c12world import sha1_file
                    out[loc] = {"file": sha1_file(fp), "name": fn}
                else:
                    out[loc] = {"other": True}
            else:
                out[loc] = {"other": True}
            if cache is not None:
                cache[path] = (info[0], out[loc])
        return out


def plain_dirs(w, locs):
    """directories and files in the workspace that are not inside an SCM directory (and no parent of one)"""
    wsroot = os.path.join(w.proj, WS)
    scm = [os.path.relpath(info[1], wsroot) for loc, info in locs.items() if loc[0] == "ws"]
    out = []
    if not os.path.isdir(wsroot) or "." in [norm(x) for x in scm]:
        return out
    for dp, dn, fn in os.walk(wsroot):
        rel = norm(os.path.relpath(dp, wsroot))
        keep = []
        for d in dn:
            p = norm(os.path.join(rel, d))
            if any(p == norm(x) for x in scm):
                continue
            keep.append(d)
            if not any(is_prefix(p, x) for x in scm):
                out.append(comps(p))
        dn[:] = keep
        for f in fn:
            out.append(comps(norm(os.path.join(rel, f))))
    return sorted(out)


def loc_json(loc):
    if loc[0] == "ws":
        return {"ws": list(loc[1])}
    return {"attic": loc[1], "sub": list(loc[2])}


def loc_key(j):
    if "ws" in j:
        return ("ws", tuple(j["ws"]))
    return ("attic", j["attic"], tuple(j["sub"]))


def tree_of(root, skip):
    """{relative path: content hash} of a directory tree, without .git and the `skip` sub trees"""
    out = {}
    for dp, dn, fn in os.walk(root):
        rel = os.path.relpath(dp, root)
        dn[:] = [d for d in dn if d != ".git" and norm(os.path.join(rel, d)) not in skip]
        for f in fn:
            p = os.path.join(dp, f)
            rp = norm(os.path.join(rel, f))
            if os.path.islink(p):
                out[rp] = "link:" + os.readlink(p)
            else:
                try:
                    out[rp] = hashlib.sha1(open(p, "rb").read()).hexdigest()
                except OSError:
                    out[rp] = "unreadable"
        if not dn and not fn and rel != ".":
            out[norm(rel) + "/"] = "dir"
    return out


# ====================================================================== one history

def run_history(job):
    """executed in a forked worker: runs one history for real, returns the record"""
    (base, pym, hseed, nevents, want_model) = job[:5]
    deadline = job[5] if len(job) > 5 else None
    flavor = job[6] if len(job) > 6 else "random"
    variant = None
    if ":" in flavor:
        flavor, variant = flavor.split(":", 1)
    from gen.c12world import World, parse_gitlog, snap_of
    r = random.Random(hseed)
    if os.path.exists(base):
        shutil.rmtree(base)
    os.makedirs(base)
    w = World(base, pym)
    rec = {"hseed": hseed, "nevents": nevents, "events": [], "violations": [], "contract": [], "skipped": None, "log": []}
    try:
        rec["flavor"] = flavor + (":" + variant if variant else "")
        _history(w, r, rec, nevents, want_model, parse_gitlog, snap_of, deadline, flavor, variant)
    except Exception as e:  # harness problem: never a verdict
        import traceback
        rec["skipped"] = "harness: %s: %s" % (type(e).__name__, e)
        rec["trace"] = traceback.format_exc()[-1500:]
    finally:
        shutil.rmtree(base, ignore_errors=True)
    return rec


def _history(w, r, rec, nevents, want_model, parse_gitlog, snap_of, deadline=None, flavor="random", fvariant=None):
    # ---- universe
    w.gen_repo(r, "r0", ignore=IGNORED if (r.random() < 0.6 or flavor == "nested-attic") else None)
    w.gen_repo(r, "r1", ignore=IGNORED if r.random() < 0.3 else None)
    # a mirror of r0 under another url (may fall behind later)
    mirror = os.path.join(w.base, "up", "r0m.git")
    w.git(w.base, "clone", "-q", "--mirror", w.repos["r0"], mirror)
    w.repos["r0m"] = mirror
    os.makedirs(w.proj)
    w.gen_import(r, "i0")
    w.gen_import(r, "i1")
    w.gen_file(r, "t0.tar", True)
    w.gen_file(r, "s0.txt", False)
    policies = {"scmIgnoreUser": True, "pruneImportScm": r.random() < 0.5, "gitCommitOnBranch": r.random() < 0.6,
                "fixImportScmVariant": True, "defaultFileMode": False, "urlScmSeparateDownload": False}
    if flavor == "ubc-tag-move":
        policies["gitCommitOnBranch"] = True
    ubc = policies["gitCommitOnBranch"]
    scen = {}
    if flavor == "branch-return":
        # one git SCM on branch A
        scen["A"] = r.choice(["master", "dev"])
        scen["dir"] = r.choice([".", "a"])
        specs = [{"scm": "git", "url": "file://" + w.repos["r0"], "branch": scen["A"], "dir": scen["dir"]}]
    elif flavor == "ubc-tag-move":
        # branch + tag, both tags on the branch (m2 newer than m1)
        gw = os.path.join(w.base, "gen", "r0")
        rc_, out_ = w.git(gw, "rev-list", "master")
        mc_ = out_.split()
        w.git(gw, "tag", "m2", mc_[0])
        w.git(gw, "tag", "m1", mc_[min(len(mc_) - 1, r.randrange(1, 3))])
        w.git(gw, "push", "-q", "origin", "m1", "m2")
        w.git(w.repos["r0m"], "fetch", "-q", "-p", w.repos["r0"], "+refs/*:refs/*", check=False)
        w.index_commits(w.repos["r0"])
        scen["dir"] = r.choice([".", "a"])
        specs = [{"scm": "git", "url": "file://" + w.repos["r0"], "branch": "master", "tag": "m2", "dir": scen["dir"]}]
    else:
        specs = gen_initial(r, w, nested=(flavor == "nested-attic"))
    used = True
    write_recipes(w, specs, used, policies)
    attic_index = {}
    obs = Obs(w, attic_index)
    state = {}
    cache = {}           # observed contents by path, dropped when something may have changed them
    ledger = []          # user work items that must survive Bob
    touched = set()      # normalised SCM dirs of the workspace the user changed
    exempt = False       # an upstream tag moved: deterministic checkouts may legitimately be stale
    changed = True       # something happened since the last Bob run
    last_dev_ok = False
    wsroot = os.path.join(w.proj, WS)

    def scan():
        """all commits reachable from a ref or HEAD of any clone under dev/, and all work tree files by name"""
        commits, files = set(), {}
        if not ledger:
            return commits, files
        need_commits = any(i["kind"] == "commit" for i in ledger)
        names = {i["name"] for i in ledger if i["kind"] == "file"}
        for dp, dn, fn in os.walk(os.path.join(w.proj, "dev")):
            if ".git" in dn:
                dn.remove(".git")
                if need_commits:
                    rc, out = w.git(dp, "rev-list", "--all", "HEAD", check=False)
                    if rc != 0:
                        rc, out = w.git(dp, "rev-list", "--all", check=False)
                    commits.update(out.split())
            for f in fn:
                if f in names:
                    try:
                        files.setdefault(f, []).append(open(os.path.join(dp, f), "rb").read())
                    except OSError:
                        pass
        return commits, files

    def present(item, sc):
        if item["kind"] == "commit":
            return item["sha"] in sc[0]
        tok = item["token"].encode()
        return any(tok in data for data in sc[1].get(item["name"], []))

    def prune_ledger():
        sc = scan()
        ledger[:] = [i for i in ledger if present(i, sc)]

    def tag_ledger(d):
        nested = any(is_prefix(s_["dir"], d) and norm(s_["dir"]) != norm(d) for s_ in specs)
        for it in ledger:
            if "dir" not in it:
                it["dir"] = norm(d)
                it["nested"] = nested

    def git_dirs():
        """git clones in the workspace proper, as (normalised recipe dir, path)"""
        out = []
        for loc, info in sorted(obs.locations(state).items()):
            if loc[0] == "ws" and info[0] == "git":
                out.append(("/".join(loc[1]) or ".", info[1]))
        return out

    def describe():
        return list(rec["log"])

    def case(extra=None):
        c = {"kind": "history", "hseed": rec["hseed"], "nevents": rec["nevents"], "flavor": rec.get("flavor", "random"),
             "upto": len(rec["log"]), "log": describe()}
        if extra:
            c.update(extra)
        return c

    def bob_event(kind, args):
        nonlocal state, changed, last_dev_ok, exempt
        pre_state = state
        mw = w.model_world() if want_model else None
        pre = obs.contents(state, cache)
        pre_plain = plain_dirs(w, obs.locations(state))
        pre_tree = None
        if "--dry-run" in args:
            pre_tree = tree_of(os.path.join(w.proj, "dev"), set()) if os.path.isdir(os.path.join(w.proj, "dev")) else {}
        if os.path.exists(w.gitlog):
            os.unlink(w.gitlog)
        rc, text, st = run_bob(w, args)
        if rc is None:
            rec["skipped"] = "bob timed out"
            raise RuntimeError("timeout")
        if "error" in st or not st:
            st = {"dirs": pre_state.get("dirs", {}), "attic": pre_state.get("attic", {}), "unreadable": True}
        state = st
        evs, errkind = parse_output(text)
        if rc == 0 and errkind != "parse":
            errkind = None      # messages of a failed inline switch that ended in the attic are no error of the run
        cache.clear()
        post = obs.contents(state, cache)
        rec["log"].append("%s %s -> rc=%s%s" % (kind, " ".join(args[1:]), rc, " (" + errkind + ")" if errkind else ""))
        # ------------------------------------------------ oracle 1: user work is still there
        sc = scan()
        for item in ledger:
            if not present(item, sc):
                sig = "user-work-lost-by-" + kind
                if kind == "clean-attic" and item.get("nested"):
                    sig = "F-C12-attic-clean-removes-nested-user-work"
                    first = (item.get("dir") or ".").split("/")[0]
                    if first != "." and first < ".":
                        # the SCM directory sorts before "." in checkoutsFromState: it was not treated as nested
                        sig = "F-C12-nested-scm-sorted-before-dot-not-registered"
                rec["violations"].append({
                    "what": "%s destroyed user work: %s is nowhere under the project any more (log: %s; output tail: %s)"
                            % (" ".join(["bob"] + args), json.dumps(item), "; ".join(describe()[-6:]),
                               ANSI.sub("", text)[-300:].replace("\n", " | ")),
                    "case": case({"item": item}), "signature": sig})
        ledger[:] = [i for i in ledger if present(i, sc)]
        # ------------------------------------------------ oracle 2: --dry-run changes nothing
        if pre_tree is not None:
            post_tree = tree_of(os.path.join(w.proj, "dev"), set()) if os.path.isdir(os.path.join(w.proj, "dev")) else {}
            if post_tree != pre_tree:
                diff = sorted(set(pre_tree.items()) ^ set(post_tree.items()))[:5]
                rec["violations"].append({"what": "%s changed the project: %r" % (" ".join(["bob"] + args), diff),
                                          "case": case(), "signature": "dry-run-changed-something"})
        # ------------------------------------------------ oracle 3: non-forced clean removes only expendable clones
        # (covered by oracle 1 for user work; here: a removed clone must not have had a switched HEAD/url either)
        # ------------------------------------------------ contract validation of every git command
        if kind == "dev":
            recs_ = parse_gitlog(w.gitlog)
            rec["ncmds"] = rec.get("ncmds", 0) + len(recs_)
            rec["contract"].extend(check_contract(w, recs_, snap_of))
        # freshly created SCM directories are untouched again
        for loc in post:
            if loc[0] == "ws" and loc not in pre:
                touched.discard("/".join(loc[1]) or ".")
        for ev in evs:
            if ev[0] == "attic":
                rel = os.path.relpath(ev[1], WS)
                for t in list(touched):
                    if is_prefix(rel, t):
                        touched.discard(t)
        if kind == "dev":
            last_dev_ok = (rc == 0)
        if want_model:
            rec["events"].append({
                "kind": kind, "args": args[1:], "world": mw, "nontrivial": changed,
                "new": [model_spec(w, s, ubc) for s in specs] if (kind == "dev" and used) else None,
                "used": used, "valid": parse_valid(specs),
                "pre": [[loc_json(l), c] for l, c in sorted(pre.items(), key=lambda x: json.dumps(loc_json(x[0])))],
                "plain": pre_plain,
                "post": [[loc_json(l), c] for l, c in sorted(post.items(), key=lambda x: json.dumps(loc_json(x[0])))],
                "rc": rc, "errkind": errkind, "evs": evs, "attic_index": dict(attic_index),
                "state": {"dirs": {d: e.get("digest") for d, e in ((state.get("dirs") or {}).get(WS) or {}).items()},
                          "attic": sorted(state.get("attic") or {}), "ws_known": WS in (state.get("dirs") or {})},
                "ws_exists": os.path.isdir(wsroot), "log": describe(), "text": ANSI.sub("", text)[-600:],
            })
        changed = False
        return rc

    # ---- initial checkout
    bob_event("dev", ["dev", "root"])
    past_specs = [[dict(s_) for s_ in specs]]
    if flavor == "branch-return":
        # leave branch A, upstream moves A meanwhile, come back: the untouched workspace must follow
        A = scen["A"]
        w.up_commit(r, "r0", A)
        w.git(w.repos["r0m"], "fetch", "-q", "-p", w.repos["r0"], "+refs/*:refs/*", check=False)
        w.index_commits(w.repos["r0m"])
        rec["log"].append("up-commit r0 " + A)
        cache.clear()
        away = dict(specs[0])
        if r.random() < 0.6:
            away["branch"] = "dev" if A == "master" else "master"
        else:
            away.pop("branch")
            away["tag"] = r.choice(["v1", "v2"])
        back = [dict(specs[0])]
        specs = [away]
        write_recipes(w, specs, used, policies)
        rec["log"].append("edit-ref (leave %s) %s" % (A, json.dumps([away.get("branch"), away.get("tag")])))
        changed = True
        bob_event("dev", ["dev", "root"])
        if r.random() < 0.4:
            w.up_commit(r, "r0", A)
            w.git(w.repos["r0m"], "fetch", "-q", "-p", w.repos["r0"], "+refs/*:refs/*", check=False)
            w.index_commits(w.repos["r0m"])
            rec["log"].append("up-commit r0 " + A)
            cache.clear()
        specs = back
        write_recipes(w, specs, used, policies)
        rec["log"].append("edit-ref (back to %s)" % A)
        changed = True
        nevents = 0
    elif flavor == "ubc-tag-move":
        # user work on the configured branch of a branch+tag SCM, the user sits elsewhere, the recipe moves the tag
        path = os.path.join(wsroot, scen["dir"])
        d = norm(scen["dir"])
        variant = {"leave": 0.2, "stay": 0.6, "dirty": 0.9}.get(fvariant, r.random())
        if variant < 0.7:
            with open(os.path.join(path, "c%d.txt" % w.counter), "w") as fh:
                fh.write(w.token("commit") + "\n")
            w.git(path, "add", "-A", ".", check=False)
            rc_, _ = w.git(path, "commit", "-q", "-m", "local " + w.token("m"), check=False)
            rc_, sha = w.git(path, "rev-parse", "HEAD")
            w.user_commits.add(sha.strip())
            w.index_commits(path)
            ledger.append({"kind": "commit", "sha": sha.strip(), "dir": d, "nested": False})
            rec["log"].append("user %s: commit %s on master" % (d, sha.strip()[:8]))
            if variant < 0.55:
                w.git(path, "checkout", "-q", "-b", "review", "origin/" + r.choice(["master", "dev"]), check=False)
                rec["log"].append("user %s: checkout -b review origin/..." % d)
        else:
            rc_, tracked = w.git(path, "ls-files", check=False)
            f = r.choice([x for x in tracked.split() if x != ".gitignore"])
            tok = w.token("dirty")
            with open(os.path.join(path, f), "a") as fh:
                fh.write(tok + "\n")
            ledger.append({"kind": "file", "token": tok, "name": f, "dir": d, "nested": False})
            rec["log"].append("user %s: dirty %s" % (d, f))
        touched.add(d)
        cache.clear()
        specs = [dict(specs[0], tag="m1")]
        write_recipes(w, specs, used, policies)
        rec["log"].append("edit-ref (tag m2 -> m1)")
        changed = True
        bob_event("dev", ["dev", "root"])
        nevents = 0
    for step in range(nevents):
        if deadline is not None and time.time() > deadline and flavor == "random":
            rec["log"].append("(history cut: time budget)")
            rec["cut"] = True
            return
        k = r.random()
        gd = git_dirs()
        if k < 0.22:
            if len(past_specs) > 1 and r.random() < 0.3:
                # back to an earlier recipe (leave a branch / tag and come back)
                specs, desc = [dict(s_) for s_ in r.choice(past_specs[:-1])], "edit-back"
            else:
                specs, desc = edit_specs(r, w, specs)
            past_specs.append([dict(s_) for s_ in specs])
            write_recipes(w, specs, used, policies)
            rec["log"].append(desc + " " + json.dumps([[s["scm"], s.get("dir"), s.get("branch"), s.get("tag"), (s.get("commit") or "")[:7],
                                                        os.path.basename(s["url"])] for s in specs]))
            changed = True
            if r.random() < 0.6:
                bob_event("dev", ["dev", "root"] + (["--no-attic"] if r.random() < 0.12 else []))
        elif k < 0.36:
            t = r.random()
            if t < 0.7:
                name = r.choice(["r0", "r0", "r1"])
                desc = w.upstream_op(r, name)
                if name == "r0":
                    # the mirror follows immediately: a branch never moves *backwards* to an ancestor, not even by
                    # changing the url (merge --ff-only would silently report "up to date", see ASSUMPTIONS)
                    w.git(w.repos["r0m"], "fetch", "-q", "-p", w.repos["r0"], "+refs/*:refs/*", check=False)
                    w.index_commits(w.repos["r0m"])
                if "movetag" in desc:
                    exempt = True
            elif t < 0.85:
                desc = w.import_op(r, r.choice(sorted(w.imports)))
            else:
                desc = w.file_op(r, r.choice(sorted(w.files)))
            rec["log"].append(desc)
            cache.clear()
            changed = True
        elif k < 0.40 and os.path.isdir(wsroot) and not any(norm(s_["dir"]) == "." for s_ in specs) and \
                not os.path.exists(os.path.join(wsroot, ".git")):
            # the user puts something of his own into the workspace (no SCM directory)
            free = [d for d in ("a", "b", "sub", "nest", "own") if not os.path.exists(os.path.join(wsroot, d))]
            if free:
                d = r.choice(free)
                os.makedirs(os.path.join(wsroot, d))
                tok = w.token("own")
                with open(os.path.join(wsroot, d, "own%d.txt" % w.counter), "w") as fh:
                    fh.write(tok + "\n")
                rec["log"].append("user-mkdir " + d)
                touched.add(d)
                cache.clear()
                changed = True
        elif k < 0.62 and gd:
            d, path = r.choice(gd)
            desc = user_op(w, r, path, ledger, norm(d))
            tag_ledger(d)
            cache.clear()
            touched.add(norm(d))
            rec["log"].append("user %s: %s" % (d, desc))
            prune_ledger()
            changed = True
        elif k < 0.80:
            flags = []
            if r.random() < 0.3:
                flags.append("--clean-checkout")
            if r.random() < 0.1:
                flags.append("--no-attic")
            bob_event("dev", ["dev", "root"] + flags)
        elif k < 0.86:
            used = not used
            write_recipes(w, specs, used, policies)
            rec["log"].append("use-app" if used else "unuse-app")
            changed = True
        elif k < 0.93:
            bob_event("clean-attic", ["clean", "--attic"] + (["--dry-run"] if r.random() < 0.25 else []))
        else:
            bob_event("clean-src", ["clean", "-s"] + (["--dry-run"] if r.random() < 0.25 else []))
            if not os.path.isdir(wsroot):
                touched.clear()
    # ---- scripted tails that make the clean commands meet user work (otherwise a rare coincidence)
    tail = {"clean-src": 0.1, "nested-attic": 0.5, "collision": 0.8, "branch-return": 0.99, "ubc-tag-move": 0.99}.get(flavor, r.random())
    if not rec.get("cut") and tail < 0.35:
        gd = git_dirs()
        if gd and used:
            d, path = r.choice(gd)
            desc = user_op(w, r, path, ledger, norm(d))
            tag_ledger(d)
            cache.clear()
            touched.add(norm(d))
            rec["log"].append("user %s: %s" % (d, desc))
            prune_ledger()
            used = False
            write_recipes(w, specs, used, policies)
            rec["log"].append("unuse-app")
            changed = True
            bob_event("dev", ["dev", "root"])
            bob_event("clean-src", ["clean", "-s"])
            if not os.path.isdir(wsroot):
                touched.clear()
    elif not rec.get("cut") and tail < 0.75:
        gd = git_dirs()
        if gd and used:
            # prefer a nested clone: its parent goes to the attic and takes it along
            nested_gd = [x for x in gd if any(y[0] != x[0] and is_prefix(y[0], x[0]) for y in gd)]
            d, path = r.choice(nested_gd) if nested_gd and r.random() < 0.75 else r.choice(gd)
            desc = user_op(w, r, path, ledger, norm(d))
            tag_ledger(d)
            cache.clear()
            touched.add(norm(d))
            rec["log"].append("user %s: %s" % (d, desc))
            prune_ledger()
            # make the parent (or the SCM itself) unswitchable: it goes to the attic
            tops = [i for i, s_ in enumerate(specs) if is_prefix(s_["dir"], d)]
            parents = [i for i in tops if norm(specs[i]["dir"]) != norm(d)]
            i = r.choice(parents) if parents and r.random() < 0.75 else r.choice(tops)
            specs = [dict(s_) for s_ in specs]
            if specs[i]["scm"] == "git":
                specs[i]["submodules"] = not specs[i].get("submodules", False)
                repo = r.choice(sorted(w.repos))
                specs[i].update({k_: v_ for k_, v_ in gen_git_spec(r, w, specs[i]["dir"], repo).items() if k_ != "dir"})
            else:
                specs[i] = gen_git_spec(r, w, specs[i]["dir"])
            write_recipes(w, specs, used, policies)
            rec["log"].append("edit-unswitchable " + json.dumps([[s_["scm"], s_.get("dir")] for s_ in specs]))
            changed = True
            bob_event("dev", ["dev", "root"])
            bob_event("clean-attic", ["clean", "--attic"])
    elif not rec.get("cut") and tail < 0.87 and used and os.path.isdir(wsroot) and \
            not any(norm(s_["dir"]) == "." for s_ in specs) and len(specs) < 4 and \
            not os.path.exists(os.path.join(wsroot, ".git")):
        # the user's own directory where the recipe then wants a checkout: Bob has to refuse (collision)
        free = [d for d in ("a", "b", "sub", "nest", "own") if not os.path.exists(os.path.join(wsroot, d))
                and not any(is_prefix(d, s_["dir"]) or is_prefix(s_["dir"], d) for s_ in specs)]
        if free:
            d = r.choice(free)
            os.makedirs(os.path.join(wsroot, d))
            tok = w.token("own")
            with open(os.path.join(wsroot, d, "own%d.txt" % w.counter), "w") as fh:
                fh.write(tok + "\n")
            rec["log"].append("user-mkdir " + d)
            touched.add(d)
            cache.clear()
            specs = [dict(s_) for s_ in specs] + [gen_git_spec(r, w, d)]
            write_recipes(w, specs, used, policies)
            rec["log"].append("add-scm-at-user-dir " + d)
            changed = True
            bob_event("dev", ["dev", "root"])
    # ---- final: converge check
    if not used:
        used = True
        write_recipes(w, specs, used, policies)
        rec["log"].append("use-app")
        changed = True
    if changed or not rec["events"] or rec["events"][-1]["kind"] != "dev":
        rc = bob_event("dev", ["dev", "root"])
    else:
        rc = rec["events"][-1]["rc"]        # the last event already was a `bob dev` of this recipe
    untouched_left = any(not any(is_prefix(t, s_["dir"]) for t in touched) for s_ in specs)
    if rc == 0 and not exempt and parse_valid(specs) and untouched_left:
        converge_check(w, rec, specs, touched, case)
    rec["ledger"] = len(ledger)


def user_op(w, r, path, ledger, scope=None):
    """one user operation in the clone at `path`.  `scope`: the ledger `dir` of this clone (None: all items)."""
    def committed():
        # `git add -A` + commit: dirty, staged and untracked files of this clone are now part of the commit (which
        # is tracked by its id); they leave the work tree whenever another commit is checked out
        ledger[:] = [it for it in ledger if not (it["kind"] == "file" and (scope is None or it.get("dir") == scope))]
    k = r.random()
    rc, tracked = w.git(path, "ls-files", check=False)
    tracked = [f for f in tracked.split() if f != ".gitignore"]
    if k < 0.22 and tracked:
        f = r.choice(tracked)
        tok = w.token("dirty")
        with open(os.path.join(path, f), "a") as fh:
            fh.write(tok + "\n")
        ledger.append({"kind": "file", "token": tok, "name": f})
        return "dirty " + f
    if k < 0.40:
        f = "u%d.txt" % w.counter
        tok = w.token("untracked")
        with open(os.path.join(path, f), "w") as fh:
            fh.write(tok + "\n")
        ledger.append({"kind": "file", "token": tok, "name": f})
        return "untracked " + f
    if k < 0.48:
        f = "s%d.txt" % w.counter
        tok = w.token("staged")
        with open(os.path.join(path, f), "w") as fh:
            fh.write(tok + "\n")
        w.git(path, "add", f, check=False)
        ledger.append({"kind": "file", "token": tok, "name": f})
        return "staged " + f
    if k < 0.66:
        f = r.choice(tracked) if tracked and r.random() < 0.7 else "c%d.txt" % w.counter
        with open(os.path.join(path, f), "a") as fh:
            fh.write(w.token("commit") + "\n")
        w.git(path, "add", "-A", ".", check=False)
        rc, out = w.git(path, "commit", "-q", "-m", "local " + w.token("m"), check=False)
        if rc == 0:
            rc, sha = w.git(path, "rev-parse", "HEAD")
            w.user_commits.add(sha.strip())
            w.index_commits(path)
            committed()
            ledger.append({"kind": "commit", "sha": sha.strip()})
            return "commit " + sha.strip()[:8]
        return "commit failed"
    if k < 0.78:
        b = "work%d" % w.counter
        rc, _ = w.git(path, "checkout", "-q", "-b", b, check=False)
        if rc != 0:
            return "newbranch failed"
        with open(os.path.join(path, "w%d.txt" % w.counter), "w") as fh:
            fh.write(w.token("work") + "\n")
        w.git(path, "add", "-A", ".", check=False)
        rc, out = w.git(path, "commit", "-q", "-m", "work " + w.token("m"), check=False)
        rc, sha = w.git(path, "rev-parse", "HEAD")
        w.user_commits.add(sha.strip())
        w.index_commits(path)
        committed()
        ledger.append({"kind": "commit", "sha": sha.strip()})
        if r.random() < 0.5:
            w.git(path, "checkout", "-q", "-", check=False)
            return "newbranch %s + commit %s, back" % (b, sha.strip()[:8])
        return "newbranch %s + commit %s" % (b, sha.strip()[:8])
    if k < 0.90:
        rc, out = w.git(path, "for-each-ref", "--format=%(refname:short)", "refs/heads", "refs/remotes/origin")
        cand = [x for x in out.split() if x != "origin/HEAD" and x != "origin"]
        if not cand:
            return "switch: nothing"
        t = r.choice(cand)
        if t.startswith("origin/"):
            rc, _ = w.git(path, "checkout", "-q", "-b", t[7:], t, check=False)
            if rc != 0:
                rc, _ = w.git(path, "checkout", "-q", t[7:], check=False)
        else:
            rc, _ = w.git(path, "checkout", "-q", t, check=False)
        return "switch %s rc=%d" % (t, rc)
    rc, out = w.git(path, "rev-list", "--all", "-n", "6")
    cs = out.split()
    if not cs:
        return "detach: nothing"
    c = r.choice(cs)
    rc, _ = w.git(path, "checkout", "-q", "--detach", c, check=False)
    if rc == 0 and r.random() < 0.5:
        # work on the detached HEAD: the commit is held by nothing but HEAD
        with open(os.path.join(path, "d%d.txt" % w.counter), "w") as fh:
            fh.write(w.token("detached") + "\n")
        w.git(path, "add", "-A", ".", check=False)
        rc2, _ = w.git(path, "commit", "-q", "-m", "detached " + w.token("m"), check=False)
        if rc2 == 0:
            rc2, sha = w.git(path, "rev-parse", "HEAD")
            w.user_commits.add(sha.strip())
            w.index_commits(path)
            committed()
            ledger.append({"kind": "commit", "sha": sha.strip()})
            return "detach %s + commit %s" % (c[:8], sha.strip()[:8])
    return "detach %s rc=%d" % (c[:8], rc)


def converge_check(w, rec, specs, touched, case):
    """an untouched source workspace equals a fresh checkout of the final recipe in an empty project"""
    fresh = os.path.join(w.base, "fresh")
    if os.path.exists(fresh):
        shutil.rmtree(fresh)
    os.makedirs(fresh)
    for item in ("config.yaml", "recipes", "imp"):
        src = os.path.join(w.proj, item)
        if os.path.isdir(src):
            shutil.copytree(src, os.path.join(fresh, item), symlinks=True)
        elif os.path.exists(src):
            shutil.copy2(src, os.path.join(fresh, item))
    saved = w.proj
    w.proj = fresh
    try:
        rc, text, st = run_bob(w, ["dev", "root"], log=False)
    finally:
        w.proj = saved
    if rc != 0:
        return
    skip = set(norm(t) for t in touched)
    if "." in skip:
        return
    a = tree_of(os.path.join(saved, WS), skip)
    b = tree_of(os.path.join(fresh, WS), skip)
    # directories that only exist because a (skipped) touched directory lives in them
    for t in skip:
        parts = comps(t)
        for i in range(1, len(parts)):
            a.pop("/".join(parts[:i]) + "/", None)
            b.pop("/".join(parts[:i]) + "/", None)
    a = {k: v for k, v in a.items() if v != "dir"}
    b = {k: v for k, v in b.items() if v != "dir"}
    if a != b:
        only_a = sorted(set(a) - set(b))[:6]
        only_b = sorted(set(b) - set(a))[:6]
        differ = sorted(k for k in set(a) & set(b) if a[k] != b[k])[:6]
        rec["violations"].append({
            "what": "untouched source workspace differs from a fresh checkout of the final recipe: only in workspace %r, "
                    "only in fresh checkout %r, different content %r (log: %s)" % (only_a, only_b, differ, "; ".join(rec["log"][-8:])),
            "case": case(), "signature": "workspace-does-not-converge" + ("-leftover" if only_a and not only_b and not differ else "")})


# ====================================================================== GitContract on the logged commands

def strip_opts(args):
    out = []
    i = 0
    while i < len(args):
        if args[i] == "-c" and i + 1 < len(args):
            i += 2
        elif args[i] == "-C" and i + 1 < len(args):
            i += 2
        else:
            out.append(args[i])
            i += 1
    return out


def check_contract(w, recs, snap_of):
    bad = []

    def reach(a, c):
        seen, todo = set(), [a]
        while todo:
            x = todo.pop()
            if x == c:
                return True
            if x in seen:
                continue
            seen.add(x)
            todo.extend(w.commits[p] for p in w.parents.get(w.cidx.get(x, -1), []))
        return False

    for rcd in recs:
        if "ro" in rcd or "-C" in rcd["args"][:3]:
            continue
        a = strip_opts(rcd["args"])
        if not a:
            continue
        pre, post = snap_of(rcd["pre"]), snap_of(rcd["post"])
        if not pre["repo"] or not post["repo"]:
            continue
        cmd = a[0]
        rc = rcd["rc"]

        def viol(clause):
            bad.append({"clause": clause, "args": a, "rc": rc,
                        "pre": {k: pre[k] for k in ("head", "heads", "st")}, "post": {k: post[k] for k in ("head", "heads", "st")}})
        kept = all(f in post["st"] and post["st"][f][1] == h for f, (c, h) in pre["st"].items())
        if not kept:
            viol("dirty/untracked paths kept")
        if cmd == "fetch":
            if pre["heads"] != post["heads"] or pre["head"] != post["head"]:
                viol("fetch only moves remote refs and tags")
            continue
        mutating = cmd in ("checkout", "merge", "reset", "rebase")
        if not mutating:
            if cmd in ("init", "remote", "config", "branch") or True:
                if pre["heads"] != post["heads"] or pre["head"] != post["head"]:
                    if not (cmd == "branch" and "--set-upstream-to" in " ".join(a)):
                        viol("read-only command changed refs")
            continue
        if rc != 0:
            if pre["heads"] != post["heads"] or pre["head"] != post["head"]:
                viol("failing command changes nothing")
            continue
        w.index_commits(pre["top"]) if pre["top"] and os.path.isdir(pre["top"]) else None
        if cmd == "checkout":
            if "-b" in a:
                b = a[a.index("-b") + 1]
                if b in pre["heads"]:
                    viol("checkout -b on existing branch succeeded")
                rest = {k: v for k, v in post["heads"].items() if k != b}
                if rest != pre["heads"] or post["head"] != "refs/heads/" + b:
                    viol("checkout -b only adds the branch and moves HEAD")
            else:
                if pre["heads"] != post["heads"]:
                    viol("checkout leaves local branches alone")
        elif cmd == "merge":
            cur = pre["head"]
            if not (cur or "").startswith("refs/heads/"):
                viol("merge --ff-only on detached HEAD")
            else:
                b = cur[11:]
                rest_pre = {k: v for k, v in pre["heads"].items() if k != b}
                rest_post = {k: v for k, v in post["heads"].items() if k != b}
                if rest_pre != rest_post or post["head"] != pre["head"]:
                    viol("merge --ff-only moves only the current branch")
                elif b in pre["heads"] and b in post["heads"] and not reach(post["heads"][b], pre["heads"][b]):
                    viol("merge --ff-only result descends from the old tip")
        elif cmd == "reset":
            cur = pre["head"]
            if (cur or "").startswith("refs/heads/"):
                b = cur[11:]
                rest_pre = {k: v for k, v in pre["heads"].items() if k != b}
                rest_post = {k: v for k, v in post["heads"].items() if k != b}
                if rest_pre != rest_post or post["head"] != pre["head"]:
                    viol("reset --keep moves only the current branch")
    return bad


# ====================================================================== model comparison of a history

def compare_history(ctx, rec, replies):
    """replies: model replies aligned with requests built by `history_requests`"""
    it = iter(replies)
    next(it)     # begin
    for ev in rec["events"]:
        next(it)  # sync
        if ev["kind"] == "dev" and (ev["new"] is None or not ev["valid"] or ev["errkind"] == "parse"):
            continue
        m = next(it)
        key = (rec["hseed"], len(ev["log"]))
        ctx.case(key, nontrivial=ev["nontrivial"],
                 sample={"history": rec["hseed"], "log": ev["log"][-4:], "model_ops": m.get("ops")})
        ctx.count("bob_cmd", ev["kind"] + (" " + " ".join(a for a in ev["args"] if a.startswith("--")) if ev["args"] else ""))
        case = {"kind": "history", "hseed": rec["hseed"], "nevents": rec["nevents"], "upto": len(ev["log"]), "log": ev["log"],
                "new": ev["new"], "model_ops": m.get("ops"), "model_err": m.get("err"), "bob_output": ev["text"][-400:]}
        # ---- decisions
        mops = []
        for o in m.get("ops", []):
            if o["op"] == "switch":
                mops.append(["switch", "/".join(o["p"]) or "."])
                ctx.count("decision", "switch-ok" if o["ok"] else "switch-failed")
            elif o["op"] == "attic":
                mops.append(["attic", "/".join(o["p"]) or "."])
                ctx.count("decision", "attic")
            elif o["op"] == "invoke":
                ctx.count("decision", "fresh-checkout" if o["fresh"] else "update")
            elif o["op"] == "rmattic":
                ctx.count("decision", "clean-attic-remove")
            elif o["op"] == "rmws":
                ctx.count("decision", "clean-src-remove")
        iops = [[e[0], norm(os.path.relpath(e[1], WS))] for e in ev["evs"]]
        merr = (m.get("err") or {}).get("kind")
        ierr = (None if ev["rc"] == 0 else (ev["errkind"] or "scmFailed"))
        if merr == "scmFailed" and ierr and ierr.startswith("scmFailed:"):
            # which SCM of the step failed
            if norm(ierr.split(":", 1)[1]) != norm((m.get("err") or {}).get("dir", "?")):
                ctx.disagree("failing SCM of the checkout step", case, ierr, m.get("err"))
                continue
        if ierr and ierr.startswith("scmFailed"):
            ierr = "scmFailed"
        if ev["kind"] == "dev":
            ctx.count("outcome", str(merr))
            if mops != iops:
                ctx.disagree("switch/attic decisions per SCM directory", case, iops, mops)
                continue
            if merr != ierr:
                ctx.disagree("error kind of bob dev", dict(case, text=ev["text"]), ierr, merr)
                continue
            if merr == "collides" and False:
                pass
        # ---- directory state
        if ev["kind"] == "dev" or ev["kind"] == "clean-src":
            mdirs = {d["dir"]: (hashlib.md5(d["digest"].encode("utf8")).hexdigest() if d["digest"] is not None else "False")
                     for d in m.get("dirs", [])}
            idirs = dict(ev["state"]["dirs"])
            if not ev["state"]["ws_known"] and not idirs:
                idirs = {}
            if mdirs != idirs and not (merr == "scmFailed"):
                ctx.disagree("persisted directory state (dirs, digests)", case, idirs, mdirs)
                continue
            if merr == "scmFailed" and set(mdirs) != set(idirs):
                ctx.disagree("persisted directory state (dirs) after failed checkout", case, sorted(idirs), sorted(mdirs))
                continue
        # ---- attic registry
        obs = Obs(None, ev["attic_index"])
        ireg = sorted(str(obs.attic_loc(a)) for a in ev["state"]["attic"])
        mreg = sorted(str(("attic", a["n"], tuple(a["sub"]))) for a in m.get("attic", []))
        if ireg != mreg:
            ctx.disagree("attic registry", case, ireg, mreg)
            continue
        # ---- file system: locations and contents
        ipost = {loc_key(l): c for l, c in ev["post"]}
        mfs = {loc_key(e["loc"]): e["content"] for e in m.get("fs", [])}
        igit = sorted(str(k) for k, c in ipost.items() if "git" in c)
        mgit = sorted(str(k) for k, c in mfs.items() if "git" in c)
        failed_dir = (m.get("err") or {}).get("dir") if merr == "scmFailed" else None
        if failed_dir is not None:
            # a failed `git init`/fetch may or may not leave a .git behind: not compared for the failing directory
            fk = str(("ws", tuple(comps(failed_dir))))
            igit = [x for x in igit if x != fk]
            mgit = [x for x in mgit if x != fk]
        if igit != mgit:
            ctx.disagree("set of git clones (workspace and attic)", case, igit, mgit)
            continue
        from gen.c12world import canon_repo
        ok = True
        for k, c in mfs.items():
            if "git" not in c or k not in ipost or "git" not in ipost[k]:
                continue
            if failed_dir is not None and k == ("ws", tuple(comps(failed_dir))):
                continue
            a, b = canon_repo(ipost[k]["git"]), canon_repo(c["git"])
            # a switch that failed half way may have fetched: remote refs and tags of attic clones are compared
            # only up to what a failed fetch leaves (see ASSUMPTIONS); local refs, HEAD and the work tree always
            if k[0] == "attic":
                for f in ("remotes", "tags", "url"):
                    a.pop(f), b.pop(f)
            if ev["kind"] != "dev":
                # removing a nested (expendable) directory changes what `git status` of the clone around it shows
                for f in ("dirty", "untracked"):
                    a.pop(f), b.pop(f)
            if a != b:
                ctx.disagree("clone state after %s (heads, HEAD, remotes, tags, dirty, untracked)" % ev["kind"],
                             dict(case, loc=str(k)), a, b)
                ok = False
                break
        if ok:
            ctx.trace_validated(1)


def history_requests(rec):
    reqs = [{"op": "begin"}]
    for ev in rec["events"]:
        reqs.append({"op": "sync", "contents": [{"loc": l, "content": c} for l, c in ev["pre"]], "plain": ev.get("plain", [])})
        if ev["kind"] == "dev":
            if ev["new"] is None or not ev["valid"] or ev["errkind"] == "parse":
                continue
            q = {"op": "dev", "new": ev["new"], "clean": "--clean-checkout" in ev["args"], "attic": "--no-attic" not in ev["args"]}
            q.update(ev["world"])
            reqs.append(q)
        else:
            q = {"op": "clean", "mode": "attic" if ev["kind"] == "clean-attic" else "src", "dry": "--dry-run" in ev["args"]}
            if ev["kind"] == "clean-src" and ev["used"]:
                q["mode"] = "none"
            q.update(ev["world"])
            reqs.append(q)
    return reqs


# ====================================================================== entry points

_CACHE = {}


def _mandatory_job(job):
    kind, j = job
    return run_history(j) if kind == "hist" else direct_git_case(j)


def git_jobs(ctx):
    n = int(os.environ.get("C12_NGIT", 0)) or ctx.scale(96, 4000)
    return [(os.path.join(ctx.tmp, "g%d" % i), os.path.join(ctx.repo, "pym"), "C12g-%d-%s-%d" % (ctx.seed, ctx.tier, i)) for i in range(n)]


FORCED = ["branch-return", "ubc-tag-move:leave", "nested-attic", "clean-src", "collision", "ubc-tag-move:dirty", "branch-return",
          "ubc-tag-move:stay"]


def histories(ctx, want_model):
    """mandatory: 8 short forced scenarios (one per critical shape, in parallel); then random histories in batches
    for as long as the time budget allows"""
    key = (ctx.seed, ctx.tier)
    if key in _CACHE:
        return _CACHE[key]
    pym = os.path.join(ctx.repo, "pym")
    r = ctx.subrng("histories")
    nforced = int(os.environ.get("C12_NFORCED", 0)) or ctx.scale(8, 160)
    nrandom = int(os.environ.get("C12_NHIST", 0)) or ctx.scale(40, 1500)
    lo, hi = ctx.scale((6, 10), (20, 30))
    recs = []
    jobs = [(os.path.join(ctx.tmp, "f%d" % i), pym, "C12-%d-%s-f%d" % (ctx.seed, ctx.tier, i), r.randrange(0, 3), True, None,
             FORCED[i % len(FORCED)]) for i in range(nforced)]
    # the mandatory part in one pool of 16: the first 8 scenarios and the first 8 direct git cases
    gjobs = [("git", j) for j in git_jobs(ctx)[:8]]
    out = ctx.parallel(_mandatory_job, [("hist", j) for j in jobs[:8]] + gjobs, workers=16)
    recs.extend(out[:len(jobs[:8])])
    _CACHE[("git",) + key] = out[len(jobs[:8]):]
    for i in range(8, len(jobs), 8):
        if ctx.time_left() < 90:
            ctx.skip("forced scenarios %d.. not run: time budget" % i)
            break
        recs.extend(ctx.parallel(run_history, jobs[i:i + 8], workers=8))
    i = 0
    while i < nrandom:
        left = ctx.time_left()
        if left < 75:
            ctx.skip("random histories %d.. not run: time budget" % i)
            break
        deadline = time.time() + left - 55
        jobs = [(os.path.join(ctx.tmp, "h%d" % j), pym, "C12-%d-%s-%d" % (ctx.seed, ctx.tier, j), r.randrange(lo, hi + 1), True,
                 deadline, "random") for j in range(i, min(nrandom, i + 8))]
        recs.extend(ctx.parallel(run_history, jobs, workers=8))
        i += 8
    _CACHE[key] = recs
    if os.environ.get("C12_SAVE"):
        json.dump(recs, open(os.environ["C12_SAVE"] + "-%d.json" % ctx.seed, "w"), default=repr)
    return recs


def oracle(ctx):
    if shutil.which("git") is None:
        ctx.skip("git not available")
        return
    t_ = time.time()
    recs = histories(ctx, True)
    ctx.notes.setdefault("phase_s", {})["histories"] = round(time.time() - t_, 1)
    for rec in recs:
        if rec.get("skipped"):
            ctx.skip("history %s: %s" % (rec["hseed"], rec["skipped"]))
            ctx.count("history", "skipped")
            continue
        ctx.count("history", "run")
        for lg in rec["log"]:
            ctx.count("event", lg.split(" ")[0])
        for v in rec["violations"]:
            ctx.violation(v["what"], v["case"], v["signature"])
        for ev in rec["events"]:
            ctx.case(("oracle", rec["hseed"], len(ev["log"])), nontrivial=ev["nontrivial"])


def correspond(ctx):
    t_ = time.time()
    direct_streams(ctx)
    ctx.notes.setdefault("phase_s", {})["pure_streams"] = round(time.time() - t_, 1)
    recs = histories(ctx, True)
    t_ = time.time()
    direct_git(ctx)
    ctx.notes["phase_s"]["direct_git"] = round(time.time() - t_, 1)
    t_ = time.time()
    reqs, spans = [], []
    for rec in recs:
        if rec.get("skipped"):
            continue
        q = history_requests(rec)
        spans.append((rec, len(reqs), len(reqs) + len(q)))
        reqs.extend(q)
    if not reqs:
        return
    out = ctx.lean(DRIVER, reqs)
    for rec, a, b in spans:
        compare_history(ctx, rec, out[a:b])
        for c in rec["contract"]:
            ctx.disagree("GitContract clause '%s' holds for the git commands Bob issued" % c["clause"],
                         {"kind": "history", "hseed": rec["hseed"], "nevents": rec["nevents"]}, c, "contract")
        ctx.count("git_commands_checked", "in histories", rec.get("ncmds", 0))
        ctx.trace_validated(rec.get("ncmds", 0))
    ctx.notes["phase_s"]["model_compare"] = round(time.time() - t_, 1)


def replay(ctx, case):
    if case.get("kind") == "history":
        job = (os.path.join(ctx.tmp, "replay"), os.path.join(ctx.repo, "pym"), case["hseed"], case["nevents"], False, None,
               case.get("flavor", "random"))
        rec = run_history(job)
        for v in rec["violations"]:
            ctx.violation(v["what"], v["case"], v["signature"])
    elif case.get("kind") == "direct-git":
        res = direct_git_case((os.path.join(ctx.tmp, "replayg"), os.path.join(ctx.repo, "pym"), case["gseed"]))
        for v in res.get("violations", []):
            ctx.violation(v["what"], v["case"], v["signature"])


# ====================================================================== direct streams

GIT_PROPS = {"url": ["u1", "u2"], "branch": [None, "master", "dev"], "tag": [None, "v1", "v2"],
             "commit": [None, "a" * 40, "b" * 40], "dir": [".", "a", "a/b"], "submodules": [False, True]}


def direct_streams(ctx):
    from bob.scm import getScm
    r = ctx.subrng("direct")
    # ---- canSwitch on spec pairs
    reqs, impl, cases = [], [], []
    commits = {"a" * 40: 1, "b" * 40: 2}

    def mk_git():
        s = {"scm": "git", "url": r.choice(GIT_PROPS["url"]), "recipe": "x.yaml#0", "__source": "x"}
        for k in ("branch", "tag", "commit"):
            v = r.choice(GIT_PROPS[k])
            if v is not None and r.random() < 0.6:
                s[k] = v
        s["dir"] = r.choice(GIT_PROPS["dir"]) if r.random() < 0.3 else "."
        if r.random() < 0.25:
            s["submodules"] = True
        return s

    def mk_url():
        s = {"scm": "url", "url": "file:///x/" + r.choice(["f.tar", "g.tar", "f.txt"]), "recipe": "x.yaml#0", "__source": "x",
             "dir": r.choice([".", ".", "a"])}
        if r.random() < 0.5:
            s["digestSHA1"] = r.choice(["1" * 40, "2" * 40])
        if r.random() < 0.2:
            s["digestSHA256"] = r.choice(["3" * 64, "4" * 64])
        if r.random() < 0.2:
            s["extract"] = r.choice(["no", "auto", "tar"])
        if r.random() < 0.15:
            s["stripComponents"] = 1
        return s

    def to_model(s):
        if s["scm"] == "git":
            b = s.get("branch")
            if b is None and "tag" not in s and "commit" not in s:
                b = "master"
            return {"scm": "git", "url": s["url"], "branch": b, "tag": s.get("tag"), "commit": commits.get(s.get("commit")),
                    "dir": s.get("dir", "."), "submodules": bool(s.get("submodules")), "ubc": False}
        if s["scm"] == "url":
            return {"scm": "url", "url": s["url"], "sha1": s.get("digestSHA1"), "sha256": s.get("digestSHA256"),
                    "dir": s.get("dir", "."), "fileName": s["url"].split("/")[-1], "extract": str(s.get("extract", "auto")),
                    "strip": s.get("stripComponents", 0), "fileMode": None, "sep": False}
        return {"scm": "import", "url": s["url"], "dir": s.get("dir", "."), "prune": False}

    for i in range(ctx.scale(3000, 60000)):
        k = r.random()
        if k < 0.6:
            a, b = mk_git(), mk_git()
            if r.random() < 0.5:
                b = dict(a)
                f = r.choice(["url", "branch", "tag", "commit", "dir", "submodules"])
                v = r.choice(GIT_PROPS[f])
                if v is None or v is False:
                    b.pop(f, None)
                else:
                    b[f] = v
        elif k < 0.9:
            a, b = mk_url(), mk_url()
            if r.random() < 0.5:
                b = dict(a)
                b["url"] = "file:///y/" + a["url"].split("/")[-1]
        else:
            a, b = r.choice([mk_git(), mk_url()]), {"scm": "import", "url": "imp", "recipe": "x.yaml#0", "__source": "x"}
            if r.random() < 0.5:
                a, b = b, a
        try:
            got = bool(getScm(b).canSwitch(getScm(a)))
        except Exception as e:  # noqa
            got = "exc:" + type(e).__name__
        reqs.append({"op": "cansw", "old": to_model(a), "new": to_model(b)})
        impl.append(got)
        cases.append({"old": a, "new": b})
    # ---- taint table
    from bob.scm.scm import ScmStatus, ScmTaint
    flags = ["modified", "error", "switched", "unpushed_main", "unpushed_local", "unknown", "attic", "collides", "new", "overridden"]
    treqs, timpl = [], []
    for bits in itertools.product([0, 1], repeat=len(flags)):
        fl = [f for f, b in zip(flags, bits) if b]
        st = ScmStatus()
        for f in fl:
            st.add(getattr(ScmTaint, f))
        treqs.append({"op": "taints", "flags": fl})
        timpl.append({"dirty": bool(st.dirty), "expendable": bool(st.expendable)})
    # ---- checkoutsFromState / AtticTracker
    from bob.builder import checkoutsFromState, AtticTracker
    names = ["a", "b", "a/b", "a/b/c", ".", "./a", "a/", "a//b", "+x", "-y", "ab", "a.b", "a-b", "b/..", "a/../c", "c", " d", ".hid", "A", "_u", "a/b/../d"]
    oreqs, oimpl = [], []
    for i in range(ctx.scale(1500, 30000)):
        dirs = r.sample(names, r.randrange(1, 7))
        state = {d: (b"x", None) for d in dirs}
        state[None] = (b"v", None)
        srt = [d for d, v in checkoutsFromState(state)]
        moved = []
        for d in r.sample(dirs, r.randrange(0, min(3, len(dirs)) + 0)):
            if os.path.normpath(d) not in [os.path.normpath(x) for x in moved]:
                moved.append(d)      # a directory is moved to the attic once
        tr = AtticTracker()
        for j, d in enumerate(moved):
            tr.add(os.path.normpath(os.path.join("ws", d)), "ATTIC%d" % j)
        # model numbers attic dirs by insertion; duplicates of the same normalised path overwrite
        seen = {}
        for j, d in enumerate(moved):
            seen[os.path.normpath(os.path.join("ws", d))] = j
        aff = []
        for d in dirs:
            p = os.path.normpath(os.path.join("ws", d))
            if tr.affected(p):
                ap = tr.getAtticPath(p)
                aff.append(os.path.normpath(ap))
            else:
                aff.append(None)
        oreqs.append({"op": "order", "dirs": dirs, "moved": moved, "query": dirs})
        oimpl.append({"sorted": srt, "aff": aff, "moved": moved})
    out = ctx.lean(DRIVER, reqs + treqs + oreqs)
    for c, got, m in zip(cases, impl, out[:len(reqs)]):
        ctx.case(("cansw", json.dumps(c, sort_keys=True)))
        ctx.count("canSwitch", "%s:%s" % (c["new"]["scm"], got))
        if got != m.get("ok"):
            ctx.disagree("Scm.canSwitch == Model.canSwitch", c, got, m.get("ok"))
    for q, got, m in zip(treqs, timpl, out[len(reqs):len(reqs) + len(treqs)]):
        ctx.case(("taints", ",".join(q["flags"])))
        if got != {"dirty": m.get("dirty"), "expendable": m.get("expendable")}:
            ctx.disagree("ScmStatus.dirty/expendable == Model.Taints", q, got, m)
    for q, got, m in zip(oreqs, oimpl, out[len(reqs) + len(treqs):]):
        ctx.case(("order", json.dumps(q, sort_keys=True)), nontrivial=len(q["dirs"]) > 1)
        if got["sorted"] != m.get("sorted"):
            ctx.disagree("checkoutsFromState order == Model.sortedOld", q, got["sorted"], m.get("sorted"))
            continue
        # tracker: the model numbers attic targets by position in the (deduplicated) insertion order
        order = []
        for d in got["moved"]:
            p = os.path.normpath(os.path.join("ws", d))
            if p not in order:
                order.append(p)
        last = {}
        for j, d in enumerate(got["moved"]):
            last[os.path.normpath(os.path.join("ws", d))] = j
        maff = []
        for a in m.get("affected", []):
            if a is None:
                maff.append(None)
            else:
                # model index n = position in insertion order; real name = ATTIC<j of the last add of that path>
                p = order[a["n"]] if a["n"] < len(order) else "?"
                maff.append(os.path.normpath(os.path.join("ATTIC%d" % last.get(p, -1), a["sub"])) if a["sub"] else "ATTIC%d" % last.get(p, -1))
        if got["aff"] != maff:
            ctx.disagree("AtticTracker.affected/getAtticPath == Model.trackerMatch", q, got["aff"], maff)
    ctx.trace_validated(len(out))


def direct_git(ctx):
    """GitScm.switch / invoke / status on real clones"""
    jobs = git_jobs(ctx)
    histories(ctx, True)
    results = list(_CACHE.get(("git", ctx.seed, ctx.tier), []))
    for i in range(len(results), len(jobs), 8):
        if ctx.time_left() < 35:
            ctx.skip("direct git cases %d.. not run: time budget" % i)
            break
        results.extend(ctx.parallel(direct_git_case, jobs[i:i + 8], workers=8))
    greqs, gmeta = [], []
    for res in results:
        if res.get("skipped"):
            ctx.skip("direct git case: " + res["skipped"])
            continue
        for v in res.get("violations", []):
            ctx.violation(v["what"], v["case"], v["signature"])
        for c in res.get("contract", []):
            ctx.disagree("GitContract clause '%s' holds for the git commands Bob issued" % c["clause"],
                         {"kind": "direct-git", "gseed": res["gseed"]}, c, "contract")
        for st in res["steps"]:
            greqs.append(st["req"])
            gmeta.append((res, st))
    if greqs:
        from gen.c12world import canon_repo
        out = ctx.lean(DRIVER, greqs)
        for (res, st), m in zip(gmeta, out):
            key = ("git", res["gseed"], st["n"])
            ctx.case(key, sample={"direct-git": res["gseed"], "step": st["desc"]} if st["n"] == 1 else None)
            case = {"kind": "direct-git", "gseed": res["gseed"], "step": st["n"], "desc": st["desc"]}
            if st["req"]["op"] == "status":
                ctx.count("git_status", ",".join(sorted(st["impl"])) or "clean")
                if sorted(st["impl"]) != sorted(m.get("flags", [])):
                    ctx.disagree("GitScm.status taints == Model.status", case, sorted(st["impl"]), sorted(m.get("flags", [])))
                continue
            ctx.count("git_" + st["req"]["mode"], "ok" if st["impl"]["ok"] else "failed")
            if st["impl"]["ok"] != m.get("ok"):
                ctx.disagree("GitScm.%s success == Model" % st["req"]["mode"], case, st["impl"]["ok"], m.get("ok"))
                continue
            a, b = canon_repo(st["impl"]["repo"]), canon_repo(m["repo"])
            if not st["impl"]["ok"]:
                for f in ("remotes", "tags"):
                    a.pop(f), b.pop(f)
            if a != b:
                ctx.disagree("clone state after GitScm.%s == Model" % st["req"]["mode"], case, a, b)
        ctx.trace_validated(len(out))


def direct_git_case(job):
    """one generated clone, a short sequence of user ops / upstream ops / switch / update / status through the real
    GitScm methods (child process), each step compared with the model by the caller"""
    (base, pym, gseed) = job
    from gen.c12world import World, parse_gitlog, snap_of
    r = random.Random(gseed)
    if os.path.exists(base):
        shutil.rmtree(base)
    os.makedirs(base)
    res = {"gseed": gseed, "steps": [], "violations": [], "contract": []}
    try:
        w = World(base, pym)
        w.gen_repo(r, "r0", ignore=None)
        w.gen_repo(r, "r1", ignore=None)
        os.makedirs(w.proj)
        clone = os.path.join(w.proj, "clone")
        ubc = r.random() < 0.7
        cur = gen_git_spec(r, w, ".") if r.random() < 0.6 else gen_git_spec_on_branch(r, w, ".")
        plan = [{"mode": "fresh", "new": cur}]
        steps = r.randrange(3, 7)
        ledger = []
        script = []
        n = 0
        # the sequence is executed step by step: each Bob call is one child process
        ok, post = gitscm_call(w, clone, "fresh", None, cur, ubc)
        n += 1
        res["steps"].append(step_record(w, n, "fresh " + brief(cur), "fresh", None, cur, ubc, None, ok, post))
        if not ok:
            return res
        for i in range(steps):
            k = r.random()
            if k < 0.4:
                desc = user_op(w, r, clone, ledger)
                ledger[:] = [it for it in ledger if item_present(w, clone, it)]
                continue
            if k < 0.55:
                w.upstream_op(r, r.choice(["r0", "r1"]))
                continue
            pre, _ = w.abstract_repo(clone, [])
            mw = w.model_world()
            if k < 0.7:
                st, expendable = gitscm_status(w, clone, cur, ubc)
                # oracle: a clone that reports `expendable` may be deleted by a non-forced `bob clean`,
                # so it must not hold user work
                held = [it for it in ledger if item_present(w, clone, it)]
                if expendable and held:
                    res["violations"].append({
                        "what": "GitScm.status reports the clone expendable (flags %r) although it holds user work %s (steps: %s)"
                                % (st, json.dumps(held[:3]), [s_["desc"] for s_ in res["steps"]]),
                        "case": {"kind": "direct-git", "gseed": gseed}, "signature": "expendable-clone-holds-user-work"})
                n += 1
                res["steps"].append({"n": n, "desc": "status " + brief(cur), "impl": st,
                                     "req": dict({"op": "status", "repo": pre, "spec": model_spec(w, cur, ubc), "extra": False}, **mw)})
                continue
            if os.path.exists(w.gitlog):
                os.unlink(w.gitlog)
            if k < 0.85:
                repo = next(nm for nm, p in w.repos.items() if "file://" + p == cur["url"])
                if r.random() < 0.45:
                    new = gen_git_spec_on_branch(r, w, ".", repo)
                else:
                    new = gen_git_spec(r, w, ".", repo if r.random() < 0.7 else None)
                ok, post = gitscm_call(w, clone, "switch", cur, new, ubc)
                n += 1
                res["steps"].append(step_record(w, n, "switch %s -> %s" % (brief(cur), brief(new)), "switch", cur, new, ubc, (pre, mw), ok, post))
                mode = "switch"
                if ok:
                    cur = new
            else:
                ok, post = gitscm_call(w, clone, "update", None, cur, ubc)
                n += 1
                res["steps"].append(step_record(w, n, "update " + brief(cur), "update", None, cur, ubc, (pre, mw), ok, post))
                mode = "update"
            res["contract"].extend(check_contract(w, parse_gitlog(w.gitlog), snap_of))
            for it in ledger:
                if not item_present(w, clone, it):
                    res["violations"].append({
                        "what": "GitScm.%s destroyed user work in the clone: %s (steps: %s)" % (mode, json.dumps(it), [s["desc"] for s in res["steps"]]),
                        "case": {"kind": "direct-git", "gseed": gseed}, "signature": "git-%s-destroys-user-work" % mode})
            ledger[:] = [it for it in ledger if item_present(w, clone, it)]
            if not ok and mode == "switch":
                break      # the builder would move the clone to the attic now
    except Exception as e:
        import traceback
        res["skipped"] = "%s: %s | %s" % (type(e).__name__, e, traceback.format_exc()[-600:])
    finally:
        shutil.rmtree(base, ignore_errors=True)
    return res


def brief(s):
    return "%s@%s" % (os.path.basename(s["url"]), s.get("commit", "")[:7] or s.get("tag") or s.get("branch"))


def item_present(w, clone, item):
    if item["kind"] == "commit":
        rc, out = w.git(clone, "rev-list", "--all", check=False)
        rc2, out2 = w.git(clone, "rev-list", "HEAD", check=False)
        return item["sha"] in out.split() or item["sha"] in out2.split()
    p = os.path.join(clone, item["name"])
    try:
        return item["token"].encode() in open(p, "rb").read()
    except OSError:
        return False


def step_record(w, n, desc, mode, old, new, ubc, pre_mw, ok, post):
    if pre_mw is None:
        pre, mw = {"objs": [], "heads": {}, "remotes": {}, "tags": {}, "head": {"branch": "master"}, "dirty": [], "untracked": [], "url": None}, w.model_world()
    else:
        pre, mw = pre_mw
    req = {"op": "git", "mode": mode, "repo": pre, "new": model_spec(w, new, ubc)}
    if old is not None:
        req["old"] = model_spec(w, old, ubc)
    req.update(mw)
    return {"n": n, "desc": desc, "req": req, "impl": {"ok": ok, "repo": post}}


GITSCM_CHILD = r'''
import sys, os, json, asyncio
sys.path.insert(0, sys.argv[1])
if __name__ == "__main__":
    from unittest.mock import MagicMock
    from bob.scm import getScm
    from bob.invoker import Invoker
    from bob.utils import runInEventLoop
    job = json.load(open(sys.argv[2]))
    ws = job["ws"]
    os.makedirs(ws, exist_ok=True)
    spec = MagicMock(workspaceWorkspacePath=ws, envWhiteList=set())
    out = {}
    def mk(s):
        s = dict(s); s["recipe"] = "x.yaml#0"; s["__source"] = "x"; s["useBranchAndCommit"] = job["ubc"]
        return s
    new = getScm(mk(job["new"]))
    if job["mode"] == "status":
        st = new.status(ws)
        out["flags"] = [f.name for f in st.flags]
        out["expendable"] = bool(st.expendable)
    else:
        inv = Invoker(spec, True, True, False, False, False, True)
        try:
            if job["mode"] == "switch":
                rc = runInEventLoop(inv.executeScmSwitch(new, mk(job["old"])))
                out["ok"] = (rc == 0)
            else:
                runInEventLoop(new.invoke(inv, False))
                out["ok"] = True
        except Exception as e:
            out["ok"] = False
            out["exc"] = type(e).__name__ + ": " + str(e)[:200]
    json.dump(out, open(sys.argv[3], "w"))
'''


def _child(w, job):
    script = os.path.join(w.base, "gitscm_child.py")
    if not os.path.exists(script):
        with open(script, "w") as f:
            f.write(GITSCM_CHILD)
    jf, of = os.path.join(w.base, "job.json"), os.path.join(w.base, "out.json")
    json.dump(job, open(jf, "w"))
    if os.path.exists(of):
        os.unlink(of)
    env = dict(w.env)
    env["PATH"] = w.bindir + os.pathsep + env.get("PATH", "")
    env["PYTHONDONTWRITEBYTECODE"] = "1"
    flag = os.path.join(w.base, "gitlog.on")
    open(flag, "w").close()
    try:
        subprocess.run([PY, script, w.pym, jf, of], env=env, stdout=subprocess.PIPE, stderr=subprocess.STDOUT, timeout=600, cwd=w.base)
    finally:
        os.unlink(flag)
    return json.load(open(of)) if os.path.exists(of) else {"ok": False, "exc": "no output"}


def gitscm_call(w, clone, mode, old, new, ubc):
    out = _child(w, {"ws": clone, "mode": mode, "old": old, "new": new, "ubc": ubc})
    repo, _ = w.abstract_repo(clone, []) if os.path.isdir(os.path.join(clone, ".git")) else ({}, False)
    return bool(out.get("ok")), repo


def gitscm_status(w, clone, spec, ubc):
    out = _child(w, {"ws": clone, "mode": "status", "new": spec, "ubc": ubc})
    return out.get("flags", ["?"]), out.get("expendable")


MANIFEST = {
    "text": "Proved in Lean (Props/C12.lean) for all old states, new SCM lists, flags and SCM outcomes: a run of the checkout "
            "step only emits scmSwitch / moveToAttic (fresh attic number) / regAttic / setDirState / invoke and emptyDir solely "
            "for a pruning import SCM, and the set of SCM directories is the replay of that log; one run and, by induction, every "
            "history of builds (arbitrary recipe edits and upstream moves), user actions, bob clean -s and bob clean --attic keeps "
            "every work item located in a registered SCM directory (three exactly stated loss conditions: below a pruning import "
            "SCM, in an unregistered directory below a cleaned attic directory, in an untracked directory of a cleaned "
            "workspace); under the GitContract hypotheses GitScm.switch/invoke never lose dirty/untracked paths or user commits "
            "held by a local ref (whether they succeed or fail half way), the guarded reset --keep is safe, an `expendable` status "
            "implies that no user work exists; bob clean -s / --attic remove an SCM directory only if the SCM registered for it "
            "(and everything registered below it) is expendable and never with --dry-run; a successful run from an untouched "
            "consistent workspace leaves exactly the fresh checkouts of the new SCM list (and so does every history of successful "
            "builds).  The executable git model satisfies GitContract (proved) and is compared with git 2.39; the builder model is "
            "compared with real `bob dev/clean` runs on generated universes; every state changing git command Bob issues is checked "
            "against the contract clauses; flag/property sets and the branch-moving git commands are re-extracted from the source.",
    "note": "trusted: Lean kernel, harness/props/c12.py, harness/gen/c12world.py, git 2.39 up to the validated contract clauses",
    "technique": "Lean 4 proof over hand-written model + differential correspondence on real child processes + user-work ledger oracle",
}
